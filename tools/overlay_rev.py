"""usage: overlay_rev.py <rev> <prop> <relpath>...  -- run a property's rules with the given files taken from <rev> (in-memory overlay)"""
import subprocess, sys, os
sys.path.insert(0, os.path.dirname(os.path.dirname(os.path.abspath(__file__))))
from sa.engine.context import Ctx
from sa.run import run_rules
rev, prop, rels = sys.argv[1], sys.argv[2], sys.argv[3:]
ov = {r: subprocess.check_output(["git", "-C", "/repo", "show", f"{rev}:{r}"], text=True) for r in rels}
ctx = Ctx("/repo", overlay=ov)
reps = run_rules(prop, ctx, raise_on_error=False)
print("analysis errors:", ctx.analysis_errors)
for r in reps:
    for f in r.findings:
        print(f"{f.rule} {f.function}: {f.message[:200]}\n    [{f.construct[:120]}]")
print("findings:", sum(len(r.findings) for r in reps))
