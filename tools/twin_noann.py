"""Whole-tree silent twin: parameter / return annotations of every function removed and annotated locals turned into plain
assignments (class-level annotations stay: dataclass fields need them). Shows which rules lean on annotations. Triage tool."""
import ast, os, sys
sys.path.insert(0, os.path.dirname(os.path.dirname(os.path.abspath(__file__))))
from sa.engine.context import Ctx
from sa.run import run_rules
from sa.engine.report import known_open_keys


class NoAnn(ast.NodeTransformer):
    def __init__(self):
        self.depth = 0

    def visit_FunctionDef(self, node):
        self.depth += 1
        for a in node.args.posonlyargs + node.args.args + node.args.kwonlyargs:
            a.annotation = None
        if node.args.vararg:
            node.args.vararg.annotation = None
        if node.args.kwarg:
            node.args.kwarg.annotation = None
        node.returns = None
        self.generic_visit(node)
        self.depth -= 1
        return node
    visit_AsyncFunctionDef = visit_FunctionDef

    def visit_ClassDef(self, node):
        d, self.depth = self.depth, 0
        self.generic_visit(node)
        self.depth = d
        return node

    def visit_AnnAssign(self, node):
        if self.depth and node.value is not None and node.simple:
            return ast.copy_location(ast.Assign(targets=[node.target], value=node.value), node)
        return node


def overlay_for(root):
    overlay = {}
    for dp, dn, fn in os.walk(os.path.join(root, "sharepoint2text")):
        if "tests" in dp.split(os.sep):
            continue
        for f in fn:
            if f.endswith(".py"):
                p = os.path.join(dp, f)
                rel = os.path.relpath(p, root)
                tree = ast.fix_missing_locations(NoAnn().visit(ast.parse(open(p, encoding="utf-8").read())))
                overlay[rel] = ast.unparse(tree) + "\n"
                compile(overlay[rel], rel, "exec")
    return overlay


if __name__ == "__main__":
    root = "/repo"
    overlay = overlay_for(root)
    props = sys.argv[1:] or [f"C{i:02d}" for i in range(1, 21)]
    bad = 0
    for prop in props:
        ctx = Ctx(root, overlay=overlay)
        reps = run_rules(prop, ctx, raise_on_error=False)
        known = known_open_keys(prop)
        new = [f for r in reps for f in r.findings if f.key not in known]
        errs = getattr(ctx, "analysis_errors", [])
        print(prop, "obligations", sum(r.obligations for r in reps), "new findings", len(new), "errors", [e[:200] for e in errs[:4]])
        for f in new[:6]:
            print("   ", f.key[:240])
        bad += len(new) + len(errs)
    sys.exit(1 if bad else 0)
