"""Regenerate /verif/MANIFEST.json from the rule modules (claimed = module exists and has RULES)."""
import importlib, json, os, sys
sys.path.insert(0, os.path.dirname(os.path.dirname(os.path.abspath(__file__))))
VERIF = os.path.dirname(os.path.dirname(os.path.abspath(__file__)))
props = [json.loads(l) for l in open(os.path.join(VERIF, "properties.jsonl"))]
checks, na = [], []
for p in props:
    pid = p["id"]
    try:
        mod = importlib.import_module(f"sa.rules.{pid.lower()}")
        claimed = bool(getattr(mod, "RULES", None)) and not getattr(mod, "NOT_APPLICABLE", None)
    except ModuleNotFoundError:
        mod, claimed = None, False
    if not claimed:
        na.append({"property_id": pid, "reason": getattr(mod, "NOT_APPLICABLE", None) or "static check not built yet (see DESIGN.md section 3 for the planned structural clauses)"})
        continue
    checks.append({
        "property_id": pid,
        "quick_cmd": f"/venv/bin/python -m sa.run {pid} --tier quick",
        "thorough_cmd": f"/venv/bin/python -m sa.run {pid} --tier thorough",
        "evidence_file": f"/verif/evidence/{pid}.json",
        "replay_cmd_template": "cat {path}",
        "engine": "sa",
        "level_claimed": {
            "category": "other",
            "text": getattr(mod, "LEVEL_TEXT", None) or ("Static analysis (custom AST/CFG/dataflow rules) of the current source tree: decides the structural clauses " + ", ".join(r.__name__.replace('rule_', '').upper() for r in mod.RULES) + " on every site they quantify over; value-level clauses are declared not decided."),
            "design_ref": f"DESIGN.md section 3, {pid}",
        },
        "level_note": "Trusted: " + "; ".join(getattr(mod, "TRUSTED", [])) + ". Not decided: " + "; ".join(getattr(mod, "NOT_DECIDED", [])),
        "technique": getattr(mod, "TECHNIQUE", "static analysis: custom AST / CFG / dataflow rules over the repository source"),
    })
man = {
    "version": 1,
    "setup_cmd": "/venv/bin/python -c \"import ast, sys; sys.exit(0)\"",
    "hooks": {
        "guard": "SHAREPOINT2TEXT_VERIF",
        "enable": "no hooks: static analysis reads /repo's working tree; nothing in /repo is instrumented",
        "baseline_off_cmd": "cd /repo && /venv/bin/python -m pytest -ra -q -p no:cacheprovider --timeout=900 --continue-on-collection-errors",
        "source_commits": [],
        "add_only": True,
    },
    "engines": [{"name": "sa", "path": "/verif/sa", "serves_properties": [c["property_id"] for c in checks],
                 "kind_free_text": "purpose-built static analyser (Python ast, hand-built CFG with exceptional edges, constant folding, call resolution, abstract evaluation of table-driven procedures); stdlib only"}],
    "checks": checks,
    "not_applicable": na,
    "notes": "Every check parses /repo's working tree on each run; exit 0 ok, 1 VIOLATION, 2 ANALYSIS-ERROR (vanished anchor / unrecognised idiom / failed self-test). Known findings: /verif/known_findings.json.",
}
json.dump(man, open(os.path.join(VERIF, "MANIFEST.json"), "w"), indent=1)
print("claimed", [c["property_id"] for c in checks], "n/a", len(na))
