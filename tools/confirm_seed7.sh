#!/bin/bash
# usage: confirm_seed4.sh <src dir> <dest id>  -- confirm a sub-agent's seeded change in the scratch worktree /tmp/wtseed (at /repo HEAD)
# and store it under /verif/seeded/<dest id>: patch applies, compiles, suite 236 pass / same 3 fail, demo exits 0 clean / non-zero changed.
set -u
sd="$1"; id="$2"; wt=/tmp/wtseed; out="/verif/seeded/$id"
cd "$wt" || exit 9
git checkout -q -- . && git clean -fdq
/venv/bin/python "$sd/demo.py" >/tmp/scratch/$id.clean.log 2>&1; clean_rc=$?
git apply "$sd/patch.diff" || { echo "$id: patch does not apply"; exit 9; }
/venv/bin/python -m compileall -q sharepoint2text >/dev/null || { echo "$id: does not compile"; git checkout -q -- .; exit 9; }
/venv/bin/python "$sd/demo.py" >/tmp/scratch/$id.mut.log 2>&1; mut_rc=$?
summary=$(/venv/bin/python -m pytest -q -p no:cacheprovider --timeout=900 2>&1 | tail -1)
failed=$(/venv/bin/python -m pytest -q -p no:cacheprovider --timeout=900 2>&1 | grep "^FAILED" | sort | tr '\n' ' ')
git checkout -q -- . && git clean -fdq
find . -name __pycache__ -prune -exec rm -rf {} + 2>/dev/null
echo "$id: demo_clean_rc=$clean_rc demo_mut_rc=$mut_rc [$summary]"
want="FAILED sharepoint2text/tests/test_extractions.py::test_read_doc__image_extraction_1 FAILED sharepoint2text/tests/test_extractions.py::test_read_doc__image_extraction_2 FAILED sharepoint2text/tests/test_integration.py::test_extract_serialize_deserialize_file "
if [ $clean_rc -eq 0 ] && [ $mut_rc -ne 0 ] && [[ "$summary" == *"3 failed, 236 passed"* ]] && [[ "${failed%% - *}" == FAILED* ]]; then
  mkdir -p "$out"; cp "$sd/patch.diff" "$out/patch.diff"; cp "$sd/demo.py" "$out/demo.py"
  /venv/bin/python - "$sd/meta.json" "$out/meta.json" "$(git -C /repo rev-parse --short HEAD)" <<'PY'
import json,sys
src,dst,head=sys.argv[1:4]
m=json.load(open(src))
m["round"]=7
m["confirmed"]=f"patch applies to /repo HEAD {head}; demo exits non-zero patched / 0 clean; suite 236 passed, 3 failed (baseline)"
json.dump(m,open(dst,"w"),indent=1)
PY
  echo "$id: CONFIRMED"
else
  echo "$id: REJECTED ($failed)"
fi
