#!/bin/bash
# usage: seedtable.sh <seed dir> <props...>  -> prints seed, prop, exit code, rules that fired
S=$1; shift
cd /tmp/wtseed && git checkout -q -- . && git clean -fdq
if ! git apply $S/patch.diff 2>/dev/null; then echo "$(basename $S) APPLY-FAIL"; exit 0; fi
for P in "$@"; do
  OUT=$(cd /verif && /venv/bin/python -m sa.run $P --tier quick --root /tmp/wtseed --no-evidence 2>&1)
  RC=$?
  RULES=$(echo "$OUT" | grep "  finding:" | awk '{print $2}' | sort -u | tr '\n' ' ')
  echo "$(basename $S) $P rc=$RC $RULES"
done
cd /tmp/wtseed && git checkout -q -- . && git clean -fdq
