"""Lists self-test mutants / twins whose edit no longer applies to /repo (they silently drop out of the thorough tier). Triage tool."""
import importlib, os, sys
sys.path.insert(0, os.path.dirname(os.path.dirname(os.path.abspath(__file__))))
from sa.selftest.harness import _overlay
bad = 0
for n in range(1, 21):
    m = importlib.import_module(f"sa.selftest.c{n:02d}")
    for v in list(getattr(m, "MUTANTS", [])) + list(getattr(m, "TWINS", [])):
        try:
            if _overlay("/repo", v) is None:
                print(f"C{n:02d} INAPPLICABLE {v.name}")
                bad += 1
        except Exception as exc:
            print(f"C{n:02d} ERROR {v.name}: {str(exc)[:120]}")
            bad += 1
print("inapplicable:", bad)
sys.exit(1 if bad else 0)
