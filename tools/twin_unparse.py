"""Whole-tree silent twin: every repository file replaced by ast.unparse(ast.parse(src)) (comments gone, layout, quoting and
parenthesisation normalised). Every check must give the same verdict as on the real tree. Triage tool, not a registered command."""
import ast, os, sys
sys.path.insert(0, os.path.dirname(os.path.dirname(os.path.abspath(__file__))))
from sa.engine.context import Ctx
from sa.run import run_rules
from sa.engine.report import known_open_keys

root = "/repo"
overlay = {}
for dp, dn, fn in os.walk(os.path.join(root, "sharepoint2text")):
    if "tests" in dp.split(os.sep):
        continue
    for f in fn:
        if f.endswith(".py"):
            p = os.path.join(dp, f)
            rel = os.path.relpath(p, root)
            src = open(p, encoding="utf-8").read()
            overlay[rel] = ast.unparse(ast.parse(src)) + "\n"
props = sys.argv[1:] or [f"C{i:02d}" for i in range(1, 21)]
bad = 0
for prop in props:
    ctx = Ctx(root, overlay=overlay)
    reps = run_rules(prop, ctx, raise_on_error=False)
    known = known_open_keys(prop)
    new = [f for r in reps for f in r.findings if f.key not in known]
    errs = getattr(ctx, "analysis_errors", [])
    print(prop, "obligations", sum(r.obligations for r in reps), "new findings", len(new), "errors", errs[:2])
    for f in new[:4]:
        print("   ", f.key[:200])
    bad += len(new) + len(errs)
sys.exit(1 if bad else 0)
