"""Whole-tree silent twin: every local variable (not parameters) of every simple function renamed (suffix _r).
Behaviour-preserving; shows which rules depend on the spelling of local names. Triage tool."""
import ast, os, sys, builtins
sys.path.insert(0, os.path.dirname(os.path.dirname(os.path.abspath(__file__))))
from sa.engine.context import Ctx
from sa.run import run_rules
from sa.engine.report import known_open_keys

class Ren(ast.NodeTransformer):
    def visit_FunctionDef(self, node):
        # only simple functions: no nested defs / lambdas / global / nonlocal / class bodies
        inner = [n for n in ast.walk(node) if n is not node and isinstance(n, (ast.FunctionDef, ast.AsyncFunctionDef, ast.Lambda, ast.ClassDef, ast.Global, ast.Nonlocal))]
        if inner:
            self.generic_visit(node)
            return node
        params = {a.arg for a in node.args.posonlyargs + node.args.args + node.args.kwonlyargs}
        if node.args.vararg: params.add(node.args.vararg.arg)
        if node.args.kwarg: params.add(node.args.kwarg.arg)
        assigned = set()
        for n in ast.walk(node):
            if isinstance(n, ast.Name) and isinstance(n.ctx, ast.Store):
                assigned.add(n.id)
            elif isinstance(n, ast.ExceptHandler) and n.name:
                assigned.add(n.name)
            elif isinstance(n, (ast.Import, ast.ImportFrom)):
                for a in n.names:
                    params.add((a.asname or a.name).split(".")[0])
        ren = {x: x + "_r" for x in assigned - params if not x.startswith("__") and x != "_"}
        for n in ast.walk(node):
            if isinstance(n, ast.Name) and n.id in ren:
                n.id = ren[n.id]
            elif isinstance(n, ast.ExceptHandler) and n.name in ren:
                n.name = ren[n.name]
        return node
    visit_AsyncFunctionDef = visit_FunctionDef

root = "/repo"
overlay = {}
for dp, dn, fn in os.walk(os.path.join(root, "sharepoint2text")):
    if "tests" in dp.split(os.sep):
        continue
    for f in fn:
        if f.endswith(".py"):
            p = os.path.join(dp, f)
            rel = os.path.relpath(p, root)
            tree = ast.parse(open(p, encoding="utf-8").read())
            tree = Ren().visit(tree)
            overlay[rel] = ast.unparse(tree) + "\n"
            compile(overlay[rel], rel, "exec")
props = sys.argv[1:] or [f"C{i:02d}" for i in range(1, 21)]
bad = 0
for prop in props:
    ctx = Ctx(root, overlay=overlay)
    reps = run_rules(prop, ctx, raise_on_error=False)
    known = known_open_keys(prop)
    new = [f for r in reps for f in r.findings if f.key not in known]
    errs = getattr(ctx, "analysis_errors", [])
    print(prop, "obligations", sum(r.obligations for r in reps), "new findings", len(new), "errors", [e[:160] for e in errs[:3]])
    for f in new[:5]:
        print("   ", f.key[:220])
    bad += len(new) + len(errs)
sys.exit(1 if bad else 0)
