#!/bin/bash
# usage: confirm_seed.sh <prop> <k>  -- confirm a sub-agent's seeded change in its own scratch worktree and store it under /verif/seeded
# confirms: patch applies to pristine HEAD, compiles, 236-test baseline still passes, demo fails with / passes without.
set -u
prop="$1"; k="$2"; wt="/tmp/wt/$prop"; sd="$wt/_seed/$k"
out="/verif/seeded/$prop-$k"
cd "$wt" || exit 9
git checkout -q -- . 
[ -f "$sd/patch.diff" ] || { echo "$prop-$k: no patch"; exit 9; }
/venv/bin/python "$sd/demo.py" >/tmp/wt/$prop.demo_clean.log 2>&1; clean_rc=$?
git apply "$sd/patch.diff" || { echo "$prop-$k: patch does not apply"; exit 9; }
/venv/bin/python -m compileall -q sharepoint2text >/dev/null || { echo "$prop-$k: does not compile"; git checkout -q -- .; exit 9; }
/venv/bin/python "$sd/demo.py" >/tmp/wt/$prop.demo_mut.log 2>&1; mut_rc=$?
/venv/bin/python -m pytest -q -p no:cacheprovider --timeout=900 -x --deselect sharepoint2text/tests/test_extractions.py::test_read_doc__image_extraction_1 --deselect sharepoint2text/tests/test_extractions.py::test_read_doc__image_extraction_2 --deselect sharepoint2text/tests/test_integration.py::test_extract_serialize_deserialize_file > /tmp/wt/$prop.tests.log 2>&1; t_rc=$?
summary=$(tail -1 /tmp/wt/$prop.tests.log)
git checkout -q -- .
find . -name __pycache__ -prune -exec rm -rf {} + 2>/dev/null
echo "$prop-$k: demo_clean_rc=$clean_rc demo_mut_rc=$mut_rc tests_rc=$t_rc [$summary]"
if [ $clean_rc -eq 0 ] && [ $mut_rc -ne 0 ] && [ $t_rc -eq 0 ]; then
  mkdir -p "$out"; cp "$sd/patch.diff" "$out/patch.diff"; cp "$sd/demo.py" "$out/demo.py"
  /venv/bin/python - "$sd/meta.json" "$out/meta.json" "$summary" <<'PY'
import json,sys
src,dst,summary=sys.argv[1:4]
try: m=json.load(open(src))
except Exception as e: m={"error":str(e)}
m["confirmed"]={"ran":["git apply patch.diff on pristine HEAD in a scratch worktree","python -m compileall sharepoint2text","demo.py on clean tree -> exit 0","demo.py with change -> non-zero","pytest (236 baseline tests; the 3 always-failing tests deselected) with change -> "+summary]}
json.dump(m,open(dst,"w"),indent=1)
PY
  echo "$prop-$k: CONFIRMED -> $out"
else
  echo "$prop-$k: REJECTED"
fi
