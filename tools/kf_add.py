"""usage: kf_add.py <prop> <key-substring> <what> <failing-input>   -- record one currently reported finding as an open known finding (triage tool, never run by checks)"""
import json, os, sys
sys.path.insert(0, os.path.dirname(os.path.dirname(os.path.abspath(__file__))))
from sa.engine.context import Ctx
from sa.run import run_rules
prop, sub, what, inp = sys.argv[1:5]
ctx = Ctx("/repo")
reps = run_rules(prop, ctx, raise_on_error=False)
hits = [f for r in reps for f in r.findings if sub in f.key]
if len(hits) != 1:
    print("need exactly one match, got", [f.key for f in hits]); sys.exit(1)
f = hits[0]
p = os.path.join(os.path.dirname(os.path.dirname(os.path.abspath(__file__))), "known_findings.json")
d = json.load(open(p))
if any(e["key"] == f.key for e in d["open"]):
    print("already listed"); sys.exit(0)
d["open"].append({"property": prop, "key": f.key, "rule": f.rule, "file": f.file, "function": f.function, "construct": f.construct, "what": what, "failing_input": inp})
json.dump(d, open(p, "w"), indent=1)
print("added", f.key)
