"""Whole-tree silent twins (triage): behaviour-preserving rewrites that real refactorings produce.

  invert   every `if C: A else: B` (both branches non-empty) becomes `if not C: B else: A`
  rettmp   every `return <call or expression that is not a name/constant>` becomes `_result = <expr>; return _result`

usage: twin_misc.py invert|rettmp [props...]"""
import ast, os, sys
sys.path.insert(0, os.path.dirname(os.path.dirname(os.path.abspath(__file__))))
from sa.engine.context import Ctx
from sa.run import run_rules
from sa.engine.report import known_open_keys


class Invert(ast.NodeTransformer):
    def visit_If(self, node):
        self.generic_visit(node)
        if node.orelse and node.body:
            t = node.test
            nt = t.operand if isinstance(t, ast.UnaryOp) and isinstance(t.op, ast.Not) else ast.UnaryOp(op=ast.Not(), operand=t)
            return ast.copy_location(ast.If(test=nt, body=node.orelse, orelse=node.body), node)
        return node


class RetTmp(ast.NodeTransformer):
    def _fix(self, body):
        out = []
        for st in body:
            if isinstance(st, ast.Return) and st.value is not None and not isinstance(st.value, (ast.Name, ast.Constant)) and not any(isinstance(x, (ast.Yield, ast.YieldFrom, ast.Await)) for x in ast.walk(st.value)):
                out.append(ast.copy_location(ast.Assign(targets=[ast.Name(id="_result", ctx=ast.Store())], value=st.value), st))
                out.append(ast.copy_location(ast.Return(value=ast.Name(id="_result", ctx=ast.Load())), st))
            else:
                out.append(st)
        return out

    def generic_visit(self, node):
        super().generic_visit(node)
        for f in ("body", "orelse", "finalbody"):
            b = getattr(node, f, None)
            if isinstance(b, list) and b and isinstance(b[0], ast.stmt):
                setattr(node, f, self._fix(b))
        return node


def overlay_for(root, T):
    overlay = {}
    for dp, dn, fn in os.walk(os.path.join(root, "sharepoint2text")):
        if "tests" in dp.split(os.sep):
            continue
        for f in fn:
            if f.endswith(".py"):
                p = os.path.join(dp, f)
                rel = os.path.relpath(p, root)
                tree = ast.fix_missing_locations(T().visit(ast.parse(open(p, encoding="utf-8").read())))
                overlay[rel] = ast.unparse(tree) + "\n"
                compile(overlay[rel], rel, "exec")
    return overlay


if __name__ == "__main__":
    kind = sys.argv[1]
    root = "/repo"
    overlay = overlay_for(root, {"invert": Invert, "rettmp": RetTmp}[kind])
    props = sys.argv[2:] or [f"C{i:02d}" for i in range(1, 21)]
    bad = 0
    for prop in props:
        ctx = Ctx(root, overlay=overlay)
        reps = run_rules(prop, ctx, raise_on_error=False)
        known = known_open_keys(prop)
        new = [f for r in reps for f in r.findings if f.key not in known]
        errs = getattr(ctx, "analysis_errors", [])
        print(prop, "obligations", sum(r.obligations for r in reps), "new findings", len(new), "errors", len(errs), [e[:140] for e in errs[:3]])
        for f in new[:5]:
            print("   ", f.key[:200])
        bad += len(new) + len(errs)
    sys.exit(1 if bad else 0)
