"""Whole-tree silent twin: a `logger.debug(...)` line at the start of every function of every module that has a module-level
`logger` (after the docstring). Behaviour-preserving; shows which rules depend on statement positions (first statement,
body[0], statement counts). Triage tool."""
import ast, os, sys
sys.path.insert(0, os.path.dirname(os.path.dirname(os.path.abspath(__file__))))
from sa.engine.context import Ctx
from sa.run import run_rules
from sa.engine.report import known_open_keys


class Log(ast.NodeTransformer):
    def visit_FunctionDef(self, node):
        self.generic_visit(node)
        stmt = ast.parse(f"logger.debug('enter %s', {node.name!r})").body[0]
        i = 1 if node.body and isinstance(node.body[0], ast.Expr) and isinstance(node.body[0].value, ast.Constant) and isinstance(node.body[0].value.value, str) else 0
        node.body.insert(i, stmt)
        return node
    visit_AsyncFunctionDef = visit_FunctionDef


def overlay_for(root):
    overlay = {}
    for dp, dn, fn in os.walk(os.path.join(root, "sharepoint2text")):
        if "tests" in dp.split(os.sep):
            continue
        for f in fn:
            if f.endswith(".py"):
                p = os.path.join(dp, f)
                rel = os.path.relpath(p, root)
                tree = ast.parse(open(p, encoding="utf-8").read())
                has_logger = any(isinstance(n, ast.Assign) and any(isinstance(t, ast.Name) and t.id == "logger" for t in n.targets) for n in tree.body)
                if not has_logger:
                    continue
                tree = ast.fix_missing_locations(Log().visit(tree))
                overlay[rel] = ast.unparse(tree) + "\n"
                compile(overlay[rel], rel, "exec")
    return overlay


if __name__ == "__main__":
    root = "/repo"
    overlay = overlay_for(root)
    props = sys.argv[1:] or [f"C{i:02d}" for i in range(1, 21)]
    bad = 0
    for prop in props:
        ctx = Ctx(root, overlay=overlay)
        reps = run_rules(prop, ctx, raise_on_error=False)
        known = known_open_keys(prop)
        new = [f for r in reps for f in r.findings if f.key not in known]
        errs = getattr(ctx, "analysis_errors", [])
        print(prop, "obligations", sum(r.obligations for r in reps), "new findings", len(new), "errors", [e[:200] for e in errs[:4]])
        for f in new[:6]:
            print("   ", f.key[:240])
        bad += len(new) + len(errs)
    sys.exit(1 if bad else 0)
