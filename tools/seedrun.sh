#!/bin/bash
# usage: seedrun.sh <patch.diff> <prop> [tier]   -- applies a seeded change to /repo, runs the check, always restores /repo
set -u
patch="$1"; prop="$2"; tier="${3:-quick}"
cd /repo || exit 9
if ! git diff --quiet; then echo "repo dirty, abort"; exit 9; fi
git apply "$patch" || { echo "patch does not apply"; exit 9; }
cd /verif && /venv/bin/python -m sa.run "$prop" --tier "$tier" --no-evidence
rc=$?
git -C /repo checkout -- . 
echo "exit=$rc"
exit $rc
