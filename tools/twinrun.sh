#!/bin/bash
# usage: twinrun.sh <dir with patch.diff> [worktree]  -> one line per property whose quick check is not rc=0 on the refactored tree
# (behaviour-preserving refactorings from sub-agents: every line printed is a false alarm of a check, or a hidden behaviour change)
D=$1; WT=${2:-/tmp/wttwin}
[ -d $WT ] || git -C /repo worktree add -q --detach $WT HEAD
cd $WT && git checkout -q -- . && git clean -fdq
if ! git apply $D/patch.diff 2>/dev/null; then echo "$(basename $D) APPLY-FAIL"; exit 0; fi
T=$(mktemp -d /tmp/twinrun.XXXX)
for i in $(seq -w 1 20); do
  ( O=$(cd /verif && /venv/bin/python -m sa.run C$i --tier quick --root $WT --no-evidence 2>&1); RC=$?
    if [ $RC -ne 0 ]; then echo "$(basename $D) C$i rc=$RC $(echo "$O" | grep '  finding:\|ANALYSIS-ERROR' | cut -c1-400 | tr '\n' ';')" > $T/$i; fi ) &
done; wait
cat $T/* 2>/dev/null; N=$(ls $T | wc -l); rm -rf $T
echo "$(basename $D) alarms=$N"
cd $WT && git checkout -q -- . && git clean -fdq
