#!/bin/bash
# usage: seedtable_all.sh [jobs]  -> triage/seedtable_all.txt : every seed under /verif/seeded run against its own property (quick tier)
# in scratch worktrees of /repo HEAD under /tmp (removed at the end); /repo itself is never touched
J=${1:-8}
OUT=/verif/triage/seedtable_all.txt
TMP=$(mktemp -d /tmp/seedall.XXXX)
for j in $(seq 1 $J); do git -C /repo worktree add -q --detach $TMP/wt$j HEAD; done
ls /verif/seeded | sort -V > $TMP/list
one() {
  j=$1; TMP=$2
  while read -r sid; do
    P=${sid%-*}
    cd $TMP/wt$j && git checkout -q -- . && git clean -fdq
    if ! git apply /verif/seeded/$sid/patch.diff 2>/dev/null; then echo "$sid $P APPLY-FAIL"; continue; fi
    O=$(cd /verif && /venv/bin/python -m sa.run $P --tier quick --root $TMP/wt$j --no-evidence 2>&1); RC=$?
    R=$(echo "$O" | grep "  finding:" | awk '{print $2}' | sort -u | tr '\n' ' ')
    echo "$sid $P rc=$RC $R"
  done
}
export -f one
split -n r/$J $TMP/list $TMP/part.
i=0; for f in $TMP/part.*; do i=$((i+1)); one $i $TMP < $f > $TMP/out.$i 2>&1 & done; wait
cat $TMP/out.* | grep -v conda | sort -V > $OUT
for j in $(seq 1 $J); do git -C /repo worktree remove --force $TMP/wt$j; done
git -C /repo worktree prune; rm -rf $TMP
echo "reported: $(grep -c 'rc=1' $OUT)  exit2: $(grep -c 'rc=2' $OUT)  quiet: $(grep -c 'rc=0' $OUT)  applyfail: $(grep -c APPLY-FAIL $OUT)"
