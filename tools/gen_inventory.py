"""usage: gen_inventory.py [root]  -- write sa/inventory.json: the functions (module level and methods) of every analysed module of the
reference tree (/repo HEAD working tree).  Functions a later tree defines and this file does not list are *new*; private new helpers are
expanded at their call sites before the rules run (sa/engine/inline.py).  Regenerate after every commit to /repo; never at check time."""
import ast, json, os, subprocess, sys
sys.path.insert(0, os.path.dirname(os.path.dirname(os.path.abspath(__file__))))
os.environ["SA_NO_INLINE"] = "1"
from sa.engine.loader import Project
root = sys.argv[1] if len(sys.argv) > 1 else "/repo"
p = Project(root)
out = {}
locs = {}
shapes = {}
nested = {}
from sa.engine.alias import binding_shapes
def names_bound(fn):
    return sorted({n.id for n in ast.walk(fn) if isinstance(n, ast.Name) and isinstance(n.ctx, (ast.Store, ast.Del))} | {a.arg for a in ast.walk(fn) if isinstance(a, ast.arg)})
for m in p.by_rel.values():
    m.tree = ast.parse(m.src)  # the inventory describes the source as written (the normal forms of the loader run after the passes that consult it)
    quals = []
    locs[m.rel] = {}
    shapes[m.rel] = {}
    for st in m.tree.body:
        if isinstance(st, (ast.FunctionDef, ast.AsyncFunctionDef)):
            quals.append(st.name)
            locs[m.rel][st.name] = names_bound(st)
            shapes[m.rel][st.name] = binding_shapes(st)
        elif isinstance(st, ast.ClassDef):
            for s in st.body:
                if isinstance(s, (ast.FunctionDef, ast.AsyncFunctionDef)):
                    quals.append(f"{st.name}.{s.name}")
                    locs[m.rel][f"{st.name}.{s.name}"] = names_bound(s)
                    shapes[m.rel][f"{st.name}.{s.name}"] = binding_shapes(s)
    out[m.rel] = sorted(quals)
    nested[m.rel] = sorted({f.name for f in ast.walk(m.tree) if isinstance(f, (ast.FunctionDef, ast.AsyncFunctionDef)) and any(isinstance(x, ast.ListComp) and isinstance(x.elt, ast.ListComp) for x in ast.walk(f))})
head = subprocess.run(["git", "-C", root, "rev-parse", "--short", "HEAD"], capture_output=True, text=True).stdout.strip()
dst = os.path.join(os.path.dirname(os.path.dirname(os.path.abspath(__file__))), "sa", "inventory.json")
json.dump({"_comment": "reference inventory of functions per module; see sa/engine/inline.py", "commit": head, "functions": out, "locals": locs, "bindings": shapes, "nested_comprehensions": nested}, open(dst, "w"), indent=0, sort_keys=True)
print("modules", len(out), "functions", sum(len(v) for v in out.values()), "at", head)
