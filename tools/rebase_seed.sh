#!/bin/bash
# usage: rebase_seed.sh <seed id> [fuzz]   -- the working tree of /tmp/wtseed holds the rebased change (applied by hand or with
# `fuzz`): re-diff it into /verif/seeded/<id>/patch.diff (keeping the first original as patch.orig.diff), run the demo on the
# changed and on the clean tree and the test suite, and note the rebase in meta.json.
set -u
id="$1"; wt=/tmp/wtseed; sd=/verif/seeded/$id
cd $wt || exit 9
if [ "${2:-}" = "fuzz" ]; then git checkout -q -- .; git clean -fdq; patch -p1 -s --fuzz=3 < $sd/patch.diff || exit 9; find . -name "*.orig" -delete; fi
git diff > /tmp/scratch/$id.rebased.diff
/venv/bin/python $sd/demo.py > /tmp/scratch/$id.mut.log 2>&1; mut=$?
summary=$(/venv/bin/python -m pytest -q -p no:cacheprovider --timeout=900 2>&1 | tail -1)
git checkout -q -- .; git clean -fdq
/venv/bin/python $sd/demo.py > /tmp/scratch/$id.clean.log 2>&1; clean=$?
head=$(git -C /repo rev-parse --short HEAD)
echo "$id: demo changed rc=$mut clean rc=$clean [$summary]"
if [ $mut -ne 0 ] && [ $clean -eq 0 ] && [[ "$summary" == *"3 failed, 236 passed"* ]]; then
[ -f $sd/patch.orig.diff ] || cp $sd/patch.diff $sd/patch.orig.diff
cp /tmp/scratch/$id.rebased.diff $sd/patch.diff
/venv/bin/python - "$sd/meta.json" "$head" <<'PY'
import json,sys
p,head=sys.argv[1:3]
m=json.load(open(p))
m['rebased']=(m.get('rebased','')+" | " if m.get('rebased') else "")+f"re-diffed against /repo {head} (context changed by later fix commits); patch.orig.diff is the first version"
m['confirmed']=f"rebased patch applies to /repo HEAD {head}; demo exits non-zero patched / 0 clean; suite 236 passed, 3 failed (baseline)"
json.dump(m,open(p,'w'),indent=1)
PY
echo "$id: REBASED"; else echo "$id: NOT CONFIRMED"; fi
