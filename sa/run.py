"""Driver:  python -m sa.run <Cxx> --tier quick|thorough [--root DIR]

exit 0  property's decided clauses hold on the analysed tree (known findings are printed)
exit 1  VIOLATION property=<id> replay=<path>   (a finding not listed in known_findings.json)
exit 2  ANALYSIS-ERROR  (vanished anchor, unrecognised idiom, analyser bug, failed self-test)
"""
from __future__ import annotations

import argparse
import importlib
import json
import os
import sys
import time
import traceback

from sa.engine.context import Ctx
from sa.engine.loader import AnalysisError
from sa.engine.report import VERIF, Finding, RuleReport, known_open_keys

PROPS = [f"C{i:02d}" for i in range(1, 21)]


def run_rules(prop: str, ctx: Ctx, raise_on_error: bool = True) -> list[RuleReport]:
    mod = importlib.import_module(f"sa.rules.{prop.lower()}")
    reports = []
    errors = []
    for rule in mod.RULES:
        try:
            rep = rule(ctx)
        except AnalysisError as exc:
            # one rule that cannot decide must not hide what the other rules of the property found
            errors.append(f"{rule.__name__}: {exc}")
            continue
        except Exception as exc:  # analyser bug on this tree: fail closed for this rule, keep the others' findings
            errors.append(f"{rule.__name__}: internal error {type(exc).__name__}: {exc}")
            continue
        if isinstance(rep, list):
            reports.extend(rep)
        else:
            reports.append(rep)
    floors = getattr(mod, "FLOORS", {})
    for rep in reports:
        floor = floors.get(rep.rule)
        if floor is not None and rep.obligations < floor:
            errors.append(
                f"{rep.rule}: only {rep.obligations} obligations found, floor confirmed by hand is {floor} "
                f"(an anchor vanished or an idiom is no longer recognised)"
            )
    ctx.analysis_errors = errors
    if errors and raise_on_error:
        raise AnalysisError("; ".join(errors))
    return reports


def write_evidence(prop, tier, seed, reports, wall, violations, known_hits, extra=None, error=None):
    mod = importlib.import_module(f"sa.rules.{prop.lower()}")
    obligations = sum(r.obligations for r in reports)
    discharged = sum(r.discharged for r in reports)
    samples = []
    for r in reports:
        for s in r.samples[:4]:
            samples.append({"rule": r.rule, "obligation": s})
    distinct = len({json.dumps(s, sort_keys=True, default=str) for r in reports for s in r.samples}) if reports else 0
    cov = {
        "explanation": getattr(mod, "EXPLANATION", "") + (f" ANALYSIS-ERROR: {error}" if error else ""),
        "obligations": obligations,
        "discharged": discharged,
        "evaluations": max(obligations, 1),
        "distinct_nontrivial": max(distinct, 0),
        "rule": "one obligation = one (rule, site) pair evaluated on the current source tree; distinct_nontrivial counts the distinct obligation samples recorded (each rule keeps at most 12)",
        "samples": samples or [{"note": "no obligations evaluated"}],
        "exhaustive": True,
        "rules": [
            {
                "rule": r.rule, "description": r.description, "obligations": r.obligations, "discharged": r.discharged,
                "findings": [f.to_json() for f in r.findings], "residual_unproven": r.residual, "information": r.info,
                "units_analysed": r.units,
            }
            for r in reports
        ],
        "known_findings_reproduced": known_hits,
        "not_decided": getattr(mod, "NOT_DECIDED", []),
        "checker_cmd": f"/venv/bin/python -m sa.run {prop} --tier {tier}",
        "trusted_base": getattr(mod, "TRUSTED", []),
    }
    if extra:
        cov.update(extra)
    ev = {
        "property_id": prop,
        "tier": tier,
        "seed": seed,
        "level": "other",
        "coverage": cov,
        "assumptions": getattr(mod, "TRUSTED", []),
        "wall_s": round(wall, 3),
        "violations": violations,
    }
    os.makedirs(os.path.join(VERIF, "evidence"), exist_ok=True)
    with open(os.path.join(VERIF, "evidence", f"{prop}.json"), "w", encoding="utf-8") as fh:
        json.dump(ev, fh, indent=1, default=str)


def main(argv=None) -> int:
    ap = argparse.ArgumentParser()
    ap.add_argument("prop")
    ap.add_argument("--tier", default=os.environ.get("VERIF_TIER") or "quick", choices=["quick", "thorough"])
    ap.add_argument("--root", default="/repo")
    ap.add_argument("--no-evidence", action="store_true")
    args = ap.parse_args(argv)
    prop = args.prop.upper()
    seed = int(os.environ.get("VERIF_SEED", "0") or 0)
    t0 = time.time()
    reports: list[RuleReport] = []
    try:
        ctx = Ctx(args.root, tier=args.tier)
        reports = run_rules(prop, ctx, raise_on_error=False)
    except AnalysisError as exc:
        print(f"ANALYSIS-ERROR property={prop}: {exc}")
        if not args.no_evidence:
            write_evidence(prop, args.tier, seed, reports, time.time() - t0, 0, [], error=str(exc))
        return 2
    except Exception as exc:  # analyser bug: never disguise as a violation
        traceback.print_exc()
        print(f"ANALYSIS-ERROR property={prop}: internal error {type(exc).__name__}: {exc}")
        if not args.no_evidence:
            try:
                write_evidence(prop, args.tier, seed, reports, time.time() - t0, 0, [], error=repr(exc))
            except Exception:
                pass
        return 2

    known = known_open_keys(prop)
    new: list[Finding] = []
    known_hits = []
    for r in reports:
        for f in r.findings:
            if f.key in known:
                known_hits.append(f.key)
                print(f"KNOWN-FINDING: property={prop} {f.rule} {f.file}::{f.function} {known[f.key].get('what', f.message)}")
            else:
                new.append(f)
    for k in known:
        if k not in known_hits:
            print(f"note: listed finding no longer reproduced on this tree: {k}")

    nobl = sum(r.obligations for r in reports)
    ndis = sum(r.discharged for r in reports)
    for r in reports:
        print(f"[{r.rule}] obligations={r.obligations} discharged={r.discharged} findings={len(r.findings)} "
              f"residual={len(r.residual)} units={len(r.units)}")

    extra = {}
    selftest_error = "; ".join(ctx.analysis_errors) if getattr(ctx, "analysis_errors", None) else None
    if args.tier == "thorough" and not new and not selftest_error:
        from sa.selftest.harness import run_selftest

        try:
            st = run_selftest(prop, args.root)
            extra["selftest"] = st
            print(f"[selftest] mutants={st['mutants']} caught={st['caught']} twins={st['twins']} quiet={st['quiet']} "
                  f"inapplicable={len(st['inapplicable'])}")
            if st["missed"] or st["noisy"]:
                selftest_error = f"self-test failed: missed mutants {st['missed']}, noisy twins {st['noisy']}"
        except Exception as exc:
            selftest_error = f"self-test could not run: {type(exc).__name__}: {exc}"

    rc = 0
    if new:
        outdir = os.path.join(VERIF, "out", prop)
        os.makedirs(outdir, exist_ok=True)
        for i, f in enumerate(new):
            path = os.path.join(outdir, f"{i}.json")
            with open(path, "w", encoding="utf-8") as fh:
                json.dump(f.to_json(), fh, indent=1)
            print(f"  finding: {f.rule} {f.file}:{f.line} {f.function}: {f.message}\n    construct: {f.construct}")
            print(f"VIOLATION property={prop} replay={path}")
        rc = 1
    elif selftest_error:
        print(f"ANALYSIS-ERROR property={prop}: {selftest_error}")
        rc = 2
    if not args.no_evidence:
        write_evidence(prop, args.tier, seed, reports, time.time() - t0, len(new), known_hits, extra=extra,
                       error=selftest_error)
    if rc == 0:
        print(f"OK property={prop} tier={args.tier} obligations={nobl} discharged={ndis} known_findings={len(known_hits)}")
    return rc


if __name__ == "__main__":
    sys.exit(main())
