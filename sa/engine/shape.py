"""Template comparison of small function bodies, insensitive to local renaming.

compare(actual_stmts, template_source) ->
    'equal'        same statements up to renaming of local names / parameters
    'leaves'       same AST skeleton, but a constant, operator, comparison or referenced global differs
                   (a semantic change at a recognised site -> VIOLATION)
    'shape'        different skeleton (refactor; the recogniser no longer applies -> ANALYSIS-ERROR)
"""
from __future__ import annotations

import ast


def _strip_doc(stmts):
    from .loader import is_noise

    return [s for s in stmts if not is_noise(s) or isinstance(s, ast.Pass)]


class _Alpha(ast.NodeTransformer):
    def __init__(self, local_names):
        self.map = {}
        self.locals = local_names

    def _n(self, name):
        if name not in self.locals:
            return name
        if name not in self.map:
            self.map[name] = f"v{len(self.map)}"
        return self.map[name]

    def visit_Name(self, node):
        return ast.copy_location(ast.Name(id=self._n(node.id), ctx=node.ctx), node)

    def visit_arg(self, node):
        return ast.copy_location(ast.arg(arg=self._n(node.arg), annotation=None), node)


def _locals_of(stmts, params):
    names = set(params)
    for st in stmts:
        for n in ast.walk(st):
            if isinstance(n, ast.Name) and isinstance(n.ctx, ast.Store):
                names.add(n.id)
            elif isinstance(n, ast.arg):
                names.add(n.arg)
    return names


def alpha(stmts, params=()):
    import copy

    stmts = [copy.deepcopy(s) for s in _strip_doc(stmts)]
    tr = _Alpha(_locals_of(stmts, params))
    for p in params:
        tr._n(p)
    return [tr.visit(s) for s in stmts]


def _skeleton_equal(a, b) -> str:
    """'equal' | 'leaves' | 'shape' for two AST nodes (or lists)."""
    if isinstance(a, list) and isinstance(b, list):
        if len(a) != len(b):
            return "shape"
        worst = "equal"
        for x, y in zip(a, b):
            r = _skeleton_equal(x, y)
            if r == "shape":
                return "shape"
            if r == "leaves":
                worst = "leaves"
        return worst
    if isinstance(a, ast.AST) and isinstance(b, ast.AST):
        leafy_ops = (ast.operator, ast.cmpop, ast.unaryop, ast.boolop)
        if isinstance(a, leafy_ops) and isinstance(b, leafy_ops):
            return "equal" if type(a) is type(b) else "leaves"
        if isinstance(a, (ast.Load, ast.Store, ast.Del)):
            return "equal"
        if type(a) is not type(b):
            return "shape"
        if isinstance(a, ast.Constant):
            return "equal" if (a.value == b.value and type(a.value) is type(b.value)) else "leaves"
        if isinstance(a, ast.Name):
            return "equal" if a.id == b.id else "leaves"
        if isinstance(a, ast.Attribute):
            r = _skeleton_equal(a.value, b.value)
            if r == "shape":
                return r
            return r if a.attr == b.attr else "leaves"
        worst = "equal"
        for f in a._fields:
            if f in ("lineno", "col_offset", "end_lineno", "end_col_offset", "type_comment", "annotation", "returns", "kind"):
                continue
            x, y = getattr(a, f, None), getattr(b, f, None)
            r = _skeleton_equal(x, y)
            if r == "shape":
                return "shape"
            if r == "leaves":
                worst = "leaves"
        return worst
    if a is None and b is None:
        return "equal"
    if isinstance(a, (str, int, float, bytes, bool)) or isinstance(b, (str, int, float, bytes, bool)):
        return "equal" if a == b else "leaves"
    if a is None or b is None:
        return "shape"
    return "equal" if a == b else "leaves"


def compare(actual_stmts, template_src: str, params=(), template_params=None) -> str:
    tmpl = ast.parse(template_src).body
    a = alpha(actual_stmts, params)
    b = alpha(tmpl, template_params if template_params is not None else params)
    return _skeleton_equal(a, b)


def compare_function(fn_node: ast.FunctionDef, template_src: str) -> str:
    """template_src is a complete `def`; parameters are aligned positionally."""
    t = ast.parse(template_src).body[0]
    pa = [a.arg for a in fn_node.args.args + fn_node.args.kwonlyargs]
    pb = [a.arg for a in t.args.args + t.args.kwonlyargs]
    if len(pa) != len(pb):
        return "shape"
    return _skeleton_equal(alpha(fn_node.body, pa), alpha(t.body, pb))
