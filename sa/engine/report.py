"""Findings, obligations, known-findings triage and evidence writing."""
from __future__ import annotations

import json
import os
from dataclasses import dataclass, field

VERIF = os.path.dirname(os.path.dirname(os.path.dirname(os.path.abspath(__file__))))
KNOWN_FILE = os.path.join(VERIF, "known_findings.json")


@dataclass
class Finding:
    rule: str  # e.g. C01-WRAP
    file: str
    function: str
    construct: str  # normalised text of the offending construct (never a line number)
    message: str
    line: int | None = None  # for the human reader only; never part of the key
    path: list[str] | None = None  # for path rules: a witness

    @property
    def key(self) -> str:
        return f"{self.rule}|{self.file}|{self.function}|{self.construct}"

    def to_json(self):
        return {
            "rule": self.rule, "file": self.file, "function": self.function, "construct": self.construct,
            "message": self.message, "line": self.line, "path": self.path, "key": self.key,
        }


@dataclass
class RuleReport:
    rule: str
    description: str
    obligations: int = 0
    discharged: int = 0
    findings: list[Finding] = field(default_factory=list)
    residual: list[str] = field(default_factory=list)  # unproven, not judged
    info: list[str] = field(default_factory=list)
    samples: list = field(default_factory=list)  # obligations written out
    units: list[str] = field(default_factory=list)  # functions / tables analysed

    def ok(self, sample=None):
        self.obligations += 1
        self.discharged += 1
        if sample is not None and len(self.samples) < 12:
            self.samples.append(sample)

    def fail(self, finding: Finding):
        self.obligations += 1
        self.findings.append(finding)

    def unit(self, u: str):
        if u not in self.units:
            self.units.append(u)


def load_known() -> dict:
    if not os.path.exists(KNOWN_FILE):
        return {"open": [], "fixed": []}
    with open(KNOWN_FILE, "r", encoding="utf-8") as fh:
        return json.load(fh)


def known_open_keys(prop: str) -> dict[str, dict]:
    data = load_known()
    return {e["key"]: e for e in data.get("open", []) if e.get("property") == prop}
