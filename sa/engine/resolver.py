"""Module/function-level constant facts for the interval domain (folded, never executed)."""
from __future__ import annotations

import ast
import re

from .consts import UNKNOWN
from .loader import dotted, walk_own


class Resolver:
    def __init__(self, ctx, fi):
        self.ctx, self.fi = ctx, fi
        self.m = fi.module
        self._local = {}
        f = fi
        while f is not None:
            for n in walk_own(f.node):
                if isinstance(n, ast.Assign) and len(n.targets) == 1 and isinstance(n.targets[0], ast.Name):
                    self._local.setdefault(n.targets[0].id, []).append(n.value)
                elif isinstance(n, (ast.AugAssign, ast.AnnAssign)) and isinstance(n.target, ast.Name):
                    self._local.setdefault(n.target.id, []).append(None)
                elif isinstance(n, (ast.For, ast.comprehension)):
                    for x in ast.walk(n.target):
                        if isinstance(x, ast.Name):
                            self._local.setdefault(x.id, []).append(None)
            f = f.parent

    def const_int(self, name):
        vals = self._local.get(name)
        if vals is not None:
            if len(vals) != 1 or vals[0] is None:
                return None
            v = self.ctx.folder.fold(self.m, vals[0])
        else:
            params = {a.arg for a in self.fi.node.args.args + self.fi.node.args.kwonlyargs}
            if name in params:
                return None
            v = self.ctx.folder.const(self.m, name)
        return v if isinstance(v, int) and not isinstance(v, bool) else None

    def _module_call(self, name, callee):
        node = self.m.assigns.get(name)
        if node is None:
            r = self.ctx.p.resolve_import(self.m, name)
            if r and r[0] == "const":
                mod, attr = r[1]
                node = mod.assigns.get(attr)
        if isinstance(node, ast.Call) and dotted(node.func) == callee and node.args:
            v = self.ctx.folder.fold(self.m, node.args[0])
            return v if isinstance(v, (str, bytes)) else None
        return None

    def struct_fmt(self, name):
        v = self._module_call(name, "struct.Struct")
        return v if isinstance(v, str) else None

    def regex_width(self, name):
        v = self._module_call(name, "re.compile")
        if v is None:
            return None
        try:
            lo, hi = re._parser.parse(v).getwidth()
        except Exception:
            return None
        return (int(lo), float("inf") if hi >= re._parser.MAXREPEAT else int(hi))
