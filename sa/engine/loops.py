"""Progress (variant) analysis of while-loops: path enumeration through the loop body + interval arithmetic.

For every back-edge path of a loop the analysis computes, relative to the value the cursor had at the loop head,
an interval for the cursor's new value.  A loop is PROVED when some variant from the catalogue strictly progresses
on every back-edge path; it is a VIOLATION only when a path makes *definitely* no progress (nothing the loop test
reads is assigned, mutated or handed to a call, and the path's own branch tests do not hinge on in-iteration
flags) or when an increment is fully analysable and can be <= 0.  Everything else is RESIDUAL (listed, not judged).
"""
from __future__ import annotations

import ast
import math
import struct as _struct
from dataclasses import dataclass, field

from .cfg import CFG
from .loader import dotted, norm

INF = math.inf
TOP = ("abs", -INF, INF, False)  # (kind, lo, hi, exact-leaves?)
PATH_CAP = 4096


def _abs(lo, hi, exact=True):
    return ("abs", lo, hi, exact)


def _rel(lo, hi, exact=True):
    return ("rel", lo, hi, exact)


def _add(a, b):
    if a[0] == "rel" and b[0] == "rel":
        return TOP
    kind = "rel" if "rel" in (a[0], b[0]) else "abs"
    return (kind, a[1] + b[1], a[2] + b[2], a[3] and b[3])


def _neg(a):
    if a[0] == "rel":
        return TOP
    return ("abs", -a[2], -a[1], a[3])


def _mul(a, b):
    if a[0] == "rel" or b[0] == "rel":
        return TOP
    vals = []
    for x in (a[1], a[2]):
        for y in (b[1], b[2]):
            if (x in (INF, -INF) and y == 0) or (y in (INF, -INF) and x == 0):
                vals.append(0)
            else:
                vals.append(x * y)
    return ("abs", min(vals), max(vals), a[3] and b[3])


_FMT_RANGES = {"B": (0, 255), "H": (0, 65535), "I": (0, 2**32 - 1), "L": (0, 2**32 - 1), "Q": (0, 2**64 - 1),
               "b": (-128, 127), "h": (-32768, 32767), "i": (-2**31, 2**31 - 1), "l": (-2**31, 2**31 - 1), "q": (-2**63, 2**63 - 1)}


def struct_ranges(fmt: str):
    out = []
    num = ""
    for ch in fmt:
        if ch in "<>=!@":
            continue
        if ch.isdigit():
            num += ch
            continue
        n = int(num) if num else 1
        num = ""
        if ch in _FMT_RANGES:
            out.extend([_FMT_RANGES[ch]] * n)
        elif ch in "sp":
            out.append(None)
        elif ch == "x":
            continue
        else:
            out.extend([None] * n)
    return out


class Intervals:
    """Expression -> interval under an environment {name: value}."""

    def __init__(self, cursor: str | None = None, resolver=None):
        self.cursor = cursor
        self.resolver = resolver  # object with const_int(name), struct_fmt(name), regex_width(name)

    def ev(self, e: ast.AST, env: dict):
        if isinstance(e, ast.Constant):
            if isinstance(e.value, bool):
                return _abs(int(e.value), int(e.value))
            if isinstance(e.value, int):
                return _abs(e.value, e.value)
            return TOP
        if isinstance(e, ast.Name):
            if e.id in env:
                return env[e.id]
            if self.resolver is not None:
                c = self.resolver.const_int(e.id)
                if c is not None:
                    return _abs(c, c)
            return TOP
        if isinstance(e, ast.UnaryOp) and isinstance(e.op, ast.USub):
            return _neg(self.ev(e.operand, env))
        if isinstance(e, ast.BinOp):
            a, b = self.ev(e.left, env), self.ev(e.right, env)
            if isinstance(e.op, ast.Add):
                return _add(a, b)
            if isinstance(e.op, ast.Sub):
                return _add(a, _neg(b))
            if isinstance(e.op, ast.Mult):
                return _mul(a, b)
            if isinstance(e.op, ast.BitAnd):
                for x in (a, b):
                    if x[0] == "abs" and x[1] == x[2] and x[1] >= 0:
                        return _abs(0, x[1], True)
                return TOP
            if isinstance(e.op, ast.FloorDiv) and b[0] == "abs" and b[1] == b[2] and b[1] > 0 and a[0] == "abs":
                return _abs(a[1] // b[1] if a[1] != -INF else -INF, a[2] // b[1] if a[2] != INF else INF, a[3])
            if isinstance(e.op, ast.Mod) and b[0] == "abs" and b[1] == b[2] and b[1] > 0:
                return _abs(0, b[1] - 1, True)
            if isinstance(e.op, ast.LShift) and a[0] == "abs" and b[0] == "abs" and a[1] >= 0 and b[1] == b[2] and 0 <= b[1] < 64:
                return _abs(a[1] * 2 ** int(b[1]), a[2] * 2 ** int(b[1]) if a[2] != INF else INF, a[3])
            if isinstance(e.op, ast.RShift) and a[0] == "abs" and a[1] >= 0:
                return _abs(0, a[2], a[3])
            if isinstance(e.op, ast.BitOr) and a[0] == "abs" and b[0] == "abs" and a[1] >= 0 and b[1] >= 0:
                return _abs(max(a[1], b[1]), INF, False)
            return TOP
        if isinstance(e, ast.IfExp):
            a, b = self.ev(e.body, env), self.ev(e.orelse, env)
            if a[0] == b[0]:
                return (a[0], min(a[1], b[1]), max(a[2], b[2]), a[3] and b[3])
            return TOP
        if isinstance(e, ast.Call):
            d = dotted(e.func) or ""
            if d == "int.from_bytes":
                signed = any(k.arg == "signed" and not (isinstance(k.value, ast.Constant) and k.value.value is False) for k in e.keywords)
                if signed:
                    return TOP
                w = self._slice_width(e.args[0]) if e.args else None
                return _abs(0, 256**w - 1 if w else INF, True)
            if d == "len":
                # len(m.group(0)) of a successful match of a module-level pattern: bounded by the pattern's width
                a0 = e.args[0] if e.args else None
                if isinstance(a0, ast.Call) and isinstance(a0.func, ast.Attribute) and a0.func.attr == "group" and isinstance(a0.func.value, ast.Name):
                    mv = env.get(a0.func.value.id)
                    whole = not a0.args or (isinstance(a0.args[0], ast.Constant) and a0.args[0].value == 0)
                    if mv and mv[0] == "match" and whole:
                        return _abs(mv[1], mv[2], True)
                return _abs(0, INF, False)
            if d == "ord":
                return _abs(0, 0x10FFFF, True)
            if d == "abs" and e.args:
                a = self.ev(e.args[0], env)
                return _abs(0, max(abs(a[1]), abs(a[2])), a[3]) if a[0] == "abs" else TOP
            if d in ("max", "min") and len(e.args) >= 2:
                vals = [self.ev(a, env) for a in e.args]
                kinds = {v[0] for v in vals}
                if len(kinds) == 1:
                    k = kinds.pop()
                    ex = all(v[3] for v in vals)
                    if d == "max":
                        return (k, max(v[1] for v in vals), max(v[2] for v in vals), ex)
                    return (k, min(v[1] for v in vals), min(v[2] for v in vals), ex)
                return TOP
            if d == "int" and len(e.args) == 1:
                a0 = e.args[0]
                if isinstance(a0, ast.BoolOp) and isinstance(a0.op, ast.Or):
                    a0 = a0.values[0]
                if isinstance(a0, ast.Subscript) and isinstance(a0.slice, ast.Slice):
                    # int(<slice of the input text>): any integer the input cares to spell, negative ones included.
                    # This is *known* to be unbounded (exact), not merely unknown: a cursor moved by it can go backwards.
                    return ("abs", -INF, INF, True)
                return self.ev(e.args[0], env) if isinstance(e.args[0], (ast.Name, ast.BinOp)) else TOP
            if d in ("struct.unpack", "struct.unpack_from") and e.args and isinstance(e.args[0], ast.Constant):
                return ("tuple", struct_ranges(str(e.args[0].value)))
            if isinstance(e.func, ast.Attribute) and e.func.attr in ("unpack", "unpack_from") and isinstance(e.func.value, ast.Name) and self.resolver is not None:
                fmt = self.resolver.struct_fmt(e.func.value.id)
                if fmt is not None:
                    return ("tuple", struct_ranges(fmt))
            if isinstance(e.func, ast.Attribute) and e.func.attr in ("match", "search", "fullmatch") and isinstance(e.func.value, ast.Name) and self.resolver is not None:
                w = self.resolver.regex_width(e.func.value.id)
                if w is not None:
                    return ("match", w[0], w[1], True)
            if isinstance(e.func, ast.Attribute) and e.func.attr in ("find", "rfind") and len(e.args) >= 2:
                start = self.ev(e.args[1], env)
                if e.func.attr == "find" and start[0] == "rel":
                    return ("findrel", start[1])
                return _abs(-1, INF, True)
            if isinstance(e.func, ast.Attribute) and e.func.attr in ("find", "rfind"):
                return _abs(-1, INF, True)
            if isinstance(e.func, ast.Attribute) and e.func.attr == "index":
                return _abs(0, INF, True)
            if isinstance(e.func, ast.Attribute) and e.func.attr in ("tell",):
                return _abs(0, INF, False)
            return TOP
        if isinstance(e, ast.Subscript):
            base = self.ev(e.value, env) if isinstance(e.value, ast.Call) else None
            if base and base[0] == "tuple" and isinstance(e.slice, ast.Constant) and isinstance(e.slice.value, int):
                rs = base[1]
                k = e.slice.value
                if -len(rs) <= k < len(rs) and rs[k] is not None:
                    return _abs(rs[k][0], rs[k][1], True)
            return TOP
        return TOP

    @staticmethod
    def _slice_width(e):
        """data[a:a+2] -> 2 ; data[a+2:a+4] -> 2"""
        if isinstance(e, ast.Subscript) and isinstance(e.slice, ast.Slice) and e.slice.lower is not None and e.slice.upper is not None:
            lo, hi = e.slice.lower, e.slice.upper
            lo_s, hi_s = norm(lo), norm(hi)

            def split(x):
                if isinstance(x, ast.BinOp) and isinstance(x.op, ast.Add) and isinstance(x.right, ast.Constant) and isinstance(x.right.value, int):
                    return norm(x.left), x.right.value
                if isinstance(x, ast.Constant) and isinstance(x.value, int):
                    return "", x.value
                return norm(x), 0

            bl, cl = split(lo)
            bh, ch = split(hi)
            if bl == bh and ch > cl:
                return ch - cl
        return None


@dataclass
class LoopVerdict:
    status: str  # proved | residual | violation
    variant: str = ""
    reason: str = ""
    paths: int = 0
    witness: list[str] = field(default_factory=list)


def _names(e):
    return {n.id for n in ast.walk(e) if isinstance(n, ast.Name)}


def _attr_chains(e):
    out = set()
    for n in ast.walk(e):
        if isinstance(n, ast.Attribute):
            d = dotted(n)
            if d:
                out.add(d)
    return out


MUT_SHRINK = {"pop", "popleft", "remove", "clear", "popitem"}
MUT_GROW = {"append", "extend", "insert", "add", "update", "appendleft"}


class LoopAnalysis:
    def __init__(self, fn: ast.AST, cfg: CFG, loop: ast.While, reader_ok=None, resolver=None):
        self.fn, self.cfg, self.loop = fn, cfg, loop
        self.resolver = resolver
        self.reader_ok = reader_ok or (lambda call: False)
        heads = cfg.loop_head.get(id(loop), [])
        self.head = heads[0] if heads else None
        self.body_in = cfg.loop_body_in.get(id(loop), [None])[0]
        self.region = self._region()

    def _region(self):
        """Nodes of the loop body: reachable from body entry without passing the head, and from which the head is reachable."""
        if self.head is None:
            return set()
        fwd = set()
        st = [self.body_in]
        while st:
            n = st.pop()
            if n in fwd or n == self.head:
                continue
            fwd.add(n)
            st.extend(self.cfg.succ[n])
        bwd = set()
        st = [p for p in self.cfg.pred[self.head] if p in fwd]
        while st:
            n = st.pop()
            if n in bwd or n == self.head:
                continue
            bwd.add(n)
            st.extend(p for p in self.cfg.pred[n] if p in fwd)
        return fwd & bwd

    # ---------------------------------------------------------------- paths
    def paths(self):
        """Back-edge paths (lists of (node, label_into_next)); inner loops are summarised as one step."""
        cfg = self.cfg
        inner_after = {}
        for lid, heads in cfg.loop_head.items():
            for h, a in zip(heads, cfg.loop_after[lid]):
                if h != self.head and h in self.region:
                    inner_after[h] = a
        out = []
        capped = False

        def dfs(n, path, seen):
            nonlocal capped
            if len(out) >= PATH_CAP:
                capped = True
                return
            for s in sorted(cfg.succ[n]):
                lab = cfg.elabel.get((n, s), "n")
                if s == self.head:
                    out.append(path + [(n, lab)])
                    continue
                if s not in self.region or s in seen:
                    continue
                if s in inner_after:
                    # summarise the inner loop as one step and continue behind it
                    a = inner_after[s]
                    step = path + [(n, lab), (s, "inner")]
                    if a == self.head:
                        out.append(step)
                    elif a in self.region:
                        dfs(a, step, seen | {s, a})
                    continue
                dfs(s, path + [(n, lab)], seen | {s})

        dfs(self.body_in, [], {self.body_in})
        return out, capped

    # ---------------------------------------------------------------- classification
    def analyse(self) -> LoopVerdict:
        loop = self.loop
        if self.head is None:
            return LoopVerdict("residual", reason="loop not found in CFG")
        test = loop.test
        const_true = isinstance(test, ast.Constant) and bool(test.value)
        paths, capped = self.paths()
        if capped:
            return LoopVerdict("residual", reason=f"more than {PATH_CAP} paths through the body", paths=len(paths))
        if not paths:
            return LoopVerdict("proved", variant="no back edge (body always leaves the loop)", paths=0)
        test_names = _names(test) - {"len", "all", "any", "self", "isinstance"}
        test_attrs = {a for a in _attr_chains(test)}
        # candidates for an integer cursor: names in the test that are assigned somewhere in the body
        assigned = set()
        for n in ast.walk(ast.Module(body=loop.body, type_ignores=[])):
            if isinstance(n, (ast.Assign, ast.AugAssign, ast.AnnAssign)):
                tg = n.targets if isinstance(n, ast.Assign) else [n.target]
                for t in tg:
                    for x in ast.walk(t):
                        if isinstance(x, ast.Name):
                            assigned.add(x.id)
        cands = sorted(test_names & assigned)
        verdicts = []
        # V1 / V1' / V2 / V5 integer cursor
        for cur in cands:
            direction = self._direction(test, cur)
            if direction is None:
                continue
            ok, bad, unknown = 0, [], []
            for p in paths:
                d = self._delta(p, cur)
                if d is None:
                    unknown.append(p)
                    continue
                lo, hi, exact, shift = d
                if shift:
                    ok += 1
                    continue
                if direction == "up":
                    if lo >= 1:
                        ok += 1
                    elif exact:
                        bad.append((p, f"{cur} advances by [{lo}, {hi}]"))
                    else:
                        unknown.append(p)
                else:
                    if hi <= -1:
                        ok += 1
                    elif exact:
                        bad.append((p, f"{cur} changes by [{lo}, {hi}]"))
                    else:
                        unknown.append(p)
            verdicts.append((cur, direction, ok, bad, unknown))
            if ok == len(paths):
                return LoopVerdict("proved", variant=f"V1{'′' if direction == 'down' else ''} cursor `{cur}` strictly {'increases' if direction == 'up' else 'decreases'} on all {len(paths)} back-edge paths", paths=len(paths))
        # V2 search cursor in `while True`: v = S.find(P, cursor); break when negative; cursor = v + c
        if const_true:
            for cur in sorted(assigned):
                finds = [n for n in ast.walk(ast.Module(body=loop.body, type_ignores=[])) if isinstance(n, ast.Call) and isinstance(n.func, ast.Attribute)
                         and n.func.attr == "find" and len(n.args) >= 2 and isinstance(n.args[1], ast.Name) and n.args[1].id == cur]
                if not finds:
                    continue
                good = 0
                for p in paths:
                    d = self._delta(p, cur)
                    if d is not None and d[0] >= 1:
                        good += 1
                if good == len(paths):
                    return LoopVerdict("proved", variant=f"V2 search cursor `{cur}`: find() from the cursor, leave on a negative result, cursor strictly increases on all {len(paths)} back-edge paths", paths=len(paths))
        # V3 shrinking container
        for name in sorted(test_names):
            if self._all_paths_shrink(paths, name):
                return LoopVerdict("proved", variant=f"V3 container `{name}` shrinks on all {len(paths)} back-edge paths", paths=len(paths))
        # V4 consuming reader in `while True`
        if const_true:
            if all(self._path_consumes(p) for p in paths):
                return LoopVerdict("proved", variant=f"V4 every back-edge path consumes input through a reader that raises at end of data ({len(paths)} paths)", paths=len(paths))
        # definite non-progress?
        for cur, direction, ok, bad, unknown in verdicts:
            if bad and len(cands) == 1:
                p, why = bad[0]
                return LoopVerdict("violation", reason=f"{why} on a back-edge path (loop test `{norm(test)[:60]}` can stay true forever)", paths=len(paths), witness=self.cfg.describe_path([n for n, _ in p]))
        for p in paths:
            if self._definitely_stuck(p, test_names, test_attrs, const_true):
                return LoopVerdict("violation", reason=f"a back-edge path changes nothing the loop test `{norm(test)[:60]}` reads", paths=len(paths), witness=self.cfg.describe_path([n for n, _ in p]))
        why = "; ".join(f"{c}:{d} ok={o}/{len(paths)} unknown={len(u)}" for c, d, o, b, u in verdicts) or "no integer cursor / container variant recognised"
        return LoopVerdict("residual", reason=why, paths=len(paths))

    # -- helpers
    def _direction(self, test, cur):
        for c in self._conjuncts(test):
            if isinstance(c, ast.Compare) and len(c.ops) == 1:
                l, r, op = c.left, c.comparators[0], c.ops[0]
                inl, inr = cur in _names(l), cur in _names(r)
                if inl and not inr:
                    if isinstance(op, (ast.Lt, ast.LtE)):
                        return "up"
                    if isinstance(op, (ast.Gt, ast.GtE)):
                        return "down"
                if inr and not inl:
                    if isinstance(op, (ast.Gt, ast.GtE)):
                        return "up"
                    if isinstance(op, (ast.Lt, ast.LtE)):
                        return "down"
            if isinstance(c, ast.Name) and c.id == cur:
                return "down"
        return None

    @staticmethod
    def _conjuncts(test):
        if isinstance(test, ast.BoolOp) and isinstance(test.op, ast.And):
            out = []
            for v in test.values:
                out.extend(LoopAnalysis._conjuncts(v))
            return out
        return [test]

    def _delta(self, path, cur):
        """(lo, hi, exact, shifted) of new-old for the cursor along the path; None if unknown."""
        iv = Intervals(cur, self.resolver)
        env = {cur: _rel(0, 0)}
        shifted = False
        signed_input: set[str] = set()  # names moved by an integer spelled in the input (may be negative): known, not unknown
        for nid, lab in path:
            nd = self.cfg.nodes[nid]
            st = nd.ast
            if lab == "inner":
                # inner loop summary: variables assigned inside become widened
                self._widen_inner(nd.stmt, env)
                continue
            if nd.kind == "test" and lab in ("true", "false"):
                self._refine(st, lab == "true", env, iv)
                continue
            if nd.kind == "for":
                for x in ast.walk(st.target):
                    if isinstance(x, ast.Name):
                        env[x.id] = TOP
                continue
            if nd.kind != "stmt" or lab == "exc":
                continue
            if isinstance(st, ast.Assign):
                v = iv.ev(st.value, env)
                for t in st.targets:
                    self._bind(t, v, env)
                    if isinstance(t, ast.Name):
                        if {x.id for x in ast.walk(st.value) if isinstance(x, ast.Name)} & signed_input or v == ("abs", -INF, INF, True):
                            signed_input.add(t.id)
                        else:
                            signed_input.discard(t.id)
            elif isinstance(st, ast.AnnAssign) and st.value is not None:
                self._bind(st.target, iv.ev(st.value, env), env)
            elif isinstance(st, ast.AugAssign) and isinstance(st.target, ast.Name):
                old = env.get(st.target.id, TOP)
                v = iv.ev(st.value, env)
                if v == ("abs", -INF, INF, True) and isinstance(st.op, (ast.Add, ast.Sub)):
                    signed_input.add(st.target.id)
                if isinstance(st.op, ast.Add):
                    env[st.target.id] = _add(old, v) if old[0] in ("abs", "rel") and v[0] in ("abs", "rel") else TOP
                elif isinstance(st.op, ast.Sub):
                    env[st.target.id] = _add(old, _neg(v)) if old[0] in ("abs", "rel") and v[0] == "abs" else TOP
                elif isinstance(st.op, ast.RShift) and st.target.id == cur and v[0] == "abs" and v[1] >= 1:
                    shifted = True
                else:
                    env[st.target.id] = TOP
        val = env.get(cur, TOP)
        if cur in signed_input:
            return (-INF, INF, True, False)
        if shifted:
            return (0, 0, True, True)
        if val[0] == "rel":
            return (val[1], val[2], val[3], False)
        return None

    @staticmethod
    def _bind(t, v, env):
        if isinstance(t, ast.Name):
            env[t.id] = v if v[0] in ("abs", "rel", "findrel", "match") else TOP
        elif isinstance(t, (ast.Tuple, ast.List)):
            if v[0] == "tuple" and len(v[1]) == len(t.elts):
                for el, r in zip(t.elts, v[1]):
                    if isinstance(el, ast.Name):
                        env[el.id] = _abs(r[0], r[1], True) if r else TOP
            else:
                for el in t.elts:
                    for x in ast.walk(el):
                        if isinstance(x, ast.Name):
                            env[x.id] = TOP

    def _widen_inner(self, loop_stmt, env):
        for n in ast.walk(ast.Module(body=loop_stmt.body, type_ignores=[])):
            if isinstance(n, ast.AugAssign) and isinstance(n.target, ast.Name):
                old = env.get(n.target.id, TOP)
                if isinstance(n.op, ast.Add) and isinstance(n.value, ast.Constant) and isinstance(n.value.value, int) and n.value.value > 0 and old[0] in ("abs", "rel"):
                    env[n.target.id] = (old[0], old[1], INF, False)
                elif isinstance(n.op, ast.Sub) and isinstance(n.value, ast.Constant) and isinstance(n.value.value, int) and n.value.value > 0 and old[0] in ("abs", "rel"):
                    env[n.target.id] = (old[0], -INF, old[2], False)
                else:
                    env[n.target.id] = TOP
            elif isinstance(n, (ast.Assign, ast.AnnAssign)):
                tg = n.targets if isinstance(n, ast.Assign) else [n.target]
                for t in tg:
                    for x in ast.walk(t):
                        if isinstance(x, ast.Name):
                            env[x.id] = TOP
            elif isinstance(n, ast.For):
                for x in ast.walk(n.target):
                    if isinstance(x, ast.Name):
                        env[x.id] = TOP

    def _refine(self, test, positive, env, iv):
        if isinstance(test, ast.UnaryOp) and isinstance(test.op, ast.Not):
            return self._refine(test.operand, not positive, env, iv)
        if isinstance(test, ast.BoolOp):
            if isinstance(test.op, ast.And) == positive:
                for v in test.values:
                    self._refine(v, positive, env, iv)
            return
        if isinstance(test, ast.Compare) and len(test.ops) == 1 and isinstance(test.left, ast.Name):
            name = test.left.id
            rhs = iv.ev(test.comparators[0], env)
            op = test.ops[0]
            cur = env.get(name, TOP)
            if cur[0] == "findrel":
                # start = s.find(p, off): `start < 0` / `start == -1` false => start >= off
                neg_test = (isinstance(op, ast.Lt) and rhs[:3] == ("abs", 0, 0)) or (isinstance(op, ast.Eq) and rhs[:3] == ("abs", -1, -1))
                pos_test = (isinstance(op, ast.GtE) and rhs[:3] == ("abs", 0, 0)) or (isinstance(op, ast.NotEq) and rhs[:3] == ("abs", -1, -1)) or (isinstance(op, ast.Gt) and rhs[:3] == ("abs", -1, -1))
                if (neg_test and not positive) or (pos_test and positive):
                    env[name] = _rel(cur[1], INF, False)
                return
            if cur[0] != "abs" or rhs[0] != "abs":
                return
            lo, hi = cur[1], cur[2]
            sym = type(op)
            if not positive:
                sym = {ast.Lt: ast.GtE, ast.LtE: ast.Gt, ast.Gt: ast.LtE, ast.GtE: ast.Lt, ast.Eq: ast.NotEq, ast.NotEq: ast.Eq}.get(sym, None)
            if sym is ast.Lt:
                hi = min(hi, rhs[2] - 1)
            elif sym is ast.LtE:
                hi = min(hi, rhs[2])
            elif sym is ast.Gt:
                lo = max(lo, rhs[1] + 1)
            elif sym is ast.GtE:
                lo = max(lo, rhs[1])
            elif sym is ast.Eq:
                lo, hi = max(lo, rhs[1]), min(hi, rhs[2])
            elif sym is ast.NotEq and rhs[1] == rhs[2]:
                if lo == rhs[1]:
                    lo += 1
                if hi == rhs[1]:
                    hi -= 1
            env[name] = ("abs", lo, hi, cur[3])

    def _stmts_on(self, path):
        for nid, lab in path:
            nd = self.cfg.nodes[nid]
            if lab == "inner":
                yield ("inner", nd.stmt)
            elif nd.kind in ("stmt", "test", "iter", "for", "with") and nd.ast is not None:
                yield (nd.kind if lab != "exc" else "exc", nd.ast)

    def _all_paths_shrink(self, paths, name):
        for p in paths:
            shrink = grow = False
            for kind, st in self._stmts_on(p):
                if kind == "exc":
                    continue
                body = [st] if kind != "inner" else st.body
                for root in body:
                    for n in ast.walk(root):
                        if isinstance(n, ast.Call) and isinstance(n.func, ast.Attribute) and isinstance(n.func.value, ast.Name) and n.func.value.id == name:
                            if n.func.attr in MUT_SHRINK:
                                shrink = True
                            if n.func.attr in MUT_GROW:
                                grow = True
                        if isinstance(n, ast.Delete) and any(isinstance(t, ast.Subscript) and isinstance(t.value, ast.Name) and t.value.id == name for t in n.targets):
                            shrink = True
                        if isinstance(n, ast.Assign) and any(isinstance(t, ast.Name) and t.id == name for t in n.targets):
                            v = n.value
                            # merged = merged[:i] + [x] + merged[i+2:]  (two removed, one added) and name = name[1:]
                            txt = norm(v)
                            if isinstance(v, ast.Subscript) and isinstance(v.value, ast.Name) and v.value.id == name and isinstance(v.slice, ast.Slice):
                                shrink = True
                            elif f"{name}[:" in txt and f"+ 2:]" in txt:
                                shrink = True
                            else:
                                grow = True
            if not shrink or grow:
                return False
        return True

    def _path_consumes(self, p):
        consumed = False
        for kind, st in self._stmts_on(p):
            if kind == "exc":
                continue
            roots = st.body if kind == "inner" else [st]
            for root in roots:
                for n in ast.walk(root):
                    if isinstance(n, ast.Call) and isinstance(n.func, ast.Attribute) and n.func.attr == "seek":
                        return False  # repositioning the stream may undo the consumption: not proved
                    if kind != "inner" and isinstance(n, ast.Call) and self.reader_ok(n):
                        consumed = True
        return consumed

    def _definitely_stuck(self, path, test_names, test_attrs, const_true):
        """Nothing the test reads is written / mutated / passed on this path and its branch tests do not read in-path writes."""
        written = set()
        for kind, st in self._stmts_on(path):
            if kind == "inner":
                return False
            roots = [st]
            for root in roots:
                for n in ast.walk(root):
                    if isinstance(n, (ast.Assign, ast.AugAssign, ast.AnnAssign, ast.NamedExpr)) and kind != "exc":
                        tg = n.targets if isinstance(n, ast.Assign) else [n.target]
                        for t in tg:
                            for x in ast.walk(t):
                                if isinstance(x, ast.Name):
                                    if x.id in test_names:
                                        return False
                                    written.add(x.id)
                            d = dotted(t) if isinstance(t, ast.Attribute) else None
                            if d and any(d == a or a.startswith(d + ".") or d.startswith(a + ".") for a in test_attrs):
                                return False
                    if isinstance(n, ast.Call):
                        if kind == "exc":
                            # the raising call itself may have had effects; be conservative unless it is a pure builtin
                            d = dotted(n.func) or ""
                            if d.split(".")[0] not in ("int", "float", "bytes", "str", "len", "struct", "chr", "ord") and not d.endswith(".decode") and d != "bytes.fromhex":
                                return False
                            continue
                        # method call on / argument use of something the test reads
                        recv = n.func.value if isinstance(n.func, ast.Attribute) else None
                        if recv is not None:
                            rn = _names(recv)
                            if rn & test_names or (dotted(recv) or "") in test_attrs:
                                return False
                            if const_true:
                                return False
                        for a in list(n.args) + [k.value for k in n.keywords]:
                            if _names(a) & test_names and not isinstance(a, ast.Constant):
                                # passing an int cursor by value cannot change it; containers can be mutated
                                if any(isinstance(x, ast.Name) and x.id in test_names for x in ast.walk(a)) and isinstance(a, ast.Name):
                                    pass
                        if const_true and isinstance(n.func, ast.Name) and n.func.id not in ("len", "int", "str", "bytes", "isinstance", "min", "max"):
                            return False
                    if isinstance(n, (ast.Yield, ast.YieldFrom, ast.Await)):
                        return False
            if kind == "test":
                if _names(st) & written:
                    return False  # feasibility hinges on an in-iteration flag
        if const_true:
            # `while True` with no call and no write at all on a back-edge path
            return True
        return True
