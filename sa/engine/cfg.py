"""Statement-level control-flow graph with exceptional edges, for one function body.

* one node per simple statement; compound statements contribute a head node
  (``test`` for if/while, ``iter`` + ``for`` for for-loops, ``with`` for with-statements,
  ``dispatch`` for the handler selection of a try);
* ``finally`` bodies (and the implicit exit of ``with``) are *duplicated per continuation kind*
  (normal / raise / return / break / continue), so no spurious path leaves a finally block
  through a continuation it was not entered for;
* every statement for which ``may_raise`` holds gets an exceptional edge to the innermost
  handler dispatch (or finally copy, or the RAISE exit).

Only the statement kinds that occur in the repository are supported; anything else raises
AnalysisError (reported as ANALYSIS-ERROR by the driver, never a silent pass).
"""
from __future__ import annotations

import ast
from dataclasses import dataclass, field

from .loader import AnalysisError, dotted

NONRAISING_CALLS = {
    "logger.debug", "logger.info", "logger.warning", "logger.error", "logger.exception",
    "logging.getLogger", "time.perf_counter", "isinstance", "len",
}


def default_may_raise(stmt: ast.AST) -> bool:
    """Conservative: anything that evaluates a call, subscript, attribute, arithmetic, raise, assert, import."""
    if isinstance(stmt, (ast.Pass, ast.Break, ast.Continue, ast.Global, ast.Nonlocal)):
        return False
    if isinstance(stmt, (ast.FunctionDef, ast.AsyncFunctionDef, ast.ClassDef)):
        return bool(stmt.decorator_list)
    for n in _walk_expr(stmt):
        if isinstance(n, ast.Call):
            d = dotted(n.func)
            if d in NONRAISING_CALLS:
                continue
            return True
        if isinstance(n, (ast.Subscript, ast.Attribute, ast.BinOp, ast.Await, ast.Yield, ast.YieldFrom,
                          ast.Raise, ast.Assert, ast.Import, ast.ImportFrom, ast.Delete, ast.Starred,
                          ast.AugAssign, ast.For, ast.With, ast.UnaryOp)):
            if isinstance(n, ast.UnaryOp) and isinstance(n.op, ast.Not):
                continue
            if isinstance(n, ast.Attribute) and isinstance(n.value, ast.Name) and n.value.id in ("self", "logger", "logging", "time", "os", "io", "sys"):
                continue
            return True
        if isinstance(n, ast.Compare) and any(isinstance(o, (ast.In, ast.NotIn, ast.Lt, ast.Gt, ast.LtE, ast.GtE)) for o in n.ops):
            # comparisons on unknown objects may raise TypeError; keep conservative
            return True
    return False


def _walk_expr(node: ast.AST):
    """Walk a statement's own expressions (no nested function bodies)."""
    stack = [node]
    while stack:
        n = stack.pop()
        yield n
        for c in ast.iter_child_nodes(n):
            if isinstance(c, (ast.FunctionDef, ast.AsyncFunctionDef, ast.Lambda, ast.ClassDef)):
                continue
            stack.append(c)


@dataclass
class Node:
    id: int
    kind: str  # entry exit raise stmt test iter for with with_exit dispatch handler join
    ast: ast.AST | None = None  # the statement (or expression for test/iter)
    stmt: ast.AST | None = None  # enclosing statement
    copy: str = ""  # finally copy kind

    def __repr__(self):
        ln = getattr(self.stmt or self.ast, "lineno", "?")
        return f"<{self.id}:{self.kind}@{ln}{'/' + self.copy if self.copy else ''}>"


@dataclass
class _Ctx:
    exc: object  # callable -> node id
    ret: object
    brk: object = None
    cont: object = None
    copy: str = ""


class CFG:
    def __init__(self, fn: ast.AST, may_raise=default_may_raise):
        self.fn = fn
        self.may_raise = may_raise
        self.nodes: list[Node] = []
        self.succ: dict[int, set[int]] = {}
        self.pred: dict[int, set[int]] = {}
        self.elabel: dict[tuple[int, int], str] = {}
        self.by_ast: dict[int, list[int]] = {}
        self.owner: dict[int, list[int]] = {}  # id(expr/ast) -> node ids that evaluate it
        self.loop_head: dict[int, list[int]] = {}  # id(loop stmt) -> head node ids (one per finally copy)
        self.loop_after: dict[int, list[int]] = {}
        self.loop_body_in: dict[int, list[int]] = {}
        self.entry = self._new("entry")
        self.exit = self._new("exit")
        self.raise_exit = self._new("raise")
        ctx = _Ctx(exc=lambda: self.raise_exit, ret=lambda: self.exit)
        outs = self._seq(fn.body, {self.entry}, ctx)
        for o in outs:
            self._edge(o, self.exit)
        self._dom = None
        self._pdom = None

    # ------------------------------------------------------------ construction
    def _new(self, kind, astn=None, stmt=None, copy="") -> int:
        n = Node(len(self.nodes), kind, astn, stmt if stmt is not None else astn, copy)
        self.nodes.append(n)
        self.succ[n.id] = set()
        self.pred[n.id] = set()
        if astn is not None:
            self.by_ast.setdefault(id(astn), []).append(n.id)
        return n.id

    def _edge(self, a: int, b: int, label: str = "n"):
        self.succ[a].add(b)
        self.pred[b].add(a)
        # keep the most specific label; 'exc' never overrides a normal edge
        old = self.elabel.get((a, b))
        if old is None or (old == "exc" and label != "exc"):
            self.elabel[(a, b)] = label

    def _own(self, nid: int, *exprs):
        for e in exprs:
            if e is None:
                continue
            for sub in _walk_expr(e):
                self.owner.setdefault(id(sub), []).append(nid)

    def _seq(self, stmts, preds: set[int], ctx: _Ctx) -> set[int]:
        cur = set(preds)
        for st in stmts:
            if not cur:
                # unreachable code: still build it (from no predecessor) so that anchors exist
                cur = set()
            cur = self._stmt(st, cur, ctx)
        return cur

    def _connect(self, preds, nid, label="n"):
        for p in preds:
            self._edge(p, nid, label)

    def _stmt(self, st: ast.AST, preds: set[int], ctx: _Ctx) -> set[int]:
        if isinstance(st, ast.If):
            t = self._new("test", st.test, st, ctx.copy)
            self._own(t, st.test)
            self._connect(preds, t)
            if self.may_raise(ast.Expr(st.test)):
                self._edge(t, ctx.exc(), "exc")
            b_in = self._new("join", None, st, ctx.copy)
            self._edge(t, b_in, "true")
            outs = self._seq(st.body, {b_in}, ctx)
            e_in = self._new("join", None, st, ctx.copy)
            self._edge(t, e_in, "false")
            outs |= self._seq(st.orelse, {e_in}, ctx)
            return outs
        if isinstance(st, ast.While):
            t = self._new("test", st.test, st, ctx.copy)
            self._own(t, st.test)
            self._connect(preds, t)
            if self.may_raise(ast.Expr(st.test)):
                self._edge(t, ctx.exc(), "exc")
            after = self._new("join", None, st, ctx.copy)
            lctx = _Ctx(exc=ctx.exc, ret=ctx.ret, brk=lambda: after, cont=lambda: t, copy=ctx.copy)
            b_in = self._new("join", None, st, ctx.copy)
            self.loop_head.setdefault(id(st), []).append(t)
            self.loop_after.setdefault(id(st), []).append(after)
            self.loop_body_in.setdefault(id(st), []).append(b_in)
            self._edge(t, b_in, "true")
            outs = self._seq(st.body, {b_in}, lctx)
            for o in outs:
                self._edge(o, t, "back")
            const_true = isinstance(st.test, ast.Constant) and bool(st.test.value)
            if not const_true:
                e_in = self._new("join", None, st, ctx.copy)
                self._edge(t, e_in, "false")
                eouts = self._seq(st.orelse, {e_in}, ctx)
                self._connect(eouts, after)
            return {after}
        if isinstance(st, (ast.For, ast.AsyncFor)):
            it = self._new("iter", st.iter, st, ctx.copy)
            self._own(it, st.iter)
            self._connect(preds, it)
            if self.may_raise(ast.Expr(st.iter)):
                self._edge(it, ctx.exc(), "exc")
            h = self._new("for", st, st, ctx.copy)
            self._own(h, st.target)
            self._edge(it, h)
            # advancing an arbitrary iterator may raise
            if not isinstance(st.iter, (ast.Name, ast.Tuple, ast.List, ast.Constant)) or True:
                self._edge(h, ctx.exc(), "exc")
            after = self._new("join", None, st, ctx.copy)
            lctx = _Ctx(exc=ctx.exc, ret=ctx.ret, brk=lambda: after, cont=lambda: h, copy=ctx.copy)
            b_in = self._new("join", None, st, ctx.copy)
            self.loop_head.setdefault(id(st), []).append(h)
            self.loop_after.setdefault(id(st), []).append(after)
            self.loop_body_in.setdefault(id(st), []).append(b_in)
            self._edge(h, b_in, "true")
            outs = self._seq(st.body, {b_in}, lctx)
            for o in outs:
                self._edge(o, h, "back")
            e_in = self._new("join", None, st, ctx.copy)
            self._edge(h, e_in, "false")
            eouts = self._seq(st.orelse, {e_in}, ctx)
            self._connect(eouts, after)
            return {after}
        if isinstance(st, (ast.With, ast.AsyncWith)):
            w = self._new("with", st, st, ctx.copy)
            for item in st.items:
                self._own(w, item.context_expr, item.optional_vars)
            self._connect(preds, w)
            self._edge(w, ctx.exc(), "exc")
            inner = self._wrap_finally(st, None, ctx)
            outs = self._seq(st.body, {w}, inner)
            x = self._new("with_exit", st, st, ctx.copy or "normal")
            self._connect(outs, x)
            self._edge(x, ctx.exc(), "exc")
            return {x}
        if isinstance(st, ast.Try) or st.__class__.__name__ == "TryStar":
            return self._try(st, preds, ctx)
        if isinstance(st, ast.Match):
            raise AnalysisError(f"unsupported statement kind 'match' at line {st.lineno}")
        # ---- simple statements
        n = self._new("stmt", st, st, ctx.copy)
        self._own(n, st)
        self._connect(preds, n)
        if isinstance(st, ast.Return):
            if st.value is not None and self.may_raise(st):
                self._edge(n, ctx.exc(), "exc")
            self._edge(n, ctx.ret(), "ret")
            return set()
        if isinstance(st, ast.Raise):
            self._edge(n, ctx.exc(), "exc")
            return set()
        if isinstance(st, ast.Break):
            if ctx.brk is None:
                raise AnalysisError("break outside loop")
            self._edge(n, ctx.brk(), "brk")
            return set()
        if isinstance(st, ast.Continue):
            if ctx.cont is None:
                raise AnalysisError("continue outside loop")
            self._edge(n, ctx.cont(), "cont")
            return set()
        if self.may_raise(st):
            self._edge(n, ctx.exc(), "exc")
        return {n}

    def _wrap_finally(self, st, finalbody, ctx: _Ctx) -> _Ctx:
        """Context for code protected by a finally body (or by a with-exit when finalbody is None)."""
        cache: dict[str, int] = {}

        def make(kind: str, target_thunk):
            def thunk():
                if kind in cache:
                    return cache[kind]
                octx = _Ctx(exc=ctx.exc, ret=ctx.ret, brk=ctx.brk, cont=ctx.cont, copy=kind)
                if finalbody is None:
                    head = self._new("with_exit", st, st, kind)
                    cache[kind] = head
                    self._edge(head, target_thunk(), {"raise": "exc", "return": "ret"}.get(kind, "n"))
                    if kind != "raise":
                        self._edge(head, ctx.exc(), "exc")
                else:
                    head = self._new("join", None, st, kind)
                    cache[kind] = head
                    outs = self._seq(finalbody, {head}, octx)
                    tgt = target_thunk()
                    for o in outs:
                        self._edge(o, tgt, {"raise": "exc", "return": "ret"}.get(kind, "n"))
                return head

            return thunk

        return _Ctx(
            exc=make("raise", ctx.exc),
            ret=make("return", ctx.ret),
            brk=make("break", ctx.brk) if ctx.brk else None,
            cont=make("continue", ctx.cont) if ctx.cont else None,
            copy=ctx.copy,
        )

    @staticmethod
    def handler_catches_all(h: ast.ExceptHandler) -> bool:
        if h.type is None:
            return True
        names = []
        if isinstance(h.type, ast.Tuple):
            names = [dotted(e) for e in h.type.elts]
        else:
            names = [dotted(h.type)]
        return any(n in ("Exception", "BaseException") for n in names)

    def _try(self, st, preds, ctx: _Ctx) -> set[int]:
        fctx = self._wrap_finally(st, st.finalbody, ctx) if st.finalbody else ctx
        if st.handlers:
            disp = self._new("dispatch", st, st, ctx.copy)
            bctx = _Ctx(exc=lambda: disp, ret=fctx.ret, brk=fctx.brk, cont=fctx.cont, copy=ctx.copy)
        else:
            disp = None
            bctx = fctx
        t_in = self._new("join", None, st, ctx.copy)
        self._connect(preds, t_in)
        outs = self._seq(st.body, {t_in}, bctx)
        if st.orelse:
            outs = self._seq(st.orelse, outs, fctx)
        if disp is not None:
            catch_all = False
            for h in st.handlers:
                hn = self._new("handler", h, st, ctx.copy)
                if h.type is not None:
                    self._own(hn, h.type)
                self._edge(disp, hn, "exc")
                outs |= self._seq(h.body, {hn}, fctx)
                if self.handler_catches_all(h):
                    catch_all = True
            # BaseException subclasses (GeneratorExit, KeyboardInterrupt) and uncaught classes propagate
            if not catch_all or self._body_yields(st.body):
                self._edge(disp, fctx.exc(), "exc")
        if st.finalbody:
            head = self._new("join", None, st, "normal")
            self._connect(outs, head)
            nctx = _Ctx(exc=ctx.exc, ret=ctx.ret, brk=ctx.brk, cont=ctx.cont, copy=ctx.copy or "normal")
            return self._seq(st.finalbody, {head}, nctx)
        return outs

    @staticmethod
    def _body_yields(body) -> bool:
        for s in body:
            for n in _walk_expr(s):
                if isinstance(n, (ast.Yield, ast.YieldFrom)):
                    return True
        return False

    # ------------------------------------------------------------ queries
    def nodes_of(self, astn: ast.AST) -> list[int]:
        """CFG nodes for a statement (all finally copies)."""
        return list(self.by_ast.get(id(astn), []))

    def evaluators(self, expr: ast.AST) -> list[int]:
        """CFG nodes that evaluate the given (sub)expression or statement."""
        r = self.owner.get(id(expr))
        if r:
            return list(dict.fromkeys(r))
        return self.nodes_of(expr)

    def reachable(self, start: int | None = None, skip: set[int] | None = None, labels_excluded: set[str] | None = None) -> set[int]:
        start = self.entry if start is None else start
        skip = skip or set()
        seen = set()
        stack = [start]
        while stack:
            n = stack.pop()
            if n in seen or n in skip:
                continue
            seen.add(n)
            for s in self.succ[n]:
                if labels_excluded and self.elabel.get((n, s)) in labels_excluded:
                    continue
                stack.append(s)
        return seen

    def _compute_dom(self, succ, pred, root):
        order = []
        seen = set()
        stack = [(root, iter(sorted(succ[root])))]
        seen.add(root)
        while stack:
            n, it = stack[-1]
            adv = False
            for s in it:
                if s not in seen:
                    seen.add(s)
                    stack.append((s, iter(sorted(succ[s]))))
                    adv = True
                    break
            if not adv:
                order.append(n)
                stack.pop()
        rpo = list(reversed(order))
        idx = {n: i for i, n in enumerate(rpo)}
        idom = {root: root}
        changed = True

        def intersect(a, b):
            while a != b:
                while idx[a] > idx[b]:
                    a = idom[a]
                while idx[b] > idx[a]:
                    b = idom[b]
            return a

        while changed:
            changed = False
            for n in rpo[1:]:
                ps = [p for p in pred[n] if p in idom]
                if not ps:
                    continue
                new = ps[0]
                for p in ps[1:]:
                    new = intersect(new, p)
                if idom.get(n) != new:
                    idom[n] = new
                    changed = True
        return idom

    def idom(self):
        if self._dom is None:
            self._dom = self._compute_dom(self.succ, self.pred, self.entry)
        return self._dom

    def dominates(self, a: int, b: int) -> bool:
        """Every path entry->b passes a (b unreachable => vacuously True)."""
        idom = self.idom()
        if b not in idom:
            return True
        n = b
        while True:
            if n == a:
                return True
            if n == self.entry:
                return False
            n = idom[n]

    def any_dominates(self, a_nodes, b: int) -> bool:
        """Some node of a_nodes dominates b — or, jointly, removing all a_nodes disconnects b from entry."""
        a_nodes = set(a_nodes)
        if b in a_nodes:
            return True
        return b not in self.reachable(self.entry, skip=a_nodes)

    def stmt_dominates(self, a_ast: ast.AST, b_ast: ast.AST) -> bool:
        a = set(self.evaluators(a_ast))
        bs = self.evaluators(b_ast)
        if not a:
            return False
        return all(self.any_dominates(a, b) for b in bs)

    def paths_avoiding(self, target: int, avoid: set[int]) -> list[int] | None:
        """A witness path entry->target that avoids all nodes in `avoid` (None if none exists)."""
        prev = {self.entry: None}
        stack = [self.entry]
        if self.entry in avoid:
            return None
        while stack:
            n = stack.pop()
            if n == target:
                path = []
                while n is not None:
                    path.append(n)
                    n = prev[n]
                return list(reversed(path))
            for s in sorted(self.succ[n]):
                if s in prev or s in avoid:
                    continue
                prev[s] = n
                stack.append(s)
        return None

    def describe_path(self, path: list[int]) -> list[str]:
        out = []
        for n in path:
            nd = self.nodes[n]
            if nd.kind in ("join",):
                continue
            ln = getattr(nd.stmt or nd.ast, "lineno", None)
            out.append(f"{nd.kind}@{ln}")
        return out


# ---------------------------------------------------------------------------------- extra path queries
def _reach(cfg: CFG, starts, removed_nodes=frozenset(), removed_edges=frozenset()):
    seen = set()
    stack = [s for s in starts if s not in removed_nodes]
    while stack:
        n = stack.pop()
        if n in seen:
            continue
        seen.add(n)
        for s in cfg.succ[n]:
            if s in removed_nodes or (n, s) in removed_edges:
                continue
            stack.append(s)
    return seen


def normally_dominates(cfg: CFG, a_nodes, b: int) -> bool:
    """Every path entry->b passes through some a in a_nodes AND leaves it by a non-exceptional edge."""
    a_nodes = set(a_nodes)
    if b in a_nodes:
        return True
    removed = {(a, s) for a in a_nodes for s in cfg.succ[a] if cfg.elabel.get((a, s)) != "exc"}
    # keep exceptional edges out of a: a path using one of them reaches b without a having completed
    return b not in _reach(cfg, [cfg.entry], removed_edges=removed)


def must_pass_after(cfg: CFG, start_nodes, through_nodes, include_raise_exit=True) -> list[int] | None:
    """After any start node completes normally, every path to an exit passes a `through` node.

    Returns None when the obligation holds, else a witness path (list of node ids) from a start node to an exit
    that avoids all `through` nodes.
    """
    through = set(through_nodes)
    targets = {cfg.exit} | ({cfg.raise_exit} if include_raise_exit else set())
    for s in start_nodes:
        firsts = [x for x in cfg.succ[s] if cfg.elabel.get((s, x)) != "exc"]
        prev = {}
        stack = []
        for f in firsts:
            if f not in through:
                prev[f] = s
                stack.append(f)
        while stack:
            n = stack.pop()
            if n in targets:
                path = [n]
                while path[-1] != s:
                    path.append(prev[path[-1]])
                return list(reversed(path))
            for x in cfg.succ[n]:
                if x in prev or x in through or x == s:
                    continue
                prev[x] = n
                stack.append(x)
    return None
