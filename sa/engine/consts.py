"""Constant folding of module-level literals, without executing repository code."""
from __future__ import annotations

import ast

from .loader import Module, Project


class _Unknown:
    def __repr__(self):
        return "UNKNOWN"


UNKNOWN = _Unknown()


class Folder:
    def __init__(self, project: Project):
        self.p = project
        self._cache: dict[tuple[str, str], object] = {}
        self._active: set[tuple[str, str]] = set()

    def const(self, m: Module, name: str):
        key = (m.modname, name)
        if key in self._cache:
            return self._cache[key]
        if key in self._active:
            return UNKNOWN
        self._active.add(key)
        try:
            node = m.assigns.get(name)
            if node is None:
                r = self.p.resolve_import(m, name)
                if r and r[0] == "const":
                    mod, attr = r[1]
                    if (mod.modname, attr) != key:
                        val = self.const(mod, attr)
                    else:
                        val = UNKNOWN
                else:
                    val = UNKNOWN
            else:
                val = self.fold(m, node)
        finally:
            self._active.discard(key)
        self._cache[key] = val
        return val

    def fold(self, m: Module, node: ast.AST, env: dict | None = None):
        env = env or {}
        f = lambda n: self.fold(m, n, env)
        if isinstance(node, ast.Constant):
            return node.value
        if isinstance(node, ast.Name):
            if node.id in env:
                return env[node.id]
            if node.id in ("True", "False", "None"):
                return {"True": True, "False": False, "None": None}[node.id]
            return self.const(m, node.id)
        if isinstance(node, (ast.Tuple, ast.List, ast.Set)):
            vals = []
            for e in node.elts:
                if isinstance(e, ast.Starred):
                    v = f(e.value)
                    if v is UNKNOWN:
                        return UNKNOWN
                    vals.extend(v)
                else:
                    v = f(e)
                    if v is UNKNOWN:
                        return UNKNOWN
                    vals.append(v)
            try:
                if isinstance(node, ast.Tuple):
                    return tuple(vals)
                if isinstance(node, ast.List):
                    return list(vals)
                return set(vals)
            except TypeError:
                return UNKNOWN
        if isinstance(node, ast.Dict):
            out = {}
            for k, v in zip(node.keys, node.values):
                if k is None:
                    vv = f(v)
                    if vv is UNKNOWN or not isinstance(vv, dict):
                        return UNKNOWN
                    out.update(vv)
                    continue
                kk, vv = f(k), f(v)
                if kk is UNKNOWN:
                    return UNKNOWN
                try:
                    out[kk] = vv
                except TypeError:
                    return UNKNOWN
            return out
        if isinstance(node, ast.JoinedStr):
            parts = []
            for v in node.values:
                if isinstance(v, ast.Constant):
                    parts.append(str(v.value))
                elif isinstance(v, ast.FormattedValue):
                    if v.format_spec is not None or v.conversion != -1:
                        return UNKNOWN
                    x = f(v.value)
                    if x is UNKNOWN or not isinstance(x, (str, int)):
                        return UNKNOWN
                    parts.append(str(x))
            return "".join(parts)
        if isinstance(node, ast.UnaryOp) and isinstance(node.op, ast.USub):
            v = f(node.operand)
            return -v if isinstance(v, (int, float)) else UNKNOWN
        if isinstance(node, ast.BinOp):
            a, b = f(node.left), f(node.right)
            if a is UNKNOWN or b is UNKNOWN:
                return UNKNOWN
            try:
                if isinstance(node.op, ast.Add):
                    return a + b
                if isinstance(node.op, ast.Sub):
                    return a - b
                if isinstance(node.op, ast.Mult):
                    if isinstance(a, (int, float)) and isinstance(b, (int, float)):
                        return a * b
                    if isinstance(a, (str, bytes, tuple, list)) and isinstance(b, int) and b < 4096:
                        return a * b
                    return UNKNOWN
                if isinstance(node.op, ast.BitOr):
                    return a | b
                if isinstance(node.op, ast.BitAnd):
                    return a & b
                if isinstance(node.op, ast.LShift) and isinstance(a, int) and isinstance(b, int) and b < 64:
                    return a << b
                if isinstance(node.op, ast.Pow) and isinstance(a, int) and isinstance(b, int) and 0 <= b < 64:
                    return a**b
                if isinstance(node.op, ast.FloorDiv) and b:
                    return a // b
            except Exception:
                return UNKNOWN
            return UNKNOWN
        if isinstance(node, ast.Call):
            fn = node.func
            fname = fn.id if isinstance(fn, ast.Name) else None
            if fname in ("frozenset", "set", "tuple", "list", "dict", "sorted") and not node.keywords:
                if not node.args:
                    return {"frozenset": frozenset(), "set": set(), "tuple": (), "list": [], "dict": {}, "sorted": []}[fname]
                v = f(node.args[0])
                if v is UNKNOWN:
                    return UNKNOWN
                try:
                    if fname == "sorted":
                        return sorted(v)
                    return {"frozenset": frozenset, "set": set, "tuple": tuple, "list": list, "dict": dict}[fname](v)
                except Exception:
                    return UNKNOWN
            if fname in ("bytes", "bytearray") and len(node.args) == 1:
                v = f(node.args[0])
                if isinstance(v, (list, tuple)) and all(isinstance(x, int) and 0 <= x < 256 for x in v):
                    return bytes(v)
                return UNKNOWN
            if isinstance(fn, ast.Attribute) and fn.attr in ("keys", "values", "items") and not node.args:
                v = f(fn.value)
                if isinstance(v, dict):
                    return list(getattr(v, fn.attr)())
                return UNKNOWN
            if isinstance(fn, ast.Attribute) and fn.attr in ("union",) and len(node.args) >= 1:
                v = f(fn.value)
                if isinstance(v, (set, frozenset)):
                    out = set(v)
                    for a in node.args:
                        av = f(a)
                        if av is UNKNOWN:
                            return UNKNOWN
                        out |= set(av)
                    return out
            if fname in ("chr", "ord") and len(node.args) == 1 and not node.keywords:
                v = f(node.args[0])
                try:
                    return chr(v) if fname == "chr" and isinstance(v, int) else ord(v) if fname == "ord" and isinstance(v, str) and len(v) == 1 else UNKNOWN
                except (ValueError, TypeError):
                    return UNKNOWN
            if isinstance(fn, ast.Attribute) and fn.attr == "join" and len(node.args) == 1 and not node.keywords:
                sep, parts = f(fn.value), f(node.args[0])
                if isinstance(sep, (str, bytes)) and isinstance(parts, (list, tuple)) and all(isinstance(x, type(sep)) for x in parts):
                    return sep.join(parts)
                return UNKNOWN
            if fname == "range" and 1 <= len(node.args) <= 3:
                vs = [f(a) for a in node.args]
                if all(isinstance(x, int) for x in vs) and abs(vs[-1 if len(vs) == 1 else 1]) <= 100000:
                    return list(range(*vs))
            return UNKNOWN
        if isinstance(node, (ast.SetComp, ast.ListComp, ast.GeneratorExp)) and len(node.generators) == 1:
            g = node.generators[0]
            it = f(g.iter)
            if it is UNKNOWN:
                return UNKNOWN
            out = []
            try:
                for item in it:
                    e2 = dict(env)
                    if not self._bind(g.target, item, e2):
                        return UNKNOWN
                    ok = True
                    for cond in g.ifs:
                        c = self.fold(m, cond, e2)
                        if c is UNKNOWN:
                            return UNKNOWN
                        if not c:
                            ok = False
                    if ok:
                        v = self.fold(m, node.elt, e2)
                        if v is UNKNOWN:
                            return UNKNOWN
                        out.append(v)
            except TypeError:
                return UNKNOWN
            return set(out) if isinstance(node, ast.SetComp) else out
        if isinstance(node, ast.DictComp) and len(node.generators) == 1:
            g = node.generators[0]
            it = f(g.iter)
            if it is UNKNOWN:
                return UNKNOWN
            out = {}
            for item in it:
                e2 = dict(env)
                if not self._bind(g.target, item, e2):
                    return UNKNOWN
                if any(self.fold(m, c, e2) is UNKNOWN for c in g.ifs):
                    return UNKNOWN
                if all(self.fold(m, c, e2) for c in g.ifs):
                    k, v = self.fold(m, node.key, e2), self.fold(m, node.value, e2)
                    if k is UNKNOWN:
                        return UNKNOWN
                    out[k] = v
            return out
        if isinstance(node, ast.Subscript):
            v = f(node.value)
            if v is UNKNOWN:
                return UNKNOWN
            if isinstance(node.slice, ast.Slice):
                lo = f(node.slice.lower) if node.slice.lower else None
                hi = f(node.slice.upper) if node.slice.upper else None
                if lo is UNKNOWN or hi is UNKNOWN or node.slice.step is not None:
                    return UNKNOWN
                try:
                    return v[lo:hi]
                except Exception:
                    return UNKNOWN
            k = f(node.slice)
            if k is UNKNOWN:
                return UNKNOWN
            try:
                return v[k]
            except Exception:
                return UNKNOWN
        if isinstance(node, ast.Attribute):
            # module.CONST
            if isinstance(node.value, ast.Name):
                r = self.p.resolve_import(m, node.value.id)
                if r and r[0] == "module":
                    return self.const(r[1], node.attr)
            return UNKNOWN
        if isinstance(node, ast.Compare) and len(node.ops) == 1:
            a, b = f(node.left), f(node.comparators[0])
            if a is UNKNOWN or b is UNKNOWN:
                return UNKNOWN
            op = node.ops[0]
            try:
                if isinstance(op, ast.Eq):
                    return a == b
                if isinstance(op, ast.NotEq):
                    return a != b
                if isinstance(op, ast.In):
                    return a in b
                if isinstance(op, ast.NotIn):
                    return a not in b
                if isinstance(op, ast.Lt):
                    return a < b
                if isinstance(op, ast.Gt):
                    return a > b
                if isinstance(op, ast.LtE):
                    return a <= b
                if isinstance(op, ast.GtE):
                    return a >= b
            except Exception:
                return UNKNOWN
        if isinstance(node, ast.IfExp):
            t = f(node.test)
            if t is UNKNOWN:
                return UNKNOWN
            return f(node.body if t else node.orelse)
        return UNKNOWN

    @staticmethod
    def _bind(target, item, env) -> bool:
        if isinstance(target, ast.Name):
            env[target.id] = item
            return True
        if isinstance(target, (ast.Tuple, ast.List)):
            try:
                items = list(item)
            except TypeError:
                return False
            if len(items) != len(target.elts):
                return False
            return all(Folder._bind(t, i, env) for t, i in zip(target.elts, items))
        return False
