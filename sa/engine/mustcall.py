"""Interprocedural must-pass-through: 'every path to T first completes a guard G (possibly inside a callee)'."""
from __future__ import annotations

import ast

from .callgraph import calls_in, resolve_call
from .cfg import normally_dominates
from .context import Ctx
from .loader import FuncInfo, dotted, norm, walk_own


class MustPass:
    def __init__(self, ctx: Ctx, is_guard):
        """is_guard(fi, if_stmt) -> bool : the If is a guard (test + raising body) of the wanted kind."""
        self.ctx = ctx
        self.is_guard = is_guard
        self._memo: dict[str, bool] = {}

    def anchors(self, fi: FuncInfo, depth: int = 0) -> list[int]:
        """CFG nodes of fi whose normal completion implies the guard was evaluated (and did not fire)."""
        cfg = self.ctx.cfg(fi)
        out = []
        for n in walk_own(fi.node):
            if isinstance(n, ast.If) and self.is_guard(fi, n):
                out.extend(cfg.evaluators(n.test))
        if depth <= 3:
            for c in calls_in(fi):
                t = resolve_call(self.ctx.p, fi, c)
                callees = list(t.funcs)
                if t.klass is not None:
                    for name in ("__init__", "__enter__"):
                        m = self.ctx.p.find_method(t.klass, name)
                        if m is not None:
                            callees.append(m)
                if any(self.completes_with_guard(g, depth + 1) for g in callees if g is not fi):
                    out.extend(cfg.evaluators(c))
        return list(dict.fromkeys(out))

    def completes_with_guard(self, g: FuncInfo, depth: int = 0) -> bool:
        if g.key in self._memo:
            return self._memo[g.key]
        self._memo[g.key] = False
        if depth > 4:
            return False
        cfg = self.ctx.cfg(g)
        anchors = self.anchors(g, depth)
        if not anchors:
            return False
        ok = True
        exits = [p for p in cfg.pred[cfg.exit]]
        for e in exits:
            nd = cfg.nodes[e]
            if normally_dominates(cfg, anchors, e):
                continue
            # cache idiom: `if self.X is not None: return self.X` where every store of self.X is dominated by the guard
            st = nd.ast
            if isinstance(st, ast.Return) and isinstance(st.value, ast.Attribute) and isinstance(st.value.value, ast.Name) and st.value.value.id == "self":
                attr = st.value.attr
                stores = [n for n in walk_own(g.node) if isinstance(n, (ast.Assign, ast.AnnAssign)) and any(
                    isinstance(t, ast.Attribute) and isinstance(t.value, ast.Name) and t.value.id == "self" and t.attr == attr
                    for t in (n.targets if isinstance(n, ast.Assign) else [n.target]))]
                if stores and all(all(normally_dominates(cfg, anchors, b) for b in cfg.evaluators(s)) for s in stores):
                    continue
            ok = False
            break
        self._memo[g.key] = ok
        return ok

    def dominated(self, fi: FuncInfo, target: ast.AST) -> bool:
        cfg = self.ctx.cfg(fi)
        anchors = self.anchors(fi)
        if not anchors:
            return False
        return all(normally_dominates(cfg, anchors, b) for b in cfg.evaluators(target))
