"""Dereference sites of MaybeNone values inside one statement/expression (expression-level refinement included)."""
from __future__ import annotations

import ast

from .nullness import M, N, Nullness


def deref_sites(nl: Nullness, root: ast.AST, env: dict, strict_args=None):
    """Yield (expr, kind, culprit_text) for every use of a MaybeNone value that raises or renders 'None'.

    strict_args(call) -> list of argument indexes / keyword names whose parameter does not accept None.
    """
    out = []

    def walk(e, env):
        if e is None or isinstance(e, (ast.FunctionDef, ast.AsyncFunctionDef, ast.Lambda, ast.ClassDef)):
            return
        if isinstance(e, ast.IfExp):
            walk(e.test, env)
            walk(e.body, nl.refine(e.test, True, dict(env)))
            walk(e.orelse, nl.refine(e.test, False, dict(env)))
            return
        if isinstance(e, ast.BoolOp):
            cur = dict(env)
            for v in e.values:
                walk(v, cur)
                cur = nl.refine(v, isinstance(e.op, ast.And), dict(cur))
            return
        if isinstance(e, ast.Attribute):
            if nl.expr(e.value, env) == M:
                out.append((e, "attribute access on a value that may be None", ast.unparse(e.value)))
            walk(e.value, env)
            return
        if isinstance(e, ast.Subscript):
            if isinstance(e.ctx, ast.Load) and nl.expr(e.value, env) == M:
                out.append((e, "subscript of a value that may be None", ast.unparse(e.value)))
            walk(e.value, env)
            walk(e.slice, env)
            return
        if isinstance(e, ast.JoinedStr):
            for v in e.values:
                if isinstance(v, ast.FormattedValue):
                    if nl.expr(v.value, env) == M:
                        out.append((v.value, "a value that may be None is formatted into text (renders 'None')", ast.unparse(v.value)))
                    walk(v.value, env)
            return
        if isinstance(e, ast.BinOp):
            if isinstance(e.op, (ast.Add, ast.Mod, ast.Mult)):
                for side in (e.left, e.right):
                    if nl.expr(side, env) == M:
                        out.append((side, "arithmetic / concatenation with a value that may be None", ast.unparse(side)))
            walk(e.left, env)
            walk(e.right, env)
            return
        if isinstance(e, ast.Compare):
            for op, c in zip(e.ops, e.comparators):
                if isinstance(op, (ast.In, ast.NotIn)) and nl.expr(c, env) == M:
                    out.append((c, "membership test in a value that may be None", ast.unparse(c)))
                if isinstance(op, (ast.Lt, ast.Gt, ast.LtE, ast.GtE)) and (nl.expr(c, env) == M or nl.expr(e.left, env) == M):
                    out.append((c, "ordering comparison with a value that may be None", ast.unparse(c)))
            walk(e.left, env)
            for c in e.comparators:
                walk(c, env)
            return
        if isinstance(e, (ast.ListComp, ast.SetComp, ast.GeneratorExp, ast.DictComp)):
            cur = dict(env)
            for g in e.generators:
                if nl.expr(g.iter, cur) == M:
                    out.append((g.iter, "iteration over a value that may be None", ast.unparse(g.iter)))
                walk(g.iter, cur)
                for n in ast.walk(g.target):
                    if isinstance(n, ast.Name):
                        cur[n.id] = N
                for c in g.ifs:
                    walk(c, cur)
                    cur = nl.refine(c, True, dict(cur))
            if isinstance(e, ast.DictComp):
                walk(e.key, cur)
                walk(e.value, cur)
            else:
                walk(e.elt, cur)
            return
        if isinstance(e, ast.Call):
            if strict_args is not None:
                for idx in strict_args(e) or []:
                    arg = None
                    if isinstance(idx, int) and idx < len(e.args):
                        arg = e.args[idx]
                    elif isinstance(idx, str):
                        for k in e.keywords:
                            if k.arg == idx:
                                arg = k.value
                    if arg is not None and nl.expr(arg, env) == M:
                        out.append((arg, "a value that may be None is passed where the callee requires a non-None value", ast.unparse(arg)))
            walk(e.func, env)
            for a in e.args:
                walk(a.value if isinstance(a, ast.Starred) else a, env)
            for k in e.keywords:
                walk(k.value, env)
            return
        for c in ast.iter_child_nodes(e):
            if isinstance(c, (ast.expr,)):
                walk(c, env)

    if isinstance(root, ast.For):
        if nl.expr(root.iter, env) == M:
            out.append((root.iter, "iteration over a value that may be None", ast.unparse(root.iter)))
        walk(root.iter, env)
    elif isinstance(root, ast.stmt):
        for c in ast.iter_child_nodes(root):
            if isinstance(c, ast.expr):
                walk(c, env)
    else:
        walk(root, env)
    return out
