"""Exact abstract evaluation of *table-driven decision procedures*.

Used where a function's result depends on its input only through a small, closed set of
operations (``lower``, ``endswith`` over a folded table, ``os.path.splitext``, ``dict.get``,
membership, boolean connectives).  For such a function the partition of the input space induced by
the folded tables is a finite, exact abstraction: one representative per cell decides the cell.
The evaluator walks the function's AST over that representative and *refuses* (AnalysisError)
any construct outside the whitelisted subset, so the exactness argument cannot silently rot.
No repository code is imported or executed.
"""
from __future__ import annotations

import ast
import pathlib
import posixpath

from .consts import UNKNOWN, Folder
from .loader import AnalysisError, FuncInfo, Module, Project, dotted, norm


class Raised(Exception):
    def __init__(self, cls: str):
        self.cls = cls


class _Break(Exception):
    pass


class _Continue(Exception):
    pass


class _Return(Exception):
    def __init__(self, value):
        self.value = value


class ExtractorToken(tuple):
    """('extractor', module, function) — the value `_get_extractor` hands out."""


class Evaluator:
    # pure, total methods of concrete strings (the router's paths are concrete representatives of suffix classes)
    STR_METHODS = {"lower", "upper", "casefold", "endswith", "startswith", "strip", "lstrip", "rstrip", "split", "rsplit", "partition",
                   "rpartition", "replace", "removesuffix", "removeprefix", "find", "rfind", "count", "splitlines", "isalpha", "isdigit",
                   "isalnum", "title", "capitalize"}

    def __init__(self, project: Project, folder: Folder, externals: dict | None = None, max_steps: int = 20000):
        self.p = project
        self.folder = folder
        self.externals = externals or {}  # dotted call name -> python callable(model)
        self.steps = 0
        self.max_steps = max_steps
        self.trace: list[str] = []

    # -------------------------------------------------------------- calls
    def call(self, fi: FuncInfo, args: list, kwargs: dict | None = None):
        kwargs = kwargs or {}
        a = fi.node.args
        if a.vararg or a.kwarg or a.kwonlyargs or a.posonlyargs:
            raise AnalysisError(f"absinterp: unsupported signature in {fi.key}")
        names = [x.arg for x in a.args]
        env = {}
        defaults = a.defaults
        for i, n in enumerate(names):
            if i < len(args):
                env[n] = args[i]
            elif n in kwargs:
                env[n] = kwargs[n]
            else:
                di = i - (len(names) - len(defaults))
                if di < 0:
                    raise AnalysisError(f"absinterp: missing argument {n} for {fi.key}")
                env[n] = self.expr(fi.module, defaults[di], {})
        try:
            self.block(fi.module, fi.node.body, env)
        except _Return as r:
            return r.value
        return None

    # -------------------------------------------------------------- statements
    def block(self, m: Module, stmts, env):
        for st in stmts:
            self.stmt(m, st, env)

    def stmt(self, m: Module, st, env):
        self.steps += 1
        if self.steps > self.max_steps:
            raise AnalysisError("absinterp: step budget exceeded")
        if isinstance(st, ast.Expr):
            if isinstance(st.value, ast.Constant):
                return  # docstring
            if isinstance(st.value, ast.Call):
                d = dotted(st.value.func) or ""
                if d.startswith("logger.") or d.startswith("logging."):
                    return
            self.expr(m, st.value, env)
            return
        if isinstance(st, ast.Assign):
            v = self.expr(m, st.value, env)
            for t in st.targets:
                self.bind(t, v, env)
            return
        if isinstance(st, ast.AnnAssign):
            if st.value is not None:
                self.bind(st.target, self.expr(m, st.value, env), env)
            return
        if isinstance(st, ast.Return):
            raise _Return(self.expr(m, st.value, env) if st.value is not None else None)
        if isinstance(st, ast.Raise):
            exc = st.exc
            if isinstance(exc, ast.Call):
                exc = exc.func
            raise Raised(dotted(exc) or norm(st))
        if isinstance(st, ast.If):
            if self.truth(self.expr(m, st.test, env)):
                self.block(m, st.body, env)
            else:
                self.block(m, st.orelse, env)
            return
        if isinstance(st, ast.For):
            it = self.expr(m, st.iter, env)
            if isinstance(it, dict):
                it = list(it.keys())
            if not isinstance(it, (list, tuple, set, frozenset)):
                raise AnalysisError(f"absinterp: iteration over non-table value: {norm(st.iter)}")
            if isinstance(it, (set, frozenset)):
                it = sorted(it)
            broke = False
            for item in it:
                self.bind(st.target, item, env)
                try:
                    self.block(m, st.body, env)
                except _Continue:
                    continue
                except _Break:
                    broke = True
                    break
            if not broke:
                self.block(m, st.orelse, env)
            return
        if isinstance(st, ast.Break):
            raise _Break()
        if isinstance(st, ast.Continue):
            raise _Continue()
        if isinstance(st, (ast.Import, ast.ImportFrom)):
            for a in st.names:
                env[a.asname or a.name.split(".")[0]] = ("module", a.name)
            return
        if isinstance(st, ast.Pass):
            return
        raise AnalysisError(f"absinterp: statement outside the decidable subset: {norm(st)[:120]}")

    def bind(self, target, value, env):
        if isinstance(target, ast.Name):
            env[target.id] = value
            return
        if isinstance(target, (ast.Tuple, ast.List)):
            vals = list(value)
            if len(vals) != len(target.elts):
                raise AnalysisError("absinterp: unpack arity")
            for t, v in zip(target.elts, vals):
                self.bind(t, v, env)
            return
        raise AnalysisError(f"absinterp: unsupported assignment target {norm(target)}")

    @staticmethod
    def truth(v) -> bool:
        if v is UNKNOWN:
            raise AnalysisError("absinterp: branch on unknown value")
        return bool(v)

    # -------------------------------------------------------------- expressions
    def expr(self, m: Module, e, env):
        if isinstance(e, ast.Constant):
            return e.value
        if isinstance(e, ast.Name):
            if e.id in env:
                return env[e.id]
            v = self.folder.const(m, e.id)
            if v is UNKNOWN:
                r = self.p.resolve_import(m, e.id)
                if r and r[0] == "func":
                    return ("func", r[1])
                if r and r[0] in ("module", "external"):
                    return ("module", e.id)
                raise AnalysisError(f"absinterp: unknown name {e.id} in {m.rel}")
            return v
        if isinstance(e, ast.JoinedStr):
            out = []
            for v in e.values:
                if isinstance(v, ast.Constant):
                    out.append(str(v.value))
                else:
                    out.append(str(self.expr(m, v.value, env)))
            return "".join(out)
        if isinstance(e, ast.BoolOp):
            val = None
            for i, sub in enumerate(e.values):
                val = self.expr(m, sub, env)
                if isinstance(e.op, ast.And) and not self.truth(val):
                    return val
                if isinstance(e.op, ast.Or) and self.truth(val):
                    return val
            return val
        if isinstance(e, ast.UnaryOp) and isinstance(e.op, ast.Not):
            return not self.truth(self.expr(m, e.operand, env))
        if isinstance(e, ast.UnaryOp) and isinstance(e.op, ast.USub):
            v = self.expr(m, e.operand, env)
            if isinstance(v, (int, float)) and not isinstance(v, bool):
                return -v
            raise AnalysisError(f"absinterp: negation of non-number: {norm(e)}")
        if isinstance(e, ast.BinOp):
            a, b = self.expr(m, e.left, env), self.expr(m, e.right, env)
            num = lambda x: isinstance(x, (int, float)) and not isinstance(x, bool)
            seq = lambda x: isinstance(x, (str, bytes, list, tuple))
            try:
                if isinstance(e.op, ast.Add) and ((num(a) and num(b)) or (seq(a) and type(a) is type(b))):
                    return a + b
                if isinstance(e.op, ast.Sub) and num(a) and num(b):
                    return a - b
                if isinstance(e.op, ast.Mult) and ((num(a) and num(b)) or (seq(a) and isinstance(b, int) and -1 <= b <= 4096) or (seq(b) and isinstance(a, int) and -1 <= a <= 4096)):
                    return a * b
                if isinstance(e.op, ast.Mod) and num(a) and num(b):
                    return a % b
                if isinstance(e.op, ast.FloorDiv) and num(a) and num(b):
                    return a // b
            except ZeroDivisionError:
                raise Raised("ZeroDivisionError")
            raise AnalysisError(f"absinterp: arithmetic outside the decidable subset: {norm(e)[:100]}")
        if isinstance(e, (ast.List, ast.Set)):
            vals = [self.expr(m, x, env) for x in e.elts]
            return vals if isinstance(e, ast.List) else set(vals)
        if isinstance(e, ast.IfExp):
            return self.expr(m, e.body if self.truth(self.expr(m, e.test, env)) else e.orelse, env)
        if isinstance(e, ast.Compare):
            left = self.expr(m, e.left, env)
            for op, right_e in zip(e.ops, e.comparators):
                right = self.expr(m, right_e, env)
                if isinstance(op, ast.In):
                    r = left in right
                elif isinstance(op, ast.NotIn):
                    r = left not in right
                elif isinstance(op, ast.Is):
                    r = left is right
                elif isinstance(op, ast.IsNot):
                    r = left is not right
                elif isinstance(op, ast.Eq):
                    r = left == right
                elif isinstance(op, ast.NotEq):
                    r = left != right
                elif isinstance(op, (ast.Lt, ast.LtE, ast.Gt, ast.GtE)) and type(left) in (int, float, str, bytes) and type(right) in (int, float, str, bytes):
                    try:
                        r = {ast.Lt: left < right, ast.LtE: left <= right, ast.Gt: left > right, ast.GtE: left >= right}[type(op)]
                    except TypeError:
                        raise Raised("TypeError")
                else:
                    raise AnalysisError(f"absinterp: comparison outside subset: {norm(e)}")
                if not r:
                    return False
                left = right
            return True
        if isinstance(e, ast.Subscript):
            v = self.expr(m, e.value, env)
            if isinstance(e.slice, ast.Slice):
                lo = self.expr(m, e.slice.lower, env) if e.slice.lower else None
                hi = self.expr(m, e.slice.upper, env) if e.slice.upper else None
                if e.slice.step is not None:
                    raise AnalysisError("absinterp: slice step")
                return v[lo:hi]
            k = self.expr(m, e.slice, env)
            try:
                return v[k]
            except (KeyError, IndexError):
                raise Raised("KeyError/IndexError")
        if isinstance(e, (ast.GeneratorExp, ast.ListComp)) and len(e.generators) == 1 and not e.generators[0].is_async:
            g = e.generators[0]
            it = self.expr(m, g.iter, env)
            if isinstance(it, dict):
                it = list(it.keys())
            if isinstance(it, (set, frozenset)):
                it = sorted(it)
            if not isinstance(it, (list, tuple, str)):
                raise AnalysisError(f"absinterp: comprehension over non-table value: {norm(g.iter)}")
            out = []
            inner = dict(env)
            for item in it:
                self.bind(g.target, item, inner)
                if all(self.truth(self.expr(m, c, inner)) for c in g.ifs):
                    out.append(self.expr(m, e.elt, inner))
            return out
        if isinstance(e, ast.Tuple):
            return tuple(self.expr(m, x, env) for x in e.elts)
        if isinstance(e, ast.Call):
            return self.callexpr(m, e, env)
        if isinstance(e, ast.Attribute):
            d = dotted(e)
            if d in ("os.sep", "os.path.sep", "posixpath.sep"):
                return getattr(self, "sep", "/")  # the path algebra is modelled by posixpath unless the caller sets another separator
            if d is None and e.attr in ("suffix", "name", "stem", "suffixes", "parent"):
                v = self.expr(m, e.value, env)
                if isinstance(v, pathlib.PurePosixPath):
                    r = getattr(v, e.attr)
                    return list(r) if e.attr == "suffixes" else r
            raise AnalysisError(f"absinterp: attribute value outside subset: {d or norm(e)}")
        raise AnalysisError(f"absinterp: expression outside the decidable subset: {norm(e)[:120]}")

    def callexpr(self, m: Module, e: ast.Call, env):
        d = dotted(e.func)
        args = [self.expr(m, a, env) for a in e.args]
        kwargs = {k.arg: self.expr(m, k.value, env) for k in e.keywords}
        if d in self.externals:
            return self.externals[d](*args, **kwargs)
        if d == "os.path.splitext" and len(args) == 1 and isinstance(args[0], str):
            return posixpath.splitext(args[0])
        if d in ("Path", "PurePath", "PurePosixPath", "pathlib.Path", "pathlib.PurePath", "pathlib.PurePosixPath") and len(args) == 1 and isinstance(args[0], str):
            # pure path algebra, modelled by PurePosixPath (as os.path.splitext is by posixpath)
            return pathlib.PurePosixPath(args[0])
        if d in ("tuple", "list", "sorted", "set", "frozenset") and len(args) == 1 and isinstance(args[0], (list, tuple, set, frozenset, dict, str)) and not kwargs:
            seq = list(args[0]) if not isinstance(args[0], (set, frozenset)) else sorted(args[0])
            return {"tuple": tuple, "list": list, "sorted": sorted, "set": set, "frozenset": frozenset}[d](seq)
        if d in ("any", "all") and len(args) == 1 and isinstance(args[0], (list, tuple)):
            return (any if d == "any" else all)(self.truth(x) for x in args[0])
        if d == "bool" and len(args) == 1:
            return self.truth(args[0])
        if d == "str" and len(args) == 1 and isinstance(args[0], str):
            return args[0]
        if d == "len" and len(args) == 1 and isinstance(args[0], (str, bytes, list, tuple, dict, set, frozenset)):
            return len(args[0])
        if d == "bytes" and len(args) == 1 and isinstance(args[0], (list, tuple, bytes)):
            try:
                return bytes(args[0])
            except (ValueError, TypeError):
                raise Raised("ValueError")
        if d == "int" and len(args) == 1 and isinstance(args[0], (int, bool)):
            return int(args[0])
        if d == "importlib.import_module" and len(args) == 1:
            return ("imported-module", args[0])
        if d == "getattr" and len(args) == 2 and isinstance(args[0], tuple) and args[0][0] == "imported-module":
            return ExtractorToken(("extractor", args[0][1], args[1]))
        if isinstance(e.func, ast.Name):
            v = env.get(e.func.id)
            if v is None:
                r = self.p.resolve_import(m, e.func.id)
                if r and r[0] == "func":
                    return self.call(r[1], args, kwargs)
            elif isinstance(v, tuple) and v and v[0] == "func":
                return self.call(v[1], args, kwargs)
        if isinstance(e.func, ast.Attribute):
            recv = self.expr(m, e.func.value, env)
            meth = e.func.attr
            if isinstance(recv, str) and meth in self.STR_METHODS:
                return getattr(recv, meth)(*args)
            if isinstance(recv, bytes) and meth in self.STR_METHODS and all(isinstance(a, (bytes, int, tuple)) for a in args):
                return getattr(recv, meth)(*args)
            if isinstance(recv, dict) and meth in ("get", "keys", "items", "values"):
                r = getattr(recv, meth)(*args)
                return list(r) if meth != "get" else r
        raise AnalysisError(f"absinterp: call outside the decidable subset: {norm(e)[:120]}")
