"""Abstract interpretation of small event-handler methods over (tracked self attributes x concrete event args).

Values are Python constants or UNK.  Conditions are three-valued; an UNK condition forks.  Every write to
``self`` state (attribute store, augmented store, subscript store, mutating method call on something reached from
``self``) is recorded as a *mutation* so that rules can ask "can this callback write anything in this state?".
Nothing of the repository is executed; the interpreter walks the AST.
"""
from __future__ import annotations

import ast
from dataclasses import dataclass, field

from .consts import UNKNOWN, Folder
from .loader import AnalysisError, ClassInfo, FuncInfo, Module, Project, dotted, norm


class _Unk:
    def __repr__(self):
        return "UNK"


UNK = _Unk()

MUTATORS = {"append", "extend", "insert", "pop", "remove", "clear", "sort", "reverse", "update", "setdefault", "add",
            "discard", "write", "truncate", "appendleft", "popleft", "__setitem__"}


@dataclass
class Outcome:
    state: dict
    mutations: list[str] = field(default_factory=list)
    returned: object = None


class _Ret(Exception):
    pass


class ObjInterp:
    def __init__(self, project: Project, folder: Folder, cls: ClassInfo, max_paths: int = 4096):
        self.p = project
        self.folder = folder
        self.cls = cls
        self.max_paths = max_paths

    # ---------------------------------------------------------------- API
    def run(self, method: str, state: dict, args: dict) -> list[Outcome]:
        fi = self.p.find_method(self.cls, method)
        if fi is None:
            raise AnalysisError(f"objinterp: method {method} not found on {self.cls.name}")
        outs = self._call(fi, dict(state), args, depth=0)
        return outs

    def has_method(self, method: str) -> bool:
        return self.p.find_method(self.cls, method) is not None

    # ---------------------------------------------------------------- internals
    def _call(self, fi: FuncInfo, state: dict, args: dict, depth: int) -> list[Outcome]:
        if depth > 6:
            raise AnalysisError("objinterp: recursion too deep")
        env = dict(args)
        paths = [(env, state, [], False, None)]  # (env, state, mutations, returned?, retval)
        paths = self._block(fi.module, fi.node.body, paths, depth)
        return [Outcome(st, muts, rv) for (_e, st, muts, _r, rv) in paths]

    def _block(self, m: Module, stmts, paths, depth):
        for st in stmts:
            new = []
            for pth in paths:
                if pth[3]:
                    new.append(pth)
                else:
                    new.extend(self._stmt(m, st, pth, depth))
            paths = new
            if len(paths) > self.max_paths:
                raise AnalysisError("objinterp: path budget exceeded")
        return paths

    def _stmt(self, m: Module, st, pth, depth):
        env, state, muts, _r, _rv = pth
        if isinstance(st, ast.Expr):
            if isinstance(st.value, ast.Constant):
                return [pth]
            return self._expr_paths(m, st.value, pth, depth)
        if isinstance(st, ast.Pass):
            return [pth]
        if isinstance(st, ast.Return):
            outs = []
            if st.value is None:
                return [(env, state, muts, True, None)]
            for (e2, s2, m2, _a, _b), v in self._eval_paths(m, st.value, pth, depth):
                outs.append((e2, s2, m2, True, v))
            return outs
        if isinstance(st, (ast.Assign, ast.AnnAssign)):
            if isinstance(st, ast.AnnAssign) and st.value is None:
                return [pth]
            targets = st.targets if isinstance(st, ast.Assign) else [st.target]
            outs = []
            for p2, v in self._eval_paths(m, st.value, pth, depth):
                e2, s2, m2 = dict(p2[0]), dict(p2[1]), list(p2[2])
                for t in targets:
                    self._store(t, v, e2, s2, m2)
                outs.append((e2, s2, m2, False, None))
            return outs
        if isinstance(st, ast.AugAssign):
            outs = []
            for p2, v in self._eval_paths(m, st.value, pth, depth):
                e2, s2, m2 = dict(p2[0]), dict(p2[1]), list(p2[2])
                cur = self._load(m, st.target, e2, s2)
                new = UNK
                if cur is not UNK and v is not UNK:
                    try:
                        if isinstance(st.op, ast.Add):
                            new = cur + v
                        elif isinstance(st.op, ast.Sub):
                            new = cur - v
                    except Exception:
                        new = UNK
                self._store(st.target, new, e2, s2, m2)
                outs.append((e2, s2, m2, False, None))
            return outs
        if isinstance(st, ast.If):
            outs = []
            for p2, v in self._eval_paths(m, st.test, pth, depth):
                if v is UNK:
                    outs.extend(self._block(m, st.body, [self._copy(p2)], depth))
                    outs.extend(self._block(m, st.orelse, [self._copy(p2)], depth))
                elif v:
                    outs.extend(self._block(m, st.body, [p2], depth))
                else:
                    outs.extend(self._block(m, st.orelse, [p2], depth))
            return outs
        if isinstance(st, (ast.For, ast.While)):
            # zero or one abstract iteration with unknown element; state written inside becomes UNK-ish via _store
            outs = [self._copy(pth)]
            e2, s2, m2 = dict(env), dict(state), list(muts)
            if isinstance(st, ast.For):
                self._store(st.target, UNK, e2, s2, m2)
            body = self._block(m, st.body, [(e2, s2, m2, False, None)], depth)
            outs.extend(body)
            return outs
        if isinstance(st, ast.Try):
            outs = self._block(m, st.body, [pth], depth)
            for h in st.handlers:
                outs.extend(self._block(m, h.body, [self._copy(pth)], depth))
            if st.finalbody:
                outs = self._block(m, st.finalbody, [(e, s, mu, False, None) if not r else (e, s, mu, r, rv) for (e, s, mu, r, rv) in outs], depth)
            return outs
        if isinstance(st, ast.With):
            return self._block(m, st.body, [pth], depth)
        if isinstance(st, (ast.Raise,)):
            return [(env, state, muts, True, UNK)]
        if isinstance(st, ast.Delete):
            m2 = list(muts)
            for t in st.targets:
                if self._self_reach(t, env):
                    m2.append("del " + norm(t))
            return [(env, state, m2, False, None)]
        if isinstance(st, (ast.Break, ast.Continue, ast.Global, ast.Nonlocal, ast.Import, ast.ImportFrom, ast.Assert,
                           ast.FunctionDef)):
            return [pth]
        raise AnalysisError(f"objinterp: unsupported statement {norm(st)[:80]}")

    @staticmethod
    def _copy(pth):
        return (dict(pth[0]), dict(pth[1]), list(pth[2]), pth[3], pth[4])

    def _self_reach(self, e: ast.AST, env) -> bool:
        """Is the object denoted by e reachable from self (or an alias recorded as such)?"""
        while isinstance(e, (ast.Attribute, ast.Subscript)):
            e = e.value
        if isinstance(e, ast.Name):
            if e.id == "self":
                return True
            return env.get("@alias:" + e.id, False)
        return False

    def _store(self, t, v, env, state, muts):
        if isinstance(t, ast.Name):
            env[t.id] = v
            return
        if isinstance(t, ast.Attribute) and isinstance(t.value, ast.Name) and t.value.id == "self":
            state[t.attr] = v
            muts.append(f"self.{t.attr} = {v!r}"[:80])
            return
        if isinstance(t, (ast.Tuple, ast.List)):
            for el in t.elts:
                self._store(el, UNK, env, state, muts)
            return
        if isinstance(t, (ast.Attribute, ast.Subscript)):
            if self._self_reach(t, env):
                muts.append("store " + norm(t)[:60])
                # the tracked attribute at the root becomes unknown-but-same: leave it
            return
        if isinstance(t, ast.Starred):
            self._store(t.value, UNK, env, state, muts)

    def _load(self, m, t, env, state):
        if isinstance(t, ast.Name):
            return env.get(t.id, UNK)
        if isinstance(t, ast.Attribute) and isinstance(t.value, ast.Name) and t.value.id == "self":
            return state.get(t.attr, UNK)
        return UNK

    def _expr_paths(self, m, e, pth, depth):
        return [p for p, _v in self._eval_paths(m, e, pth, depth)]

    def _eval_paths(self, m: Module, e, pth, depth):
        """Evaluate e on path pth; returns list of (path, value). Calls on self methods may fork."""
        env, state, muts, _r, _rv = pth
        if isinstance(e, ast.Constant):
            return [(pth, e.value)]
        if isinstance(e, ast.Name):
            if e.id in env:
                return [(pth, env[e.id])]
            v = self.folder.const(m, e.id)
            return [(pth, UNK if v is UNKNOWN else v)]
        if isinstance(e, ast.Attribute):
            if isinstance(e.value, ast.Name) and e.value.id == "self":
                return [(pth, state.get(e.attr, UNK))]
            return [(pth, UNK)]
        if isinstance(e, ast.UnaryOp) and isinstance(e.op, ast.Not):
            return [(p, UNK if v is UNK else (not v)) for p, v in self._eval_paths(m, e.operand, pth, depth)]
        if isinstance(e, ast.UnaryOp) and isinstance(e.op, ast.USub):
            return [(p, UNK if v is UNK or not isinstance(v, (int, float)) else -v) for p, v in self._eval_paths(m, e.operand, pth, depth)]
        if isinstance(e, ast.BoolOp):
            results = []

            def rec(i, p):
                for p2, v in self._eval_paths(m, e.values[i], p, depth):
                    last = i == len(e.values) - 1
                    if v is UNK:
                        # both continuations possible
                        results.append((p2, UNK)) if last else (rec(i + 1, self._copy(p2)), results.append((self._copy(p2), UNK)))
                        continue
                    short = (not v) if isinstance(e.op, ast.And) else bool(v)
                    if short or last:
                        results.append((p2, v))
                    else:
                        rec(i + 1, p2)

            rec(0, pth)
            # collapse: an UNK earlier makes later results UNK-tainted; keep it simple and sound (three-valued)
            return self._taint_unknown(results)
        if isinstance(e, ast.Compare):
            out = []
            for p1, left in self._eval_paths(m, e.left, pth, depth):
                vals = [(p1, left, True)]
                for op, ce in zip(e.ops, e.comparators):
                    nxt = []
                    for p2, lv, acc in vals:
                        for p3, rv in self._eval_paths(m, ce, p2, depth):
                            if acc is False:
                                nxt.append((p3, rv, False))
                                continue
                            r = self._cmp(op, lv, rv)
                            if r is UNK or acc is UNK:
                                nxt.append((p3, rv, UNK if r is not False else False))
                            else:
                                nxt.append((p3, rv, bool(r)))
                    vals = nxt
                out.extend((p, acc) for p, _lv, acc in vals)
            return out
        if isinstance(e, ast.IfExp):
            out = []
            for p2, c in self._eval_paths(m, e.test, pth, depth):
                if c is UNK:
                    out.extend(self._eval_paths(m, e.body, self._copy(p2), depth))
                    out.extend(self._eval_paths(m, e.orelse, self._copy(p2), depth))
                else:
                    out.extend(self._eval_paths(m, e.body if c else e.orelse, p2, depth))
            return out
        if isinstance(e, ast.Call):
            return self._call_paths(m, e, pth, depth)
        if isinstance(e, ast.BinOp) and isinstance(e.op, (ast.Add, ast.Sub)):
            out = []
            for p1, a in self._eval_paths(m, e.left, pth, depth):
                for p2, b in self._eval_paths(m, e.right, p1, depth):
                    v = UNK
                    if a is not UNK and b is not UNK and isinstance(a, (int, float)) and isinstance(b, (int, float)) and not isinstance(a, bool) and not isinstance(b, bool):
                        v = a + b if isinstance(e.op, ast.Add) else a - b
                    out.append((p2, v))
            return out
        if isinstance(e, (ast.Dict, ast.List, ast.Tuple, ast.Set, ast.ListComp, ast.DictComp, ast.SetComp, ast.GeneratorExp,
                          ast.JoinedStr, ast.Subscript, ast.BinOp, ast.Lambda, ast.Starred, ast.NamedExpr)):
            # evaluate nested calls for their effects, value unknown
            cur = [pth]
            for sub in ast.iter_child_nodes(e):
                if isinstance(sub, ast.Call):
                    cur = [p for c in cur for p, _v in self._call_paths(m, sub, c, depth)]
            if isinstance(e, ast.Subscript):
                # constant-table subscripts
                try:
                    base = self._eval_paths(m, e.value, pth, depth)
                    if len(base) == 1 and base[0][1] is not UNK and not isinstance(e.slice, ast.Slice):
                        k = self._eval_paths(m, e.slice, pth, depth)
                        if len(k) == 1 and k[0][1] is not UNK:
                            return [(pth, base[0][1][k[0][1]])]
                except Exception:
                    pass
            return [(c, UNK) for c in cur]
        return [(pth, UNK)]

    @staticmethod
    def _taint_unknown(results):
        return results

    @staticmethod
    def _cmp(op, a, b):
        if a is UNK or b is UNK:
            return UNK
        try:
            if isinstance(op, ast.Eq):
                return a == b
            if isinstance(op, ast.NotEq):
                return a != b
            if isinstance(op, ast.Gt):
                return a > b
            if isinstance(op, ast.GtE):
                return a >= b
            if isinstance(op, ast.Lt):
                return a < b
            if isinstance(op, ast.LtE):
                return a <= b
            if isinstance(op, ast.In):
                return a in b
            if isinstance(op, ast.NotIn):
                return a not in b
            if isinstance(op, ast.Is):
                return a is b
            if isinstance(op, ast.IsNot):
                return a is not b
        except Exception:
            return UNK
        return UNK

    def _call_paths(self, m: Module, e: ast.Call, pth, depth):
        f = e.func
        # evaluate arguments (left to right, forks multiply)
        cur = [(pth, [])]
        for a in e.args:
            nxt = []
            for p, vals in cur:
                for p2, v in self._eval_paths(m, a.value if isinstance(a, ast.Starred) else a, p, depth):
                    nxt.append((p2, vals + [v]))
            cur = nxt
        kwcur = []
        for p, vals in cur:
            kws = {}
            ps = [(p, kws)]
            for k in e.keywords:
                n2 = []
                for p2, kk in ps:
                    for p3, v in self._eval_paths(m, k.value, p2, depth):
                        d = dict(kk)
                        if k.arg:
                            d[k.arg] = v
                        n2.append((p3, d))
                ps = n2
            kwcur.extend((p2, vals, kk) for p2, kk in ps)
        out = []
        for p, vals, kws in kwcur:
            env, state, muts, _r, _rv = p
            if isinstance(f, ast.Attribute):
                # self.method(...)
                if isinstance(f.value, ast.Name) and f.value.id == "self":
                    meth = self.p.find_method(self.cls, f.attr)
                    if meth is not None:
                        params = [a.arg for a in meth.node.args.args][1:]
                        args = {n: (vals[i] if i < len(vals) else kws.get(n, UNK)) for i, n in enumerate(params)}
                        for o in self._call(meth, dict(state), args, depth + 1):
                            out.append(((dict(env), o.state, list(muts) + o.mutations, False, None), o.returned if o.returned is not None else None))
                        continue
                    out.append((p, UNK))  # inherited library method (feed, close, ...)
                    continue
                if isinstance(f.value, ast.Call) and isinstance(f.value.func, ast.Name) and f.value.func.id == "super":
                    out.append((p, UNK))
                    continue
                # string methods on known strings
                recv = self._eval_paths(m, f.value, p, depth)
                if len(recv) == 1 and isinstance(recv[0][1], str) and f.attr in ("lower", "upper", "strip", "startswith", "endswith"):
                    try:
                        if all(v is not UNK for v in vals):
                            out.append((p, getattr(recv[0][1], f.attr)(*vals)))
                            continue
                    except Exception:
                        pass
                if f.attr in MUTATORS and self._self_reach(f.value, env):
                    m2 = list(muts) + [f"{norm(f.value)[:50]}.{f.attr}(...)"]
                    out.append(((env, state, m2, False, None), UNK))
                    continue
                out.append((p, UNK))
                continue
            if isinstance(f, ast.Name):
                if f.id == "len" or f.id in ("str", "int", "bool", "dict", "list", "set", "tuple", "isinstance", "getattr", "any", "all", "min", "max"):
                    if f.id == "bool" and vals and vals[0] is not UNK:
                        out.append((p, bool(vals[0])))
                    elif f.id == "len" and vals and vals[0] is not UNK and hasattr(vals[0], "__len__"):
                        out.append((p, len(vals[0])))
                    else:
                        out.append((p, UNK))
                    continue
            out.append((p, UNK))
        return out
