"""Call resolution inside the repository (no execution).

resolve_call(ctx, fi, call) -> Target
    Target.funcs     repository functions the call may invoke (resolved)
    Target.external  dotted name of an external callee (``zipfile.ZipFile``) when not a repo function
    Target.klass     repository class when the call is a constructor
    Target.dynamic   'extractor' when the callee is a value obtained from the router
"""
from __future__ import annotations

import ast
from dataclasses import dataclass, field

from .loader import ClassInfo, FuncInfo, Module, Project, dotted, walk_own

ROUTER_REL = "sharepoint2text/parsing/router.py"


@dataclass
class Target:
    funcs: list[FuncInfo] = field(default_factory=list)
    external: str | None = None
    klass: ClassInfo | None = None
    dynamic: str | None = None

    def names(self) -> list[str]:
        out = [f.key for f in self.funcs]
        if self.klass:
            out.append(self.klass.key)
        if self.external:
            out.append(self.external)
        if self.dynamic:
            out.append(f"<{self.dynamic}>")
        return out


def local_imports(fn_node: ast.AST) -> dict[str, str]:
    out = {}
    for n in walk_own(fn_node):
        if isinstance(n, ast.ImportFrom) and n.module and not n.level:
            for a in n.names:
                out[a.asname or a.name] = f"{n.module}.{a.name}"
        elif isinstance(n, ast.Import):
            for a in n.names:
                out[a.asname or a.name.split(".")[0]] = a.name if a.asname else a.name.split(".")[0]
    return out


def _enclosing_chain(fi: FuncInfo):
    while fi is not None:
        yield fi
        fi = fi.parent


def _resolve_dotted_target(p: Project, tgt: str):
    """'pkg.mod.name' -> ('func', FuncInfo) | ('class', ClassInfo) | ('module', Module) | ('external', tgt)"""
    if tgt in p.modules:
        return ("module", p.modules[tgt])
    if "." in tgt:
        modname, attr = tgt.rsplit(".", 1)
        mod = p.modules.get(modname)
        if mod is not None:
            if attr in mod.functions:
                return ("func", mod.functions[attr])
            if attr in mod.classes:
                return ("class", mod.classes[attr])
            if attr in mod.imports:
                return p.resolve_import(mod, attr) or ("external", tgt)
            if attr in mod.assigns:
                return ("const", (mod, attr))
    return ("external", tgt)


def resolve_name(p: Project, fi: FuncInfo | None, m: Module, name: str):
    """Resolve a bare name as seen from inside function fi (or at module level when fi is None)."""
    if fi is not None:
        for f in _enclosing_chain(fi):
            # nested def
            q = f"{f.qual}.<locals>.{name}"
            if q in m.functions:
                return ("func", m.functions[q])
            li = local_imports(f.node)
            if name in li:
                return _resolve_dotted_target(p, li[name])
    return p.resolve_import(m, name)


def _single_return(fi: FuncInfo):
    rets = [n for n in walk_own(fi.node) if isinstance(n, ast.Return) and n.value is not None]
    return rets[0].value if len(rets) == 1 else None


def _local_assignments(fi: FuncInfo, name: str):
    """All (target, value, index-in-tuple|None) assignments to `name` in fi."""
    out = []
    for n in walk_own(fi.node):
        if isinstance(n, ast.Assign):
            for t in n.targets:
                if isinstance(t, ast.Name) and t.id == name:
                    out.append((n.value, None))
                elif isinstance(t, (ast.Tuple, ast.List)):
                    for i, e in enumerate(t.elts):
                        if isinstance(e, ast.Name) and e.id == name:
                            out.append((n.value, i))
        elif isinstance(n, ast.AnnAssign) and isinstance(n.target, ast.Name) and n.target.id == name and n.value is not None:
            out.append((n.value, None))
        elif isinstance(n, ast.NamedExpr) and isinstance(n.target, ast.Name) and n.target.id == name:
            out.append((n.value, None))
    return out


def _param_annotation(fi: FuncInfo, name: str):
    for f in _enclosing_chain(fi):
        a = f.node.args
        for arg in a.args + a.kwonlyargs + a.posonlyargs:
            if arg.arg == name:
                return arg.annotation, f
    return None, None


def class_of_expr(p: Project, fi: FuncInfo, e: ast.AST, depth: int = 0) -> ClassInfo | None:
    """Best-effort class of an expression: self, annotated parameter, constructor result."""
    m = fi.module
    if depth > 3:
        return None
    if isinstance(e, ast.Name):
        if e.id in ("self", "cls") and fi.cls is not None:
            return fi.cls
        for f in _enclosing_chain(fi):
            if e.id in ("self", "cls") and f.cls is not None:
                return f.cls
        ann, _ = _param_annotation(fi, e.id)
        if ann is not None:
            c = _class_from_annotation(p, m, ann)
            if c:
                return c
        for f in _enclosing_chain(fi):
            for val, idx in _local_assignments(f, e.id):
                if idx is None:
                    c = class_of_expr(p, f, val, depth + 1)
                    if c:
                        return c
            # with X(...) as name
            for n in walk_own(f.node):
                if isinstance(n, (ast.With, ast.AsyncWith)):
                    for it in n.items:
                        if isinstance(it.optional_vars, ast.Name) and it.optional_vars.id == e.id:
                            c = class_of_expr(p, f, it.context_expr, depth + 1)
                            if c:
                                return c
        return None
    if isinstance(e, ast.Call):
        d = dotted(e.func)
        if d:
            r = resolve_name(p, fi, m, d.split(".")[0]) if "." not in d else None
            if r and r[0] == "class":
                return r[1]
            if r and r[0] == "func":
                ra = r[1].node.returns
                if ra is not None:
                    return _class_from_annotation(p, r[1].module, ra)
        return None
    if isinstance(e, ast.Attribute):
        base = class_of_expr(p, fi, e.value, depth + 1)
        if base is not None:
            for c in p.mro(base):
                if e.attr in c.fields and c.fields[e.attr][0] is not None:
                    return _class_from_annotation(p, c.module, c.fields[e.attr][0])
            # instance attributes assigned in methods: self.attr: T = ... / self.attr = Class(...)
            for c in p.mro(base):
                for mth in c.methods.values():
                    for n in walk_own(mth.node):
                        tgt = None
                        if isinstance(n, ast.AnnAssign):
                            tgt = n.target
                            if isinstance(tgt, ast.Attribute) and isinstance(tgt.value, ast.Name) and tgt.value.id == "self" and tgt.attr == e.attr:
                                r = _class_from_annotation(p, c.module, n.annotation)
                                if r is not None:
                                    return r
                        elif isinstance(n, ast.Assign):
                            for t in n.targets:
                                if isinstance(t, ast.Attribute) and isinstance(t.value, ast.Name) and t.value.id == "self" and t.attr == e.attr and isinstance(n.value, ast.Call):
                                    r = class_of_expr(p, mth, n.value, depth + 1)
                                    if r is not None:
                                        return r
        return None
    return None


def _class_from_annotation(p: Project, m: Module, ann: ast.AST) -> ClassInfo | None:
    if isinstance(ann, ast.Constant) and isinstance(ann.value, str):
        try:
            ann = ast.parse(ann.value, mode="eval").body
        except SyntaxError:
            return None
    if isinstance(ann, ast.BinOp) and isinstance(ann.op, ast.BitOr):
        return _class_from_annotation(p, m, ann.left) or _class_from_annotation(p, m, ann.right)
    if isinstance(ann, ast.Subscript):
        d = dotted(ann.value) or ""
        if d.split(".")[-1] == "Optional":
            return _class_from_annotation(p, m, ann.slice)
        return None
    d = dotted(ann)
    if d and "." not in d:
        r = p.resolve_import(m, d)
        if r and r[0] == "class":
            return r[1]
    return None


def resolve_call(p: Project, fi: FuncInfo, call: ast.Call, depth: int = 0) -> Target:
    m = fi.module
    f = call.func
    if isinstance(f, ast.Name):
        # local variable holding a function value?
        for enc in _enclosing_chain(fi):
            assigns = _local_assignments(enc, f.id)
            if assigns:
                t = Target()
                for val, idx in assigns:
                    sub = _value_as_function(p, enc, val, idx, depth)
                    if sub is None:
                        continue
                    t.funcs.extend(sub.funcs)
                    t.external = t.external or sub.external
                    t.dynamic = t.dynamic or sub.dynamic
                    t.klass = t.klass or sub.klass
                if t.funcs or t.external or t.dynamic or t.klass:
                    return t
                break
        r = resolve_name(p, fi, m, f.id)
        if r is None:
            return Target(external=f.id)
        if r[0] == "func":
            return Target(funcs=[r[1]])
        if r[0] == "class":
            return Target(klass=r[1])
        if r[0] == "external":
            return Target(external=r[1])
        return Target(external=f.id)
    if isinstance(f, ast.Attribute):
        d = dotted(f)
        base = f.value
        # module.func / module.Class
        if isinstance(base, ast.Name):
            r = resolve_name(p, fi, m, base.id)
            if r and r[0] == "module":
                mod = r[1]
                if f.attr in mod.functions:
                    return Target(funcs=[mod.functions[f.attr]])
                if f.attr in mod.classes:
                    return Target(klass=mod.classes[f.attr])
                return Target(external=f"{mod.modname}.{f.attr}")
            if r and r[0] == "class":
                meth = p.find_method(r[1], f.attr)
                if meth:
                    return Target(funcs=[meth])
            if r and r[0] == "external":
                return Target(external=f"{r[1]}.{f.attr}")
        ci = class_of_expr(p, fi, base)
        if ci is not None:
            meth = p.find_method(ci, f.attr)
            if meth:
                # also subclasses overriding it (virtual dispatch)
                funcs = [meth]
                for sub in p.all_classes():
                    if sub is not ci and ci in p.mro(sub) and f.attr in sub.methods:
                        funcs.append(sub.methods[f.attr])
                return Target(funcs=funcs)
            return Target(external=f"{ci.name}.{f.attr}")
        if isinstance(base, ast.Call) and isinstance(base.func, ast.Name) and base.func.id == "super" and fi.cls is not None:
            for c in p.mro(fi.cls)[1:]:
                if f.attr in c.methods:
                    return Target(funcs=[c.methods[f.attr]])
        return Target(external=d or f"?.{f.attr}")
    return Target(external=None)


def _value_as_function(p: Project, fi: FuncInfo, val: ast.AST, idx, depth: int) -> Target | None:
    """A local variable assigned from `val` (component idx of a tuple when idx is not None): which function is it?"""
    if depth > 3:
        return None
    if isinstance(val, ast.Call):
        t = resolve_call(p, fi, val, depth + 1)
        for g in t.funcs:
            if g.module.rel == ROUTER_REL and g.qual in ("get_extractor", "_get_extractor"):
                return Target(dynamic="extractor")
            ret = _single_return(g)
            if ret is None:
                continue
            if idx is not None and isinstance(ret, ast.Tuple) and idx < len(ret.elts):
                ret = ret.elts[idx]
            elif idx is not None:
                continue
            if isinstance(ret, ast.Name):
                r = resolve_name(p, g, g.module, ret.id)
                if r and r[0] == "func":
                    return Target(funcs=[r[1]])
                if r and r[0] == "external":
                    return Target(external=r[1])
            if isinstance(ret, ast.Call):
                sub = _value_as_function(p, g, ret, None, depth + 1)
                if sub:
                    return sub
        return None
    if isinstance(val, ast.Name) and idx is None:
        r = resolve_name(p, fi, fi.module, val.id)
        if r and r[0] == "func":
            return Target(funcs=[r[1]])
    if isinstance(val, ast.Attribute) and idx is None:
        d = dotted(val)
        if d:
            return Target(external=d)
    return None


def calls_in(fi: FuncInfo):
    for n in walk_own(fi.node):
        if isinstance(n, ast.Call):
            yield n


def reachable_functions(p: Project, roots: list[FuncInfo], extractor_targets: list[FuncInfo] | None = None) -> dict[str, FuncInfo]:
    """Transitive closure over resolved calls (nested defs of a reached function are included)."""
    seen: dict[str, FuncInfo] = {}
    stack = list(roots)
    while stack:
        fi = stack.pop()
        if fi.key in seen:
            continue
        seen[fi.key] = fi
        # nested defs
        for q, g in fi.module.functions.items():
            if g.parent is fi:
                stack.append(g)
        for c in calls_in(fi):
            t = resolve_call(p, fi, c)
            stack.extend(t.funcs)
            if t.klass is not None:
                for name in ("__init__", "__post_init__", "__enter__", "__exit__"):
                    mth = p.find_method(t.klass, name)
                    if mth:
                        stack.append(mth)
            if t.dynamic == "extractor" and extractor_targets:
                stack.extend(extractor_targets)
    return seen
