"""Inlining normal form: private helpers that the reference inventory does not know are expanded at their call sites.

The rules of this analyser were confirmed against the functions of the reference tree (`sa/inventory.json`, generated from /repo by
`tools/gen_inventory.py` and committed).  A later change that moves part of a known function into a *new* private helper ("extract
method", "split a long function", "merge the duplicated code of two siblings") leaves the behaviour as it was, but every rule that reads
the known function would see an opaque call where the code used to be.  Before the modules are indexed, each call of such a new helper is
replaced by the helper's body (parameters substituted, locals renamed on a clash, `return e` turned into the assignment / return /
nothing the call site needs), so that the rules analyse the program they were written for.  Code that is *seeded into* a new helper is
analysed in the context of its callers for the same reason.

Inlining is semantics preserving under the conditions checked here; a helper that does not meet them stays an opaque call, exactly as it
was before this pass existed:
  * defined in the same module (function) or the same class (method called on `self`, static method called on `self` / the class);
  * not known to the inventory, name starts with an underscore;
  * no generator, not async, no decorator but `staticmethod`, no *args / **kwargs, no global / nonlocal, not (mutually) recursive,
    no nested function that assigns a helper local;
  * every `return` is at the top level of the body or under `if` statements only (not inside a loop, `try` or `with`), unless the call
    site is itself `return helper(...)`, where the body is spliced as it is;
  * the call is the whole right-hand side of the statement, or can be hoisted in front of the statement without changing the order of
    evaluation (nothing but names, constants and attribute reads is evaluated before it; not inside a lambda, comprehension,
    conditional expression or the right operand of and / or).
A helper all of whose call sites were expanded, and that nothing in the project refers to any more, is removed.
"""
from __future__ import annotations

import ast
import copy

MAX_DEPTH = 4
MAX_BODY = 120  # statements (recursively counted) of a helper that is still expanded


def _own_nodes(fn):
    stack = list(ast.iter_child_nodes(fn))
    while stack:
        n = stack.pop()
        yield n
        if isinstance(n, (ast.FunctionDef, ast.AsyncFunctionDef, ast.Lambda, ast.ClassDef)):
            continue
        stack.extend(ast.iter_child_nodes(n))


def _params(fn) -> list[str]:
    a = fn.args
    return [x.arg for x in a.posonlyargs + a.args + a.kwonlyargs]


def _stores(fn) -> set[str]:
    out = set()
    for n in ast.walk(fn):
        if isinstance(n, ast.Name) and isinstance(n.ctx, (ast.Store, ast.Del)):
            out.add(n.id)
        elif isinstance(n, ast.ExceptHandler) and n.name:
            out.add(n.name)
        elif isinstance(n, (ast.Import, ast.ImportFrom)):
            for a in n.names:
                out.add((a.asname or a.name).split(".")[0])
        elif n is not fn and isinstance(n, (ast.FunctionDef, ast.AsyncFunctionDef, ast.ClassDef)):
            out.add(n.name)
    return out


def _names(fn) -> set[str]:
    return {n.id for n in ast.walk(fn) if isinstance(n, ast.Name)} | {a.arg for a in ast.walk(fn) if isinstance(a, ast.arg)}


def _count_stmts(body) -> int:
    return sum(1 for st in body for n in ast.walk(st) if isinstance(n, ast.stmt))


def _has_return(st) -> bool:
    return isinstance(st, ast.Return) or any(isinstance(n, ast.Return) for n in _own_nodes(st))


def _loop_breaks(loop) -> bool:
    """does the loop contain a break / continue-else subtlety of its own (a `break` that belongs to this loop)?"""
    stack = list(loop.body)
    while stack:
        n = stack.pop()
        if isinstance(n, ast.Break):
            return True
        if isinstance(n, (ast.For, ast.While, ast.AsyncFor, ast.FunctionDef, ast.AsyncFunctionDef, ast.Lambda, ast.ClassDef)):
            continue
        stack.extend(ast.iter_child_nodes(n))
    return False


def _returns_only_under_ifs(body, in_loop=False) -> bool:
    """can `_convert` turn this body into single-exit form?  Returns may stand at the top level, under ifs, in the handlers / else of a
    try (in its body only as the last statement), as the last statement of a with body, and under ifs inside one loop that has no break of
    its own (the return becomes exit + break, what follows the loop moves into its else)."""
    for st in body:
        if isinstance(st, ast.Return):
            continue
        if isinstance(st, (ast.FunctionDef, ast.AsyncFunctionDef, ast.ClassDef)) or not _has_return(st):
            continue
        if isinstance(st, ast.If):
            if not _returns_only_under_ifs(st.body, in_loop) or not _returns_only_under_ifs(st.orelse, in_loop):
                return False
            continue
        if in_loop:
            return False
        if isinstance(st, ast.Try):
            if any(_has_return(x) for x in st.finalbody):
                return False
            if any(_has_return(x) for x in st.body[:-1]) or (st.body and _has_return(st.body[-1]) and not isinstance(st.body[-1], ast.Return)):
                return False
            if not _returns_only_under_ifs(st.orelse) or not all(_returns_only_under_ifs(h.body) for h in st.handlers):
                return False
            continue
        if isinstance(st, ast.With):
            if not _always_returns(st.body) or not _returns_only_under_ifs(st.body):
                return False
            continue
        if isinstance(st, (ast.For, ast.While)):
            if _loop_breaks(st) or not _returns_only_under_ifs(st.body, True) or not _returns_only_under_ifs(st.orelse):
                return False
            continue
        return False
    return True


def _always_returns(body) -> bool:
    if not body:
        return False
    last = body[-1]
    if isinstance(last, (ast.Return, ast.Raise)):
        return True
    if isinstance(last, ast.If):
        return bool(last.orelse) and _always_returns(last.body) and _always_returns(last.orelse)
    if isinstance(last, ast.Try) and not last.finalbody:
        return (_always_returns(last.body) or _always_returns(last.orelse)) and all(_always_returns(h.body) for h in last.handlers)
    if isinstance(last, ast.With):
        return _always_returns(last.body)
    return False


def _simple(e) -> bool:
    """evaluating it has no effect and cannot observe one of the helper's statements: names, constants, attribute reads of names"""
    if isinstance(e, (ast.Name, ast.Constant)):
        return True
    if isinstance(e, ast.Attribute):
        return _simple(e.value)
    return False


_PURE_CALLS = {"len", "int", "str", "bool", "float", "bytes", "tuple", "list", "min", "max", "abs", "isinstance", "repr"}


def _pure(e) -> bool:
    """no effect, no dependence on anything but the values of the names it mentions"""
    for n in ast.walk(e):
        if isinstance(n, ast.Call):
            if not (isinstance(n.func, ast.Name) and n.func.id in _PURE_CALLS) or n.keywords:
                return False
        elif isinstance(n, (ast.Lambda, ast.ListComp, ast.SetComp, ast.DictComp, ast.GeneratorExp, ast.Await, ast.Yield, ast.YieldFrom, ast.NamedExpr, ast.Starred)):
            return False
    return True


def _single_straight_use(fn, p: str) -> bool:
    uses = [n for n in ast.walk(fn) if isinstance(n, ast.Name) and n.id == p and isinstance(n.ctx, ast.Load)]
    if len(uses) != 1:
        return False
    u = uses[0]

    def inside(kinds):
        for n in ast.walk(fn):
            if n is not fn and isinstance(n, kinds) and any(x is u for x in ast.walk(n)):
                return True
        return False

    return not inside((ast.For, ast.While, ast.AsyncFor, ast.ListComp, ast.SetComp, ast.DictComp, ast.GeneratorExp, ast.Lambda, ast.FunctionDef, ast.AsyncFunctionDef))


def _fuse_copies(block: list) -> list:
    """`t1 = E1; t2 = E2; x = t1; y = t2` (or `x, y = t1, t2`), each temporary read only there  ->  `x = E1; y = E2`.
    The expressions keep their order of evaluation; E_j must not mention an x_i that is now assigned before it."""
    for st in block:
        for fld in ("body", "orelse", "finalbody"):
            b = getattr(st, fld, None)
            if isinstance(b, list) and b and isinstance(b[0], ast.stmt) and not isinstance(st, (ast.FunctionDef, ast.AsyncFunctionDef, ast.ClassDef)):
                setattr(st, fld, _fuse_copies(b))
        for h in getattr(st, "handlers", []) or []:
            h.body = _fuse_copies(h.body)
    out = list(block)
    changed = True
    while changed:
        changed = False
        for k, st in enumerate(out):
            # the copy statement(s)
            pairs = None
            if isinstance(st, ast.Assign) and len(st.targets) == 1:
                t, v = st.targets[0], st.value
                if isinstance(t, ast.Name) and isinstance(v, ast.Name):
                    pairs = [(t, v)]
                elif isinstance(t, ast.Tuple) and isinstance(v, ast.Tuple) and len(t.elts) == len(v.elts) and all(isinstance(a, ast.Name) for a in t.elts) and all(isinstance(b, ast.Name) for b in v.elts):
                    pairs = list(zip(t.elts, v.elts))
            if not pairs:
                continue
            temps = [v.id for _t, v in pairs]
            if len(set(temps)) != len(temps) or not all("__i" in n or n.startswith("__v") for n in temps):
                continue
            n_ = len(pairs)
            if k < n_:
                continue
            defs = out[k - n_:k]
            if not all(isinstance(d, ast.Assign) and len(d.targets) == 1 and isinstance(d.targets[0], ast.Name) and d.targets[0].id == temps[i] for i, d in enumerate(defs)):
                continue
            everything = ast.Module(body=out, type_ignores=[])
            if any(sum(1 for x in ast.walk(everything) if isinstance(x, ast.Name) and x.id == tn) != 2 for tn in temps):
                continue
            xs = [t.id for t, _v in pairs]
            ok = True
            for j, d in enumerate(defs):
                if {x.id for x in ast.walk(d.value) if isinstance(x, ast.Name)} & set(xs[:j]):
                    ok = False
            if not ok:
                continue
            fused = [ast.copy_location(ast.Assign(targets=[ast.Name(id=xs[i], ctx=ast.Store())], value=defs[i].value), st) for i in range(n_)]
            out[k - n_:k + 1] = fused
            changed = True
            break
    return out


class _Subst(ast.NodeTransformer):
    def __init__(self, mapping: dict[str, ast.AST]):
        self.mapping = mapping

    def visit_Name(self, node):
        rep = self.mapping.get(node.id)
        if rep is None:
            return node
        if isinstance(rep, str):
            return ast.copy_location(ast.Name(id=rep, ctx=node.ctx), node)
        if isinstance(node.ctx, ast.Load):
            return ast.copy_location(copy.deepcopy(rep), node)
        return node

    def visit_arg(self, node):
        rep = self.mapping.get(node.arg)
        if isinstance(rep, str):
            node.arg = rep
        return node

    def visit_ExceptHandler(self, node):
        rep = self.mapping.get(node.name) if node.name else None
        if isinstance(rep, str):
            node.name = rep
        self.generic_visit(node)
        return node


class Inliner:
    def __init__(self, tree: ast.Module, known: set[str]):
        self.tree = tree
        self.known = known
        self.funcs: dict[str, ast.FunctionDef] = {}  # module-level helpers by name
        self.methods: dict[tuple[str, str], ast.FunctionDef] = {}  # (class, name)
        self.expanded: dict[str, int] = {}
        self.refused: dict[str, str] = {}
        self.counter = 0
        for st in tree.body:
            if isinstance(st, ast.FunctionDef):
                self.funcs[st.name] = st
            elif isinstance(st, ast.ClassDef):
                for sub in st.body:
                    if isinstance(sub, ast.FunctionDef):
                        self.methods[(st.name, sub.name)] = sub

    # ------------------------------------------------------------------ which helpers
    def _qual(self, cls, name):
        return f"{cls}.{name}" if cls else name

    def eligible(self, fn: ast.FunctionDef, cls: str | None) -> bool:
        q = self._qual(cls, fn.name)
        if q in self.known or not fn.name.startswith("_") or fn.name.startswith("__"):
            return False
        why = None
        a = fn.args
        decos = [ast.unparse(d) for d in fn.decorator_list]
        if any(d != "staticmethod" for d in decos):
            why = "decorated"
        elif a.vararg or (a.kwarg and not self._kwarg_only_forwarded(fn)):
            why = "*args / **kwargs"
        elif any(isinstance(n, (ast.Yield, ast.YieldFrom, ast.Await)) for n in _own_nodes(fn)):
            why = "generator"
        elif any(isinstance(n, (ast.Global, ast.Nonlocal)) for n in ast.walk(fn)):
            why = "global / nonlocal"
        elif any(isinstance(n, ast.Name) and n.id in ("super", "__class__", "locals", "vars") for n in ast.walk(fn)):
            why = "super() / locals()"
        elif _count_stmts(fn.body) > MAX_BODY:
            why = "too large"
        elif any(n is not fn and isinstance(n, (ast.FunctionDef, ast.AsyncFunctionDef, ast.ClassDef)) for n in ast.walk(fn)):
            why = "nested definitions"
        if why:
            self.refused[q] = why
            return False
        return True

    @staticmethod
    def _kwarg_only_forwarded(fn) -> bool:
        """**options of the helper is read nowhere but as `f(..., **options)`"""
        kw = fn.args.kwarg.arg
        uses = [n for n in ast.walk(fn) if isinstance(n, ast.Name) and n.id == kw]
        fwd = [k.value for c in ast.walk(fn) if isinstance(c, ast.Call) for k in c.keywords if k.arg is None and isinstance(k.value, ast.Name) and k.value.id == kw]
        return bool(uses) and len(uses) == len(fwd) and all(any(u is f for f in fwd) for u in uses)

    def _callee(self, call: ast.Call, host_cls: str | None):
        """(function node, class name or None, bound-self expression or None) of a call that can be expanded"""
        f = call.func
        if isinstance(f, ast.Name) and f.id in self.funcs:
            fn = self.funcs[f.id]
            return (fn, None, None) if self.eligible(fn, None) else None
        if isinstance(f, ast.Attribute) and isinstance(f.value, ast.Name):
            if f.value.id == "self" and host_cls and (host_cls, f.attr) in self.methods:
                fn = self.methods[(host_cls, f.attr)]
                if not self.eligible(fn, host_cls):
                    return None
                static = any(ast.unparse(d) == "staticmethod" for d in fn.decorator_list)
                return (fn, host_cls, None if static else f.value)
            if (f.value.id, f.attr) in self.methods:
                fn = self.methods[(f.value.id, f.attr)]
                if self.eligible(fn, f.value.id) and any(ast.unparse(d) == "staticmethod" for d in fn.decorator_list):
                    return (fn, f.value.id, None)
        return None

    # ------------------------------------------------------------------ expansion of one call
    def _bind(self, fn, call, self_expr, host_names, prefer=None):
        """(prologue statements, substituted deep copy of the body) or None; `prefer` maps a helper local to the name it shall take"""
        a = fn.args
        pos = [x.arg for x in a.posonlyargs + a.args]
        kwonly = [x.arg for x in a.kwonlyargs]
        if any(isinstance(x, ast.Starred) for x in call.args) or any(k.arg is None for k in call.keywords):
            return None
        given: dict[str, ast.AST] = {}
        params = list(pos)
        if self_expr is not None:
            if not params:
                return None
            given[params[0]] = self_expr
            params = params[1:]
        if len(call.args) > len(params):
            return None
        for p, v in zip(params, call.args):
            given[p] = v
        extra = []  # keywords that go to **options of the helper
        for k in call.keywords:
            if k.arg in given:
                return None
            if k.arg not in pos + kwonly:
                if a.kwarg is None:
                    return None
                extra.append(k)
                continue
            given[k.arg] = k.value
        defaults = dict(zip(pos[len(pos) - len(a.defaults):], a.defaults))
        for p, d in zip(kwonly, a.kw_defaults):
            if d is not None:
                defaults[p] = d
        for p in pos + kwonly:
            if p not in given:
                if p not in defaults:
                    return None
                given[p] = defaults[p]
        stored = _stores(fn)
        helper_names = _names(fn)
        mapping: dict[str, ast.AST] = {}
        prologue = []
        self.counter += 1
        tag = f"__i{self.counter}"
        # free names of the helper (module globals) must not be captured by locals of the host
        free = {n.id for n in ast.walk(fn) if isinstance(n, ast.Name) and isinstance(n.ctx, ast.Load)} - stored - set(pos + kwonly)
        host_locals = host_names["stores"] | host_names["params"]
        if free & host_locals:
            return None
        for p in pos + kwonly:
            v = given[p]
            if p not in stored and _simple(v) and not (isinstance(v, ast.Name) and v.id in stored):
                mapping[p] = v
            elif p not in stored and _pure(v) and _single_straight_use(fn, p) and not ({n.id for n in ast.walk(v) if isinstance(n, ast.Name)} & stored):
                # read once, outside any loop / comprehension / lambda: the argument takes the place of the parameter
                mapping[p] = v
            else:
                new = p if p not in host_names["all"] else p + tag
                mapping[p] = new
                prologue.append(ast.copy_location(ast.Assign(targets=[ast.Name(id=new, ctx=ast.Store())], value=copy.deepcopy(v)), call))
        for loc in stored - set(pos + kwonly):
            if prefer and loc in prefer:
                mapping[loc] = prefer[loc]
            elif loc in host_names["all"] or (prefer and loc in prefer.values()):
                mapping[loc] = loc + tag
        body = [copy.deepcopy(st) for st in fn.body]
        if body and isinstance(body[0], ast.Expr) and isinstance(body[0].value, ast.Constant) and isinstance(body[0].value.value, str):
            body = body[1:]
        if a.kwarg is not None:
            kwname = a.kwarg.arg
            if not all(_simple(k.value) or _pure(k.value) for k in extra):
                return None
            for c in [c for st in body for c in ast.walk(st) if isinstance(c, ast.Call)]:
                new_kws = []
                for k in c.keywords:
                    if k.arg is None and isinstance(k.value, ast.Name) and k.value.id == kwname:
                        new_kws.extend(ast.keyword(arg=e.arg, value=copy.deepcopy(e.value)) for e in extra)
                    else:
                        new_kws.append(k)
                c.keywords = new_kws
        sub = _Subst(mapping)
        body = [sub.visit(st) for st in body]
        _ = helper_names
        return prologue, body

    def _convert(self, body, make_exit, in_loop=False):
        """single-exit form of a body accepted by _returns_only_under_ifs: `return e` -> make_exit(e) (+ break inside a loop)"""
        out = []
        for i, st in enumerate(body):
            if isinstance(st, ast.Return):
                out.extend(make_exit(st.value, st))
                if in_loop:
                    out.append(ast.copy_location(ast.Break(), st))
                return out
            if isinstance(st, (ast.FunctionDef, ast.AsyncFunctionDef, ast.ClassDef)) or not _has_return(st):
                out.append(st)
                continue
            rest = body[i + 1:]
            if isinstance(st, ast.If):
                b = st.body + ([copy.deepcopy(x) for x in rest] if not _always_returns(st.body) else [])
                o = st.orelse + ([copy.deepcopy(x) for x in rest] if not _always_returns(st.orelse) else [])
                nb, no = self._convert(b, make_exit, in_loop), self._convert(o, make_exit, in_loop)
                if not nb and not no:
                    # nothing left on either side but the evaluation of the test
                    out.append(ast.copy_location(ast.Expr(value=st.test), st))
                elif not nb:
                    neg = st.test.operand if isinstance(st.test, ast.UnaryOp) and isinstance(st.test.op, ast.Not) else ast.UnaryOp(op=ast.Not(), operand=st.test)
                    out.append(ast.copy_location(ast.If(test=neg, body=no, orelse=[]), st))
                else:
                    out.append(ast.copy_location(ast.If(test=st.test, body=nb, orelse=no), st))
                return out
            if isinstance(st, ast.Try):
                body_returns = bool(st.body) and isinstance(st.body[-1], ast.Return)
                if body_returns:
                    st.body = st.body[:-1] + make_exit(st.body[-1].value, st.body[-1])
                    st.orelse = []
                else:
                    st.orelse = self._convert(st.orelse + [copy.deepcopy(x) for x in rest], make_exit)
                for h in st.handlers:
                    h.body = self._convert(h.body + ([copy.deepcopy(x) for x in rest] if not _always_returns(h.body) else []), make_exit) or [ast.Pass()]
                if not st.body:
                    st.body = [ast.Pass()]
                out.append(st)
                return out
            if isinstance(st, ast.With):
                st.body = self._convert(st.body, make_exit) or [ast.Pass()]
                out.append(st)
                return out  # every path through the with body returned: what followed it was unreachable
            if isinstance(st, (ast.For, ast.While)):
                st.body = self._convert_loop_body(st.body, make_exit)
                st.orelse = self._convert(st.orelse + [copy.deepcopy(x) for x in rest], make_exit)
                out.append(st)
                return out
            out.append(st)
        if not in_loop and not (out and (isinstance(out[-1], (ast.Raise, ast.Continue, ast.Break)) or _always_returns(out))):
            out.extend(make_exit(None, body[-1] if body else None))
        return out

    def _convert_loop_body(self, body, make_exit):
        """inside the loop: returns under ifs become exit + break; nothing is appended where the body falls through"""
        out = []
        for st in body:
            if isinstance(st, ast.Return):
                out.extend(make_exit(st.value, st))
                out.append(ast.copy_location(ast.Break(), st))
                return out
            if isinstance(st, ast.If) and _has_return(st):
                st.body = self._convert_loop_body(st.body, make_exit) or [ast.Pass()]
                st.orelse = self._convert_loop_body(st.orelse, make_exit)
            out.append(st)
        return out

    def expand_stmt(self, st, host_cls, host_names, stack):
        """list of statements replacing `st`, or None when nothing in it can be expanded"""
        # the call that is the statement's whole value
        call, kind = None, None
        if isinstance(st, ast.Expr) and isinstance(st.value, ast.Call):
            call, kind = st.value, "expr"
        elif isinstance(st, ast.Return) and isinstance(st.value, ast.Call):
            call, kind = st.value, "return"
        elif isinstance(st, ast.Assign) and isinstance(st.value, ast.Call):
            call, kind = st.value, "assign"
        elif isinstance(st, ast.AnnAssign) and isinstance(st.value, ast.Call) and isinstance(st.target, ast.Name):
            call, kind = st.value, "annassign"
        elif isinstance(st, ast.AugAssign) and isinstance(st.value, ast.Call) and _simple(st.target):
            call, kind = st.value, "augassign"
        if call is None and isinstance(st, ast.With) and len(st.items) == 1 and isinstance(st.items[0].context_expr, ast.Call):
            cm = self._expand_with(st, host_cls, host_names, stack)
            if cm is not None:
                return cm
        neg = False
        if call is None and isinstance(st, ast.If):
            t = st.test
            if isinstance(t, ast.UnaryOp) and isinstance(t.op, ast.Not) and isinstance(t.operand, ast.Call):
                call, kind, neg = t.operand, "iftest", True
            elif isinstance(t, ast.Call):
                call, kind = t, "iftest"
            if call is not None and self._callee(call, host_cls) is None:
                call, kind = None, None
        if call is not None:
            res = self._callee(call, host_cls)
            if res is not None:
                fn, cls, self_expr = res
                q = self._qual(cls, fn.name)
                if q not in stack:
                    if kind != "return" and not _returns_only_under_ifs(fn.body):
                        self.refused[q] = "return inside a loop / try / with"
                    elif kind == "return" and any(isinstance(n, ast.Return) for h in ast.walk(fn) if isinstance(h, ast.Try) for blk in [h.finalbody] for s_ in blk for n in ast.walk(s_)):
                        self.refused[q] = "return in finally"
                    else:
                        prefer = None
                        if kind == "assign" and len(st.targets) == 1 and isinstance(st.targets[0], ast.Name):
                            # `x = helper(..)` where the helper builds its result in a local and returns it at the end: the local *is* x
                            rets = [n for n in _own_nodes(fn) if isinstance(n, ast.Return)]
                            tgt = st.targets[0].id
                            if len(rets) == 1 and fn.body and fn.body[-1] is rets[0] and isinstance(rets[0].value, ast.Name):
                                v_ = rets[0].value.id
                                arg_names = {n.id for a_ in list(call.args) + [k.value for k in call.keywords] for n in ast.walk(a_) if isinstance(n, ast.Name)}
                                if v_ in _stores(fn) and v_ not in _params(fn) and tgt not in arg_names and (tgt == v_ or tgt not in _names(fn)):
                                    prefer = {v_: tgt}
                        bound = self._bind(fn, call, self_expr, host_names, prefer)
                        if bound is not None:
                            prologue, body = bound
                            if prefer and body and isinstance(body[-1], ast.Return) and isinstance(body[-1].value, ast.Name) and body[-1].value.id == st.targets[0].id:
                                body = body[:-1] + [ast.copy_location(ast.Return(value=ast.Name(id=st.targets[0].id, ctx=ast.Load())), st)]
                            if kind == "return":
                                new = prologue + body + ([] if _always_returns(body) else [ast.copy_location(ast.Return(value=None), st)])
                            else:
                                def make_exit(value, at, st=st, kind=kind, neg=neg):
                                    v = value if value is not None else ast.Constant(value=None)
                                    if kind == "iftest":
                                        # `if [not] helper(...): S else: T` -- each return of the helper decides the test: a constant decides
                                        # it here and now, anything else is tested in place
                                        if isinstance(v, ast.Constant):
                                            taken = bool(v.value) != neg
                                            return [copy.deepcopy(x) for x in (st.body if taken else st.orelse)]
                                        test = ast.UnaryOp(op=ast.Not(), operand=v) if neg else v
                                        return [ast.copy_location(ast.If(test=test, body=[copy.deepcopy(x) for x in st.body], orelse=[copy.deepcopy(x) for x in st.orelse]), st)]
                                    if kind == "expr":
                                        return [ast.copy_location(ast.Expr(value=v), st)] if isinstance(v, ast.Call) else []
                                    if kind == "assign":
                                        if len(st.targets) == 1 and isinstance(st.targets[0], ast.Name) and isinstance(v, ast.Name) and v.id == st.targets[0].id:
                                            return []  # the helper's result local already carries the target's name
                                        return [ast.copy_location(ast.Assign(targets=copy.deepcopy(st.targets), value=v), st)]
                                    if kind == "annassign":
                                        return [ast.copy_location(ast.AnnAssign(target=copy.deepcopy(st.target), annotation=st.annotation, value=v, simple=st.simple), st)]
                                    return [ast.copy_location(ast.AugAssign(target=copy.deepcopy(st.target), op=st.op, value=v), st)]
                                new = _fuse_copies(prologue + self._convert(body, make_exit))
                            if sum(1 for s_ in new for _n in ast.walk(s_)) > 6000:
                                self.refused[q] = "expansion too large"
                                return None
                            self.expanded[q] = self.expanded.get(q, 0) + 1
                            # the expanded code stands at the call site: positions in the host stay monotone (rules compare line numbers)
                            for s_ in new:
                                for n_ in ast.walk(s_):
                                    if hasattr(n_, "lineno") or isinstance(n_, (ast.stmt, ast.expr)):
                                        n_.lineno = getattr(st, "lineno", 1)
                                        n_.end_lineno = getattr(st, "end_lineno", n_.lineno)
                                        n_.col_offset = 0
                                        n_.end_col_offset = 0
                            # the expanded body may call further new helpers
                            names2 = self._host_names_from(host_names, new)
                            return self.expand_block(new, host_cls, names2, stack | {q})
        # a call inside the statement that can be hoisted in front of it
        hoisted = self._hoist(st, host_cls, host_names, stack)
        if hoisted is not None:
            return hoisted
        return None

    def _expand_with(self, st, host_cls, host_names, stack):
        """`with helper(a) [as v]: BODY` for a new @contextmanager helper with one statement-level yield: the helper's body with BODY in the
        place of the yield (the usual try / yield / finally becomes try / BODY / finally)"""
        call = st.items[0].context_expr
        f = call.func
        fn = None
        if isinstance(f, ast.Name) and f.id in self.funcs:
            fn, cls, self_expr = self.funcs[f.id], None, None
        elif isinstance(f, ast.Attribute) and isinstance(f.value, ast.Name) and f.value.id == "self" and host_cls and (host_cls, f.attr) in self.methods:
            fn, cls, self_expr = self.methods[(host_cls, f.attr)], host_cls, f.value
        if fn is None:
            return None
        q = self._qual(cls, fn.name)
        if q in self.known or q in stack or not fn.name.startswith("_"):
            return None
        decos = [ast.unparse(d).split(".")[-1] for d in fn.decorator_list]
        if decos != ["contextmanager"] or fn.args.vararg or fn.args.kwarg:
            return None
        yields = [n for n in _own_nodes(fn) if isinstance(n, (ast.Yield, ast.YieldFrom))]
        ystmts = [x for x in ast.walk(fn) if isinstance(x, ast.Expr) and isinstance(x.value, ast.Yield)]
        if len(yields) != 1 or len(ystmts) != 1 or any(isinstance(n, ast.Return) and n.value is not None for n in _own_nodes(fn)) or any(isinstance(n, (ast.Global, ast.Nonlocal)) for n in ast.walk(fn)):
            self.refused[q] = "context manager with other than one plain yield statement"
            return None
        real_decos = fn.decorator_list
        fn.decorator_list = []
        try:
            bound = self._bind(fn, call, self_expr, host_names)
        finally:
            fn.decorator_list = real_decos
        if bound is None:
            return None
        prologue, body = bound
        with_body = st.body
        as_var = st.items[0].optional_vars

        def put(stmts):
            out = []
            for x in stmts:
                if isinstance(x, ast.Expr) and isinstance(x.value, ast.Yield):
                    if as_var is not None:
                        out.append(ast.copy_location(ast.Assign(targets=[as_var], value=x.value.value or ast.Constant(value=None)), st))
                    out.extend(with_body)
                    continue
                for fld in ("body", "orelse", "finalbody"):
                    b = getattr(x, fld, None)
                    if isinstance(b, list) and b and isinstance(b[0], ast.stmt):
                        setattr(x, fld, put(b))
                for h in getattr(x, "handlers", []) or []:
                    h.body = put(h.body)
                out.append(x)
            return out

        new = prologue + put(body)
        # a bare `return` of the generator after the yield ends the manager: nothing follows it in the with statement either
        new = [x for x in new if not (isinstance(x, ast.Return) and x.value is None)] if not any(isinstance(n, ast.Return) for x in new for n in ast.walk(x) if n is not x) else new
        if any(isinstance(n, ast.Return) and n.value is None for x in new for n in ast.walk(x)) and not all(isinstance(n, ast.Return) and n.value is None for x in new for n in ast.walk(x) if isinstance(n, ast.Return)):
            return None
        self.expanded[q] = self.expanded.get(q, 0) + 1
        for s_ in new:
            ast.fix_missing_locations(s_)
        return self.expand_block(new, host_cls, self._host_names_from(host_names, new), stack | {q})

    def _host_names_from(self, host_names, stmts):
        extra_st, extra_all = set(), set()
        for s_ in stmts:
            extra_st |= _stores(ast.Module(body=[s_], type_ignores=[]))
            extra_all |= _names(s_)
        return {"stores": host_names["stores"] | extra_st, "params": host_names["params"], "all": host_names["all"] | extra_all | extra_st}

    def _first_call(self, e, host_cls, stack):
        """the expandable call that is evaluated in `e` before anything with an effect, or None"""
        if isinstance(e, ast.Call):
            res = self._callee(e, host_cls)
            if res is not None and self._qual(res[1], res[0].name) not in stack:
                return e
            # func and arguments are evaluated left to right
            if not _simple(e.func):
                if isinstance(e.func, ast.Attribute):
                    c = self._first_call(e.func.value, host_cls, stack)
                    if c is not None:
                        return c
                    if not _simple(e.func.value):
                        return None
                else:
                    return None
            for a in list(e.args) + [k.value for k in e.keywords]:
                if _simple(a):
                    continue
                return self._first_call(a, host_cls, stack)
            return None
        if isinstance(e, ast.BoolOp):
            return self._first_call(e.values[0], host_cls, stack)
        if isinstance(e, ast.UnaryOp):
            return self._first_call(e.operand, host_cls, stack)
        if isinstance(e, ast.BinOp):
            if _simple(e.left):
                return self._first_call(e.right, host_cls, stack)
            return self._first_call(e.left, host_cls, stack)
        if isinstance(e, ast.Compare):
            if _simple(e.left):
                for c in e.comparators:
                    if _simple(c):
                        continue
                    return self._first_call(c, host_cls, stack) if len(e.comparators) == 1 else None
                return None
            return self._first_call(e.left, host_cls, stack)
        if isinstance(e, ast.Attribute):
            return self._first_call(e.value, host_cls, stack)
        if isinstance(e, ast.Subscript):
            if _simple(e.value):
                return self._first_call(e.slice, host_cls, stack) if not isinstance(e.slice, ast.Slice) else None
            return self._first_call(e.value, host_cls, stack)
        if isinstance(e, (ast.Tuple, ast.List)):
            for x in e.elts:
                if _simple(x):
                    continue
                return self._first_call(x, host_cls, stack)
            return None
        if isinstance(e, ast.JoinedStr):
            for v in e.values:
                if isinstance(v, ast.FormattedValue):
                    if _simple(v.value):
                        continue
                    return self._first_call(v.value, host_cls, stack)
            return None
        if isinstance(e, ast.Starred):
            return self._first_call(e.value, host_cls, stack)
        return None

    def _hoist(self, st, host_cls, host_names, stack):
        slot = None
        if isinstance(st, (ast.Expr, ast.Return)) and st.value is not None:
            slot = ("value", st.value)
        elif isinstance(st, (ast.Assign, ast.AnnAssign, ast.AugAssign)) and st.value is not None and all(_simple(t) or isinstance(t, (ast.Tuple, ast.Name)) for t in (st.targets if isinstance(st, ast.Assign) else [st.target])):
            slot = ("value", st.value)
        elif isinstance(st, ast.If):
            slot = ("test", st.test)
        elif isinstance(st, ast.For):
            slot = ("iter", st.iter)
        elif isinstance(st, ast.Raise) and st.exc is not None:
            slot = ("exc", st.exc)
        if slot is None:
            return None
        fld, e = slot
        c = self._first_call(e, host_cls, stack)
        if c is None or c is e and not isinstance(st, (ast.If, ast.For, ast.Raise)):
            return None
        self.counter += 1
        tmp = f"__v{self.counter}"
        asg = ast.copy_location(ast.Assign(targets=[ast.Name(id=tmp, ctx=ast.Store())], value=c), st)

        class Rep(ast.NodeTransformer):
            def visit_Call(self_, node):
                if node is c:
                    return ast.copy_location(ast.Name(id=tmp, ctx=ast.Load()), node)
                return self_.generic_visit(node)

        setattr(st, fld, Rep().visit(e))
        first = self.expand_stmt(asg, host_cls, host_names, stack)
        if first is None:
            # nothing could be expanded after all: undo
            class Undo(ast.NodeTransformer):
                def visit_Name(self_, node):
                    return c if node.id == tmp else node

            setattr(st, fld, Undo().visit(getattr(st, fld)))
            return None
        ast.fix_missing_locations(st)
        # a simple statement is sunk into the exits: `tmp = V` at the end of a path becomes the statement with V in the place of the call
        # (`xs.extend(helper(a))` with `return [a]` / `return [a] * n` in the helper -> `if ..: xs.extend([a]) else: xs.extend([a] * n)`)
        uses = sum(1 for n in ast.walk(st) if isinstance(n, ast.Name) and n.id == tmp)
        n_exits = sum(1 for f in first for n in ast.walk(f) if isinstance(n, ast.Assign) and len(n.targets) == 1 and isinstance(n.targets[0], ast.Name) and n.targets[0].id == tmp)
        if isinstance(st, (ast.Expr, ast.Assign, ast.AugAssign, ast.AnnAssign, ast.Return, ast.Raise)) and uses == 1 and 1 <= n_exits <= 6:
            def with_value(v):
                class Put(ast.NodeTransformer):
                    def visit_Name(self_, node):
                        return copy.deepcopy(v) if node.id == tmp else node

                return ast.fix_missing_locations(Put().visit(copy.deepcopy(st)))

            def sink(stmts):
                out = []
                for f in stmts:
                    if isinstance(f, ast.Assign) and len(f.targets) == 1 and isinstance(f.targets[0], ast.Name) and f.targets[0].id == tmp:
                        out.append(with_value(f.value))
                        continue
                    for fld_ in ("body", "orelse", "finalbody"):
                        b = getattr(f, fld_, None)
                        if isinstance(b, list) and b and isinstance(b[0], ast.stmt):
                            setattr(f, fld_, sink(b))
                    for h in getattr(f, "handlers", []) or []:
                        h.body = sink(h.body)
                    out.append(f)
                return out

            sunk = sink(first)
            return self.expand_block(sunk, host_cls, self._host_names_from(host_names, sunk), stack)
        rest = self.expand_stmt(st, host_cls, self._host_names_from(host_names, first), stack)
        return first + (rest if rest is not None else [st])

    def expand_block(self, body, host_cls, host_names, stack):
        if len(stack) > MAX_DEPTH:
            return body
        out = []
        for st in body:
            # nested blocks first
            if not isinstance(st, (ast.FunctionDef, ast.AsyncFunctionDef, ast.ClassDef)):
                for fld in ("body", "orelse", "finalbody"):
                    b = getattr(st, fld, None)
                    if isinstance(b, list) and b and isinstance(b[0], ast.stmt):
                        setattr(st, fld, self.expand_block(b, host_cls, host_names, stack))
                for h in getattr(st, "handlers", []) or []:
                    h.body = self.expand_block(h.body, host_cls, host_names, stack)
                for case in getattr(st, "cases", []) or []:
                    case.body = self.expand_block(case.body, host_cls, host_names, stack)
            new = self.expand_stmt(st, host_cls, host_names, stack)
            if new is not None:
                # names the expansion brought in belong to the host from here on (a second expansion must not reuse them)
                upd = self._host_names_from(host_names, new)
                host_names["stores"], host_names["all"] = upd["stores"], upd["all"]
            out.extend(new if new is not None else [st])
        return out

    # ------------------------------------------------------------------ expression-level expansion
    def expand_expression_calls(self, fn, host_cls, own_qual):
        """A new helper whose body is one `return <expr>` is an abbreviation: a call of it is replaced by the expression wherever it
        stands (inside a comprehension, a lambda, an argument list), parameters substituted -- defaults included, which is where a dropped
        keyword shows. Arguments must be simple or pure; names the expression binds itself are renamed when they clash."""
        host_all = _names(fn)
        inl = self

        class X(ast.NodeTransformer):
            def visit_FunctionDef(self_, node):
                return node if node is not fn else self_.generic_visit(node)

            visit_AsyncFunctionDef = visit_ClassDef = visit_FunctionDef

            def visit_Call(self_, node):
                self_.generic_visit(node)
                res = inl._callee(node, host_cls)
                if res is None:
                    return node
                h, cls, self_expr = res
                q = inl._qual(cls, h.name)
                body = [st for st in h.body if not (isinstance(st, ast.Expr) and isinstance(st.value, ast.Constant))]
                if q == own_qual or len(body) != 1 or not isinstance(body[0], ast.Return) or body[0].value is None or h.args.kwarg or h.args.vararg:
                    return node
                a = h.args
                pos = [x.arg for x in a.posonlyargs + a.args]
                kwonly = [x.arg for x in a.kwonlyargs]
                if any(isinstance(x, ast.Starred) for x in node.args) or any(k.arg is None for k in node.keywords):
                    return node
                given = {}
                params = list(pos)
                if self_expr is not None:
                    if not params:
                        return node
                    given[params[0]] = self_expr
                    params = params[1:]
                if len(node.args) > len(params):
                    return node
                for p_, v in zip(params, node.args):
                    given[p_] = v
                for k in node.keywords:
                    if k.arg in given or k.arg not in pos + kwonly:
                        return node
                    given[k.arg] = k.value
                defaults = dict(zip(pos[len(pos) - len(a.defaults):], a.defaults))
                for p_, d in zip(kwonly, a.kw_defaults):
                    if d is not None:
                        defaults[p_] = d
                for p_ in pos + kwonly:
                    if p_ not in given:
                        if p_ not in defaults:
                            return node
                        given[p_] = defaults[p_]
                expr = copy.deepcopy(body[0].value)
                bound = {n.id for n in ast.walk(expr) if isinstance(n, ast.Name) and isinstance(n.ctx, ast.Store)} | {x.arg for x in ast.walk(expr) if isinstance(x, ast.arg)}
                arg_names = {n.id for v in given.values() for n in ast.walk(v) if isinstance(n, ast.Name)}
                for p_ in pos + kwonly:
                    v = given[p_]
                    uses = sum(1 for n in ast.walk(expr) if isinstance(n, ast.Name) and n.id == p_)
                    if not (_simple(v) or (_pure(v) and uses <= 1)):
                        return node
                inl.counter += 1
                mapping = {b: f"{b}__e{inl.counter}" for b in bound if b in host_all or b in arg_names}
                mapping.update({p_: given[p_] for p_ in pos + kwonly if p_ not in bound})
                inl.expanded[q] = inl.expanded.get(q, 0) + 1
                return ast.copy_location(_Subst(mapping).visit(expr), node)

        X().visit(fn)

    # ------------------------------------------------------------------ whole module
    def run(self) -> ast.Module:
        def host(fn, cls):
            names = {"stores": _stores(fn), "params": set(_params(fn)) | ({fn.args.vararg.arg} if fn.args.vararg else set()) | ({fn.args.kwarg.arg} if fn.args.kwarg else set()), "all": _names(fn)}
            own = self._qual(cls, fn.name)
            fn.body = self.expand_block(fn.body, cls, names, frozenset({own}))
            self.expand_expression_calls(fn, cls, own)
            for sub in _own_nodes(fn):
                if isinstance(sub, (ast.FunctionDef, ast.AsyncFunctionDef)):
                    host(sub, cls)

        def walk(body, cls):
            for st in body:
                if isinstance(st, (ast.FunctionDef, ast.AsyncFunctionDef)):
                    host(st, cls)
                elif isinstance(st, ast.ClassDef):
                    walk(st.body, st.name)
                elif isinstance(st, (ast.If, ast.Try)):
                    for fld in ("body", "orelse", "finalbody"):
                        walk(getattr(st, fld, []) or [], cls)

        walk(self.tree.body, None)
        return ast.fix_missing_locations(self.tree)


def inline_new_helpers(tree: ast.Module, known: set[str]):
    """-> (tree, {helper qual: number of expanded call sites}, {helper qual: why it stays a call})"""
    inl = Inliner(tree, known)
    new = {inl._qual(None, n) for n in inl.funcs} | {inl._qual(c, n) for c, n in inl.methods}
    if not (new - known):
        return tree, {}, {}
    # the pass works on a copy: whatever goes wrong inside it (a construct it was not written for, runaway growth), the module is analysed
    # as it was written -- a new helper then stays an opaque call, as it was before this pass existed
    work = copy.deepcopy(tree)
    inl = Inliner(work, known)
    try:
        work = inl.run()
        if sum(1 for _ in ast.walk(work)) > 40 * max(1, sum(1 for _ in ast.walk(tree))):
            raise OverflowError("expanded module grew beyond 40 times its size")
    except (Exception, RecursionError) as exc:  # noqa: BLE001
        return tree, {}, {"<module>": f"inlining pass abandoned ({type(exc).__name__}: {str(exc)[:80]})"}
    return work, inl.expanded, inl.refused


def remove_unreferenced(tree: ast.Module, expanded: dict[str, int], referenced_elsewhere: set[str]) -> list[str]:
    """drop the definitions of expanded helpers that nothing refers to any more; returns the removed quals"""
    removed = []
    names_used = set()
    for n in ast.walk(tree):
        if isinstance(n, ast.Name):
            names_used.add(n.id)
        elif isinstance(n, ast.Attribute):
            names_used.add(n.attr)
        elif isinstance(n, ast.Constant) and isinstance(n.value, str) and n.value.isidentifier():
            names_used.add(n.value)

    def prune(body, cls):
        keep = []
        for st in body:
            if isinstance(st, ast.FunctionDef):
                q = f"{cls}.{st.name}" if cls else st.name
                if q in expanded and st.name not in names_used and st.name not in referenced_elsewhere:
                    removed.append(q)
                    continue
            elif isinstance(st, ast.ClassDef):
                st.body = prune(st.body, st.name) or [ast.Pass()]
            keep.append(st)
        return keep

    # names used inside the helper definitions themselves do not count for the helper's own name
    tree.body = prune(tree.body, None)
    return removed
