"""Loader: parses every analysed module of the repository from the working tree.

No repository code is imported or executed.  An *overlay* (rel path -> source text) lets the
self-test analyse a mutated variant of a file without touching the disk.
"""
from __future__ import annotations

import ast
import os
from dataclasses import dataclass, field

PKG = "sharepoint2text"
EXCLUDE_DIRS = {"tests", "__pycache__"}
EXCLUDE_FILES = {os.path.join(PKG, "sharepoint_io", "run_test_setup.py")}

EXTR = "sharepoint2text/parsing/extractors/"


_INVENTORY = os.path.join(os.path.dirname(os.path.dirname(os.path.abspath(__file__))), "inventory.json")


def _load_inventory():
    """{rel path: [function quals]} of the reference tree (tools/gen_inventory.py); None when the file is absent"""
    import json

    if os.environ.get("SA_NO_INLINE") == "1" or not os.path.exists(_INVENTORY):
        return None
    with open(_INVENTORY, "r", encoding="utf-8") as fh:
        d = json.load(fh)
    global _INVENTORY_LOCALS, _INVENTORY_SHAPES
    _INVENTORY_LOCALS = d.get("locals", {})
    _INVENTORY_SHAPES = d.get("bindings", {})
    global _INVENTORY_NESTED
    _INVENTORY_NESTED = d.get("nested_comprehensions", {})
    return d["functions"]


_INVENTORY_LOCALS: dict = {}
_INVENTORY_SHAPES: dict = {}
_INVENTORY_NESTED: dict = {}


class AnalysisError(Exception):
    """Analyser cannot decide (vanished anchor, unrecognised idiom, unparsable file)."""


class AnchorMissing(AnalysisError):
    pass


@dataclass
class FuncInfo:
    module: "Module"
    qual: str  # "Class.method" / "func" / "func.<locals>.inner"
    node: ast.AST  # FunctionDef / AsyncFunctionDef
    cls: "ClassInfo | None" = None
    parent: "FuncInfo | None" = None

    @property
    def key(self) -> str:
        return f"{self.module.rel}::{self.qual}"

    @property
    def name(self) -> str:
        return self.node.name

    def is_generator(self) -> bool:
        for n in walk_own(self.node):
            if isinstance(n, (ast.Yield, ast.YieldFrom)):
                return True
        return False


@dataclass
class ClassInfo:
    module: "Module"
    name: str
    node: ast.ClassDef
    bases: list[str] = field(default_factory=list)  # dotted names as written
    methods: dict[str, FuncInfo] = field(default_factory=dict)
    fields: dict[str, tuple[ast.AST | None, ast.AST | None]] = field(default_factory=dict)  # name -> (annotation, default)
    is_dataclass: bool = False

    @property
    def key(self) -> str:
        return f"{self.module.rel}::{self.name}"


@dataclass
class Module:
    rel: str  # path relative to repo root, posix
    modname: str
    src: str
    tree: ast.Module
    functions: dict[str, FuncInfo] = field(default_factory=dict)
    classes: dict[str, ClassInfo] = field(default_factory=dict)
    imports: dict[str, str] = field(default_factory=dict)  # local name -> dotted target
    assigns: dict[str, ast.AST] = field(default_factory=dict)  # module-level NAME -> value node (last)
    ann: dict[str, ast.AST] = field(default_factory=dict)


def walk_own(fn: ast.AST):
    """Walk the body of a function without descending into nested defs/lambdas/classes."""
    stack = list(ast.iter_child_nodes(fn))
    while stack:
        n = stack.pop()
        yield n
        if isinstance(n, (ast.FunctionDef, ast.AsyncFunctionDef, ast.Lambda, ast.ClassDef)):
            continue
        stack.extend(ast.iter_child_nodes(n))


def dotted(node: ast.AST) -> str | None:
    """a.b.c -> 'a.b.c' for Name/Attribute chains; otherwise None."""
    parts = []
    while isinstance(node, ast.Attribute):
        parts.append(node.attr)
        node = node.value
    if isinstance(node, ast.Name):
        parts.append(node.id)
        return ".".join(reversed(parts))
    return None


def norm(node: ast.AST | str) -> str:
    """Normalised text of a construct (whitespace/quote independent)."""
    if isinstance(node, str):
        return " ".join(node.split())
    try:
        return " ".join(ast.unparse(node).split())
    except Exception:  # pragma: no cover
        return repr(node)


def short(node: ast.AST | str, n: int = 160) -> str:
    s = norm(node)
    return s if len(s) <= n else s[: n - 3] + "..."


class Project:
    def __init__(self, root: str, overlay: dict[str, str] | None = None):
        self.root = os.path.abspath(root)
        self.overlay = overlay or {}
        self.modules: dict[str, Module] = {}  # by modname
        self.by_rel: dict[str, Module] = {}
        self._load()

    # ------------------------------------------------------------------ loading
    def _iter_files(self):
        base = os.path.join(self.root, PKG)
        if not os.path.isdir(base):
            raise AnalysisError(f"package directory missing: {base}")
        for dp, dns, fns in os.walk(base):
            dns[:] = sorted(d for d in dns if d not in EXCLUDE_DIRS)
            for fn in sorted(fns):
                if not fn.endswith(".py"):
                    continue
                full = os.path.join(dp, fn)
                rel = os.path.relpath(full, self.root).replace(os.sep, "/")
                if rel in EXCLUDE_FILES:
                    continue
                yield rel, full
        for rel in self.overlay:
            if not os.path.exists(os.path.join(self.root, rel)):
                yield rel, None

    def _load(self):
        seen = set()
        parsed = []
        for rel, full in self._iter_files():
            if rel in seen:
                continue
            seen.add(rel)
            if rel in self.overlay:
                src = self.overlay[rel]
            else:
                with open(full, "r", encoding="utf-8") as fh:
                    src = fh.read()
            try:
                tree = ast.parse(src, filename=rel)
            except SyntaxError as exc:
                raise AnalysisError(f"cannot parse {rel}: {exc}") from exc
            parsed.append((rel, src, tree))
        # inlining normal form (engine/inline.py): private helpers the reference inventory does not know are expanded at their call sites
        self.inlined: dict[str, dict] = {}
        inventory = _load_inventory()
        if inventory is not None:
            from .inline import inline_new_helpers, remove_unreferenced

            done = []
            for idx_, (rel, src, tree) in enumerate(parsed):
                known = inventory.get(rel)
                if known is None:
                    continue
                tree2, expanded, refused = inline_new_helpers(tree, set(known))
                if tree2 is not tree:
                    parsed[idx_] = (rel, src, tree2)  # the pass works on a copy
                if expanded or refused:
                    self.inlined[rel] = {"expanded": expanded, "kept_as_calls": refused}
                    if expanded:
                        done.append((rel, tree2, expanded))
            for rel, tree2, expanded in done:
                elsewhere = set()
                for rel_o, _s, tree_o in parsed:
                    if rel_o != rel:
                        for n in ast.walk(tree_o):
                            if isinstance(n, ast.ImportFrom):
                                elsewhere.update(a.name for a in n.names)
                            elif isinstance(n, ast.Attribute):
                                elsewhere.add(n.attr)
                self.inlined[rel]["removed"] = remove_unreferenced(tree2, expanded, elsewhere)
            # alias normal form (engine/alias.py): new locals that only name a pure expression are replaced by it
            from .alias import substitute_new_aliases

            for rel, src, tree in parsed:
                ref = _INVENTORY_LOCALS.get(rel)
                if not ref:
                    continue
                for st in tree.body:
                    hosts = [(st.name, st)] if isinstance(st, (ast.FunctionDef, ast.AsyncFunctionDef)) else [(f"{st.name}.{x.name}", x) for x in st.body if isinstance(x, (ast.FunctionDef, ast.AsyncFunctionDef))] if isinstance(st, ast.ClassDef) else []
                    for q, fn in hosts:
                        if q in ref:
                            try:
                                names = substitute_new_aliases(fn, set(ref[q]), set(_INVENTORY_SHAPES.get(rel, {}).get(q, [])))
                            except (Exception, RecursionError):  # noqa: BLE001 -- the function is analysed as written
                                names = []
                            if names:
                                self.inlined.setdefault(rel, {}).setdefault("aliases", {})[q] = names
        for rel, src, tree in parsed:
            tree = canonicalise(tree, set(_INVENTORY_NESTED.get(rel, [])) if inventory is not None and rel in _INVENTORY_NESTED else None)
            modname = rel[:-3].replace("/", ".")
            if modname.endswith(".__init__"):
                modname = modname[: -len(".__init__")]
            m = Module(rel=rel, modname=modname, src=src, tree=tree)
            self._index(m)
            self.modules[modname] = m
            self.by_rel[rel] = m

    def _index(self, m: Module):
        for node in m.tree.body:
            self._index_stmt(m, node)

        def visit(body, prefix, cls, parent):
            for node in body:
                if isinstance(node, (ast.FunctionDef, ast.AsyncFunctionDef)):
                    qual = f"{prefix}{node.name}"
                    fi = FuncInfo(m, qual, node, cls=cls, parent=parent)
                    m.functions[qual] = fi
                    if cls is not None and parent is None:
                        cls.methods[node.name] = fi
                    # nested defs anywhere in the body
                    for sub in walk_own(node):
                        if isinstance(sub, (ast.FunctionDef, ast.AsyncFunctionDef)):
                            visit([sub], f"{qual}.<locals>.", cls, fi)
                        elif isinstance(sub, ast.ClassDef):
                            visit([sub], f"{qual}.<locals>.", None, fi)
                elif isinstance(node, ast.ClassDef):
                    ci = ClassInfo(m, f"{prefix}{node.name}", node)
                    ci.bases = [dotted(b) or norm(b) for b in node.bases]
                    for dec in node.decorator_list:
                        d = dotted(dec.func if isinstance(dec, ast.Call) else dec) or ""
                        if d.split(".")[-1] == "dataclass":
                            ci.is_dataclass = True
                    for st in node.body:
                        if isinstance(st, ast.AnnAssign) and isinstance(st.target, ast.Name):
                            ci.fields[st.target.id] = (st.annotation, st.value)
                        elif isinstance(st, ast.Assign):
                            for t in st.targets:
                                if isinstance(t, ast.Name):
                                    ci.fields.setdefault(t.id, (None, st.value))
                    m.classes[ci.name] = ci
                    visit(node.body, f"{ci.name}.", ci, None)
                elif isinstance(node, (ast.If, ast.Try)):
                    # module-level conditional definitions
                    for fld in ("body", "orelse", "finalbody"):
                        visit(getattr(node, fld, []) or [], prefix, cls, parent)
                    for h in getattr(node, "handlers", []) or []:
                        visit(h.body, prefix, cls, parent)

        visit(m.tree.body, "", None, None)

    def _index_stmt(self, m: Module, node: ast.AST):
        if isinstance(node, ast.Import):
            for a in node.names:
                m.imports[a.asname or a.name.split(".")[0]] = a.name if a.asname else a.name.split(".")[0]
        elif isinstance(node, ast.ImportFrom):
            base = node.module or ""
            if node.level:
                pkg = m.modname.split(".")
                if not m.rel.endswith("__init__.py"):
                    pkg = pkg[:-1]
                pkg = pkg[: len(pkg) - (node.level - 1)]
                base = ".".join(pkg + ([node.module] if node.module else []))
            for a in node.names:
                m.imports[a.asname or a.name] = f"{base}.{a.name}"
        elif isinstance(node, ast.Assign):
            for t in node.targets:
                if isinstance(t, ast.Name):
                    m.assigns[t.id] = node.value
        elif isinstance(node, ast.AnnAssign) and isinstance(node.target, ast.Name):
            m.ann[node.target.id] = node.annotation
            if node.value is not None:
                m.assigns[node.target.id] = node.value
        elif isinstance(node, (ast.If, ast.Try)):
            for fld in ("body", "orelse", "finalbody"):
                for st in getattr(node, fld, []) or []:
                    self._index_stmt(m, st)
            for h in getattr(node, "handlers", []) or []:
                for st in h.body:
                    self._index_stmt(m, st)

    # ------------------------------------------------------------------ lookup
    def module(self, rel: str) -> Module:
        m = self.by_rel.get(rel)
        if m is None:
            raise AnchorMissing(f"module vanished: {rel}")
        return m

    def func(self, rel: str, qual: str) -> FuncInfo:
        m = self.module(rel)
        f = m.functions.get(qual)
        if f is None:
            raise AnchorMissing(f"function vanished: {rel}::{qual}")
        return f

    def maybe_func(self, rel: str, qual: str) -> FuncInfo | None:
        m = self.by_rel.get(rel)
        return m.functions.get(qual) if m else None

    def cls(self, rel: str, name: str) -> ClassInfo:
        m = self.module(rel)
        c = m.classes.get(name)
        if c is None:
            raise AnchorMissing(f"class vanished: {rel}::{name}")
        return c

    def all_functions(self):
        for m in self.modules.values():
            yield from m.functions.values()

    def all_classes(self):
        for m in self.modules.values():
            yield from m.classes.values()

    def resolve_import(self, m: Module, name: str):
        """Resolve a local name of module m to ('func'|'class'|'module'|'const', object) inside the repo."""
        if name in m.functions and "." not in name:
            return ("func", m.functions[name])
        if name in m.classes:
            return ("class", m.classes[name])
        tgt = m.imports.get(name)
        if tgt is None:
            if name in m.assigns:
                return ("const", (m, name))
            return None
        if tgt in self.modules:
            return ("module", self.modules[tgt])
        if "." in tgt:
            modname, attr = tgt.rsplit(".", 1)
            mod = self.modules.get(modname)
            if mod is not None:
                if mod is m and attr == name:
                    return None
                if attr in mod.functions:
                    return ("func", mod.functions[attr])
                if attr in mod.classes:
                    return ("class", mod.classes[attr])
                if attr in mod.assigns:
                    return ("const", (mod, attr))
                if attr in mod.imports:
                    return self.resolve_import(mod, attr)
        return ("external", tgt)

    # class hierarchy -------------------------------------------------------
    def class_by_name(self, m: Module, name: str) -> ClassInfo | None:
        r = self.resolve_import(m, name.split(".")[0]) if name else None
        if r and r[0] == "class" and "." not in name:
            return r[1]
        if r and r[0] == "module" and "." in name:
            return r[1].classes.get(name.split(".", 1)[1])
        return None

    def mro(self, ci: ClassInfo) -> list[ClassInfo]:
        out, seen = [], set()

        def rec(c: ClassInfo):
            if c.key in seen:
                return
            seen.add(c.key)
            out.append(c)
            for b in c.bases:
                bc = self.class_by_name(c.module, b)
                if bc is not None:
                    rec(bc)

        rec(ci)
        return out

    def base_names(self, ci: ClassInfo) -> set[str]:
        """All base names (last dotted component), transitively through repo classes."""
        names = set()
        for c in self.mro(ci):
            for b in c.bases:
                names.add(b.split(".")[-1])
        return names

    def find_method(self, ci: ClassInfo, name: str) -> FuncInfo | None:
        for c in self.mro(ci):
            if name in c.methods:
                return c.methods[name]
        return None

    def subclasses_of(self, base_simple_name: str) -> list[ClassInfo]:
        return [c for c in self.all_classes() if base_simple_name in self.base_names(c)]


# ------------------------------------------------------------------------------------------------ alpha-invariant text
def local_names(fn: ast.AST) -> set[str]:
    """Names bound inside the function (assignments, loop / comprehension / with / except targets, walrus), parameters excluded."""
    params: set[str] = set()
    a = getattr(fn, "args", None)
    if a is not None:
        params = {x.arg for x in a.posonlyargs + a.args + a.kwonlyargs}
        if a.vararg:
            params.add(a.vararg.arg)
        if a.kwarg:
            params.add(a.kwarg.arg)
    out: set[str] = set()
    for n in ast.walk(fn):
        if isinstance(n, ast.Name) and isinstance(n.ctx, ast.Store):
            out.add(n.id)
        elif isinstance(n, ast.ExceptHandler) and n.name:
            out.add(n.name)
    return out - params


def anorm(node: ast.AST | str, fn: ast.AST | None = None, rename: set[str] | None = None) -> str:
    """`norm` with local variable names replaced by v0, v1, ... in order of first appearance in `node`.

    Two constructs that differ only in the spelling of local variables have the same anorm. `rename` (or the locals of `fn`)
    says which names are local; everything else (parameters, attributes, module-level names, builtins) is kept."""
    import copy
    if isinstance(node, str):
        node = ast.parse(node)
    names = set(rename) if rename is not None else (local_names(fn) if fn is not None else set())
    if fn is None and rename is None:
        names = {n.id for n in ast.walk(node) if isinstance(n, ast.Name) and isinstance(n.ctx, ast.Store)}
    tree = copy.deepcopy(node)
    order: dict[str, str] = {}
    class _R(ast.NodeTransformer):
        def visit_Name(self, n):
            if n.id in names:
                if n.id not in order:
                    order[n.id] = f"v{len(order)}"
                return ast.copy_location(ast.Name(id=order[n.id], ctx=n.ctx), n)
            return n
        def visit_ExceptHandler(self, n):
            self.generic_visit(n)
            if n.name in names:
                if n.name not in order:
                    order[n.name] = f"v{len(order)}"
                n.name = order[n.name]
            return n
    tree = _R().visit(tree)
    return norm(tree)


_LOG_OBJECTS = {"logger", "logging", "log", "_logger", "LOGGER"}
_LOG_LEVELS = {"debug", "info", "warning", "warn", "error", "exception", "critical", "log"}


def _pure_arg(e) -> bool:
    """An argument whose evaluation has no effect: constants, names, attribute chains, subscripts of those, len/str/repr/type of those."""
    if isinstance(e, (ast.Constant, ast.Name)):
        return True
    if isinstance(e, ast.Attribute):
        return _pure_arg(e.value)
    if isinstance(e, ast.Subscript):
        return _pure_arg(e.value) and _pure_arg(e.slice)
    if isinstance(e, ast.Call) and isinstance(e.func, ast.Name) and e.func.id in ("len", "str", "repr", "type") and not e.keywords:
        return all(_pure_arg(a) for a in e.args)
    if isinstance(e, (ast.Tuple, ast.List)):
        return all(_pure_arg(x) for x in e.elts)
    if isinstance(e, ast.JoinedStr):
        return all(_pure_arg(v.value) if isinstance(v, ast.FormattedValue) else True for v in e.values)
    return False


def is_noise(st) -> bool:
    """A statement that cannot change what a function computes: docstring / constant expression, `pass`, a logging call with effect-free arguments."""
    if isinstance(st, ast.Pass):
        return True
    if isinstance(st, ast.Expr):
        v = st.value
        if isinstance(v, ast.Constant):
            return True
        if isinstance(v, ast.Call) and isinstance(v.func, ast.Attribute) and v.func.attr in _LOG_LEVELS and isinstance(v.func.value, ast.Name) and v.func.value.id in _LOG_OBJECTS:
            return all(_pure_arg(a) for a in v.args) and all(_pure_arg(k.value) for k in v.keywords)
    return False


def effective_body(stmts):
    """The statements of a body without noise (see is_noise); a body that is only noise keeps its last statement."""
    out = [s for s in stmts if not is_noise(s)]
    return out if out or not stmts else [stmts[-1]]


class _Canon(ast.NodeTransformer):
    """Semantics-preserving normal form applied to every module before any rule sees it, so that two spellings of the same
    code give the same verdict:
      * `t = E` immediately followed by `return t`, (t not read in a finally, not captured, not global)  ->  `return E`
      * `if not C: A else: B` with both branches non-empty                                          ->  `if C: B else: A`
      * `if C: ...return/raise/continue/break` with an else branch                                  ->  the else branch follows the if
    Line numbers of the surviving nodes are kept."""

    def _blocked(self, fn):
        """Names whose assignment cannot be folded into a following return: read in a `finally`, captured by a nested function
        or lambda, or declared global / nonlocal."""
        out = set()
        for n in ast.walk(fn):
            if isinstance(n, (ast.Global, ast.Nonlocal)):
                out.update(n.names)
            elif n is not fn and isinstance(n, (ast.FunctionDef, ast.AsyncFunctionDef, ast.Lambda)):
                out.update(x.id for x in ast.walk(n) if isinstance(x, ast.Name))
            elif isinstance(n, ast.Try):
                for st in n.finalbody:
                    out.update(x.id for x in ast.walk(st) if isinstance(x, ast.Name))
        return out

    def _fold_body(self, body, blocked):
        out = []
        i = 0
        while i < len(body):
            st = body[i]
            nxt = body[i + 1] if i + 1 < len(body) else None
            if (isinstance(st, ast.Assign) and len(st.targets) == 1 and isinstance(st.targets[0], ast.Name) and isinstance(nxt, ast.Return)
                    and isinstance(nxt.value, ast.Name) and nxt.value.id == st.targets[0].id and st.targets[0].id not in blocked):
                out.append(ast.copy_location(ast.Return(value=st.value), st))
                i += 2
                continue
            out.append(st)
            i += 1
        return out

    @classmethod
    def _terminates(cls, body) -> bool:
        """Does control never fall out of the end of this statement list?"""
        if not body:
            return False
        last = body[-1]
        if isinstance(last, (ast.Return, ast.Raise, ast.Continue, ast.Break)):
            return True
        if isinstance(last, ast.If):
            return bool(last.orelse) and cls._terminates(last.body) and cls._terminates(last.orelse)
        if isinstance(last, ast.Try):
            if last.finalbody and cls._terminates(last.finalbody):
                return True
            main = cls._terminates(last.orelse) if last.orelse else cls._terminates(last.body)
            return main and all(cls._terminates(h.body) for h in last.handlers)
        if isinstance(last, ast.With):
            return cls._terminates(last.body)
        return False

    @staticmethod
    def _negate(t):
        return t.operand if isinstance(t, ast.UnaryOp) and isinstance(t.op, ast.Not) else ast.copy_location(ast.UnaryOp(op=ast.Not(), operand=t), t)

    def _hoist_else(self, body):
        """Two-branch ifs in normal form:
          * the `if` body never falls through            -> the else branch follows the if (`no else after return`)
          * only the else branch never falls through     -> test negated, branches swapped, then as above
          * both branches fall through                   -> a leading `not` of the test is removed by swapping the branches
        (An if/else whose branches BOTH never fall through keeps its orientation: `if C: return a / return b` and
        `if not C: return b / return a` stay two different spellings.)"""
        out = []
        for st in body:
            if isinstance(st, ast.If) and st.body and st.orelse:
                tb, te = self._terminates(st.body), self._terminates(st.orelse)
                if te and not tb:
                    st.test, st.body, st.orelse = self._negate(st.test), st.orelse, st.body
                    tb, te = True, False
                elif not tb and not te and isinstance(st.test, ast.UnaryOp) and isinstance(st.test.op, ast.Not):
                    st.test, st.body, st.orelse = st.test.operand, st.orelse, st.body
                if tb:
                    tail = st.orelse
                    st.orelse = []
                    out.append(st)
                    out.extend(self._hoist_else(tail))
                    continue
            out.append(st)
        return out

    @staticmethod
    def _join_branches(body):
        """`if C: x = A else: x = B` (one plain assignment to the same name on either side)  ->  `x = A if C else B`"""
        out = []
        for st in body:
            if (isinstance(st, ast.If) and len(st.body) == 1 and len(st.orelse) == 1 and all(isinstance(b, ast.Assign) and len(b.targets) == 1 and isinstance(b.targets[0], ast.Name) for b in (st.body[0], st.orelse[0]))
                    and st.body[0].targets[0].id == st.orelse[0].targets[0].id):
                val = ast.copy_location(ast.IfExp(test=st.test, body=st.body[0].value, orelse=st.orelse[0].value), st)
                out.append(ast.copy_location(ast.Assign(targets=[st.body[0].targets[0]], value=val), st))
            else:
                out.append(st)
        return out

    @staticmethod
    def _filtered_iteration(body, fn):
        """`for t in (v for v in IT if C): B` (also with the generator bound to a local read only by the loop)
        ->  `for t in IT: if not C[v := t]: continue; B`"""
        import copy

        out = []
        i = 0
        while i < len(body):
            st = body[i]
            gen, skip = None, 0
            if isinstance(st, ast.For) and isinstance(st.iter, ast.GeneratorExp):
                gen = st.iter
            elif (isinstance(st, ast.Assign) and len(st.targets) == 1 and isinstance(st.targets[0], ast.Name) and isinstance(st.value, ast.GeneratorExp) and i + 1 < len(body)
                  and isinstance(body[i + 1], ast.For) and isinstance(body[i + 1].iter, ast.Name) and body[i + 1].iter.id == st.targets[0].id
                  and sum(1 for n in ast.walk(fn) if isinstance(n, ast.Name) and n.id == st.targets[0].id) == 2):
                gen, skip = st.value, 1
            loop = body[i + skip] if gen is not None else None
            if gen is not None and len(gen.generators) == 1 and not gen.generators[0].is_async and isinstance(gen.generators[0].target, ast.Name) and isinstance(gen.elt, ast.Name) \
                    and gen.elt.id == gen.generators[0].target.id and isinstance(loop.target, ast.Name) and not loop.orelse:
                g = gen.generators[0]
                v, t = g.target.id, loop.target.id

                class Ren(ast.NodeTransformer):
                    def visit_Name(self, n):
                        return ast.copy_location(ast.Name(id=t, ctx=n.ctx), n) if n.id == v else n

                guards = []
                for c in g.ifs:
                    test = Ren().visit(copy.deepcopy(c))
                    neg = test.operand if isinstance(test, ast.UnaryOp) and isinstance(test.op, ast.Not) else ast.UnaryOp(op=ast.Not(), operand=test)
                    guards.append(ast.copy_location(ast.If(test=neg, body=[ast.copy_location(ast.Continue(), loop)], orelse=[]), loop))
                loop.iter = g.iter
                loop.body = guards + loop.body
                ast.fix_missing_locations(loop)
                out.append(loop)
                i += 1 + skip
                continue
            out.append(st)
            i += 1
        return out

    @staticmethod
    def _search_loop(body):
        """`return next((E for t in IT if C), D)`  ->  `for t in IT: if C: return E` followed by `return D`"""
        out = []
        for st in body:
            v = st.value if isinstance(st, ast.Return) else None
            if (isinstance(v, ast.Call) and isinstance(v.func, ast.Name) and v.func.id == "next" and len(v.args) == 2 and not v.keywords and isinstance(v.args[0], ast.GeneratorExp)
                    and len(v.args[0].generators) == 1 and not v.args[0].generators[0].is_async):
                g = v.args[0].generators[0]
                hit = ast.copy_location(ast.Return(value=v.args[0].elt), st)
                inner = [hit]
                if g.ifs:
                    test = g.ifs[0] if len(g.ifs) == 1 else ast.BoolOp(op=ast.And(), values=list(g.ifs))
                    inner = [ast.copy_location(ast.If(test=test, body=[hit], orelse=[]), st)]
                out.append(ast.fix_missing_locations(ast.copy_location(ast.For(target=g.target, iter=g.iter, body=inner, orelse=[]), st)))
                for n in ast.walk(out[-1].target):
                    if isinstance(n, ast.Name):
                        n.ctx = ast.Store()
                out.append(ast.copy_location(ast.Return(value=v.args[1]), st))
            else:
                out.append(st)
        return out

    @staticmethod
    def _extend_loop(body):
        """`xs.extend(E for t in IT if C)` (generator or list comprehension, one for clause)  ->  `for t in IT: if C: xs.append(E)`"""
        out = []
        for st in body:
            c = st.value if isinstance(st, ast.Expr) else None
            if (isinstance(c, ast.Call) and isinstance(c.func, ast.Attribute) and c.func.attr == "extend" and len(c.args) == 1 and not c.keywords and isinstance(c.args[0], (ast.GeneratorExp, ast.ListComp))
                    and len(c.args[0].generators) == 1 and not c.args[0].generators[0].is_async and isinstance(c.func.value, (ast.Name, ast.Attribute))):
                g = c.args[0].generators[0]
                app = ast.copy_location(ast.Expr(value=ast.copy_location(ast.Call(func=ast.Attribute(value=c.func.value, attr="append", ctx=ast.Load()), args=[c.args[0].elt], keywords=[]), st)), st)
                inner = [app]
                if g.ifs:
                    test = g.ifs[0] if len(g.ifs) == 1 else ast.BoolOp(op=ast.And(), values=list(g.ifs))
                    inner = [ast.copy_location(ast.If(test=test, body=[app], orelse=[]), st)]
                loop = ast.copy_location(ast.For(target=g.target, iter=g.iter, body=inner, orelse=[]), st)
                for n in ast.walk(loop.target):
                    if isinstance(n, (ast.Name, ast.Tuple, ast.List)):
                        n.ctx = ast.Store()
                out.append(ast.fix_missing_locations(loop))
            else:
                out.append(st)
        return out

    @staticmethod
    def _append_form(body):
        """`xs.extend([e])` (a one-element list display)  ->  `xs.append(e)`"""
        for st in body:
            if isinstance(st, ast.Expr) and isinstance(st.value, ast.Call) and isinstance(st.value.func, ast.Attribute) and st.value.func.attr == "extend" and len(st.value.args) == 1 and not st.value.keywords \
                    and isinstance(st.value.args[0], ast.List) and len(st.value.args[0].elts) == 1 and not isinstance(st.value.args[0].elts[0], ast.Starred):
                st.value.func.attr = "append"
                st.value.args = [st.value.args[0].elts[0]]
        return body

    def _canon_fn(self, node):
        cnt = self._blocked(node)
        for sub in ast.walk(node):
            if sub is not node and isinstance(sub, (ast.FunctionDef, ast.AsyncFunctionDef, ast.Lambda, ast.ClassDef)):
                continue
            for f in ("body", "orelse", "finalbody"):
                b = getattr(sub, f, None)
                if isinstance(b, list) and b and isinstance(b[0], ast.stmt):
                    setattr(sub, f, self._fold_body(self._join_branches(self._hoist_else(self._append_form(self._extend_loop(self._search_loop(self._filtered_iteration(b, node)))))), cnt))
            if isinstance(sub, ast.Try):
                for h in sub.handlers:
                    h.body = self._fold_body(self._join_branches(self._hoist_else(h.body)), cnt)

    def visit_Call(self, node):
        """`x.endswith(tuple(S))` / `x.startswith(tuple(S))`  ->  `any(x.endswith(e) for e in S)` (the same question, asked element by
        element: no order of S is fixed)"""
        self.generic_visit(node)
        f = node.func
        if (isinstance(f, ast.Attribute) and f.attr in ("endswith", "startswith") and len(node.args) == 1 and not node.keywords and isinstance(node.args[0], ast.Call)
                and isinstance(node.args[0].func, ast.Name) and node.args[0].func.id == "tuple" and len(node.args[0].args) == 1 and not node.args[0].keywords
                and isinstance(f.value, (ast.Name, ast.Attribute))):
            e = ast.Name(id="_each", ctx=ast.Load())
            inner = ast.Call(func=ast.Attribute(value=f.value, attr=f.attr, ctx=ast.Load()), args=[e], keywords=[])
            gen = ast.GeneratorExp(elt=inner, generators=[ast.comprehension(target=ast.Name(id="_each", ctx=ast.Store()), iter=node.args[0].args[0], ifs=[], is_async=0)])
            return ast.copy_location(ast.Call(func=ast.Name(id="any", ctx=ast.Load()), args=[gen], keywords=[]), node)
        return node

    def visit_FunctionDef(self, node):
        self.generic_visit(node)
        self._canon_fn(node)
        return node

    visit_AsyncFunctionDef = visit_FunctionDef


def _unnest_comprehensions(tree, keep: set[str]):
    """`return [[E for c in F(r)] for r in G]` / `x = [[...] ...]` in a function whose reference version had no nested list comprehension
    (`keep` lists the functions that had one)  ->  the two loops with appends. Tree walkers are read as loops; a grid built by a nested
    comprehension is the same traversal."""
    counter = [0]

    def loops_for(comp, sink):
        """statements that append every element of the list comprehension `comp` to the list named `sink`"""
        body = [ast.Expr(value=ast.Call(func=ast.Attribute(value=ast.Name(id=sink, ctx=ast.Load()), attr="append", ctx=ast.Load()), args=[comp.elt], keywords=[]))]
        if isinstance(comp.elt, ast.ListComp):
            counter[0] += 1
            inner = f"__row{counter[0]}"
            body = [ast.Assign(targets=[ast.Name(id=inner, ctx=ast.Store())], value=ast.List(elts=[], ctx=ast.Load()))] + loops_for(comp.elt, inner) + \
                [ast.Expr(value=ast.Call(func=ast.Attribute(value=ast.Name(id=sink, ctx=ast.Load()), attr="append", ctx=ast.Load()), args=[ast.Name(id=inner, ctx=ast.Load())], keywords=[]))]
        for g in reversed(comp.generators):
            if g.ifs:
                test = g.ifs[0] if len(g.ifs) == 1 else ast.BoolOp(op=ast.And(), values=list(g.ifs))
                body = [ast.If(test=test, body=body, orelse=[])]
            it, tgt, pre = g.iter, g.target, []
            if isinstance(it, ast.GeneratorExp) and len(it.generators) == 1 and not it.generators[0].ifs and isinstance(tgt, ast.Name):
                # for t in (E for v in IT): ...  ->  for v in IT: t = E; ...
                pre = [ast.Assign(targets=[ast.Name(id=tgt.id, ctx=ast.Store())], value=it.elt)]
                tgt, it = it.generators[0].target, it.generators[0].iter
            body = [ast.For(target=tgt, iter=it, body=pre + body, orelse=[])]
        return body

    def fix(fn):
        if fn.name in keep:
            return
        for blk_owner in ast.walk(fn):
            for fld in ("body", "orelse", "finalbody"):
                b = getattr(blk_owner, fld, None)
                if not (isinstance(b, list) and b and isinstance(b[0], ast.stmt)):
                    continue
                out = []
                for st in b:
                    v = st.value if isinstance(st, (ast.Return, ast.Assign)) else None
                    if isinstance(v, ast.ListComp) and isinstance(v.elt, ast.ListComp) and not any(g.is_async for c in (v, v.elt) for g in c.generators) \
                            and (isinstance(st, ast.Return) or (len(st.targets) == 1 and isinstance(st.targets[0], ast.Name))):
                        counter[0] += 1
                        sink = st.targets[0].id if isinstance(st, ast.Assign) else f"__grid{counter[0]}"
                        new = [ast.Assign(targets=[ast.Name(id=sink, ctx=ast.Store())], value=ast.List(elts=[], ctx=ast.Load()))] + loops_for(v, sink)
                        if isinstance(st, ast.Return):
                            new.append(ast.Return(value=ast.Name(id=sink, ctx=ast.Load())))
                        for n_ in new:
                            ast.copy_location(n_, st)
                            ast.fix_missing_locations(n_)
                        out.extend(new)
                    else:
                        out.append(st)
                setattr(blk_owner, fld, out)

    for n in ast.walk(tree):
        if isinstance(n, (ast.FunctionDef, ast.AsyncFunctionDef)):
            fix(n)
    return tree


def canonicalise(tree, keep_nested: set[str] | None = None):
    if keep_nested is not None:
        tree = _unnest_comprehensions(tree, keep_nested)
    for _ in range(3):  # hoisting and flipping enable each other; three rounds reach the fixpoint on nested ifs
        tree = _Canon().visit(tree)
    return ast.fix_missing_locations(tree)
