"""Alias normal form: a *new* local (one the reference inventory does not list for that function) that merely names a pure expression --
`size = len(file_data)`, `relabel = extractor is not read_archive`, `owns_stream = not info.is_directory and not empty[i]` -- is replaced
by that expression where it is read, and its definition is dropped.  The rules then see the tests and arguments they were written for.

Conditions (all checked; otherwise the local stays):
  * the function is known to the inventory and the name is not among its reference locals (code expanded from a new helper counts as new);
  * exactly one binding in the function, a plain `name = expr` statement; never deleted, not global / nonlocal, not captured by a nested
    function or lambda;
  * `expr` is pure (names, constants, attribute and item reads, operators, comparisons, conditional expressions, calls of a few builtins
    that only look at their arguments) and is not just a literal;
  * every read of the name lies in the statements that follow the binding in the same block (at any depth), at most four reads;
  * between the binding and the end of that block nothing rebinds a name `expr` mentions, and no attribute or item of such a name that
    `expr` reads is assigned.
"""
from __future__ import annotations

import ast
import copy

from .inline import _pure, _own_nodes

MAX_READS = 4


def _blocks(fn):
    """every statement list of the function itself (not of nested definitions)"""
    out = [fn.body]
    for n in _own_nodes(fn):
        for fld in ("body", "orelse", "finalbody"):
            b = getattr(n, fld, None)
            if isinstance(b, list) and b and isinstance(b[0], ast.stmt) and not isinstance(n, (ast.FunctionDef, ast.AsyncFunctionDef, ast.ClassDef)):
                out.append(b)
    return out


def binding_shapes(fn) -> list[str]:
    """alpha-normalised right-hand sides of the plain `name = expr` statements of a function (the inventory keeps them: a binding whose
    shape the reference function already had is not new, whatever its name is today)"""
    from .loader import anorm

    return sorted({anorm(st.value, fn) for st in _own_nodes(fn) if isinstance(st, ast.Assign) and len(st.targets) == 1 and isinstance(st.targets[0], ast.Name)})


def substitute_new_aliases(fn: ast.FunctionDef, reference_locals: set[str], reference_shapes: set[str] | None = None) -> list[str]:
    """rewrites fn in place; returns the names that were substituted"""
    from .loader import anorm

    done = []
    for _round in range(4):
        changed = False
        bindings: dict[str, list] = {}
        blocked = set()
        for n in ast.walk(fn):
            if isinstance(n, (ast.Global, ast.Nonlocal)):
                blocked.update(n.names)
            elif n is not fn and isinstance(n, (ast.FunctionDef, ast.AsyncFunctionDef, ast.Lambda, ast.ClassDef)):
                blocked.update(x.id for x in ast.walk(n) if isinstance(x, ast.Name))
            elif isinstance(n, ast.ExceptHandler) and n.name:
                blocked.add(n.name)
            elif isinstance(n, (ast.Import, ast.ImportFrom)):
                blocked.update((a.asname or a.name).split(".")[0] for a in n.names)
        params = {a.arg for a in ast.walk(fn.args) if isinstance(a, ast.arg)}
        for n in _own_nodes(fn):
            if isinstance(n, ast.Name) and isinstance(n.ctx, (ast.Store, ast.Del)):
                bindings.setdefault(n.id, []).append(n)
        for block in _blocks(fn):
            for k, st in enumerate(block):
                if not (isinstance(st, ast.Assign) and len(st.targets) == 1 and isinstance(st.targets[0], ast.Name)):
                    continue
                name = st.targets[0].id
                temp = name.startswith("__v")  # a temporary of the inlining pass
                if name in blocked or name in params or len(bindings.get(name, [])) != 1 or (name in reference_locals and not temp):
                    continue
                expr = st.value
                if isinstance(expr, ast.Constant) or not _pure(expr):
                    continue
                if not temp and reference_shapes is not None and anorm(expr, fn) in reference_shapes:
                    continue  # the reference function binds the same expression to a local (under whatever name)
                rest = block[k + 1:]
                reads_all = [x for x in _own_nodes(fn) if isinstance(x, ast.Name) and x.id == name and isinstance(x.ctx, ast.Load)]
                reads_rest = [x for s_ in rest for x in ast.walk(s_) if isinstance(x, ast.Name) and x.id == name and isinstance(x.ctx, ast.Load)]
                if not reads_all or len(reads_all) != len(reads_rest) or len(reads_all) > MAX_READS:
                    continue
                mentioned = {x.id for x in ast.walk(expr) if isinstance(x, ast.Name)}
                read_attrs = {(x.value.id, x.attr) for x in ast.walk(expr) if isinstance(x, ast.Attribute) and isinstance(x.value, ast.Name)}
                read_items = {x.value.id for x in ast.walk(expr) if isinstance(x, ast.Subscript) and isinstance(x.value, ast.Name)}
                clash = False
                for s_ in rest:
                    for x in ast.walk(s_):
                        if isinstance(x, ast.Name) and isinstance(x.ctx, (ast.Store, ast.Del)) and x.id in mentioned:
                            clash = True
                        elif isinstance(x, ast.Attribute) and isinstance(x.ctx, (ast.Store, ast.Del)) and isinstance(x.value, ast.Name) and (x.value.id, x.attr) in read_attrs:
                            clash = True
                        elif isinstance(x, ast.Subscript) and isinstance(x.ctx, (ast.Store, ast.Del)) and isinstance(x.value, ast.Name) and x.value.id in read_items:
                            clash = True
                        elif isinstance(x, ast.Call) and isinstance(x.func, ast.Attribute) and isinstance(x.func.value, ast.Name) and x.func.value.id in (read_items | {a for a, _ in read_attrs} & mentioned) \
                                and x.func.attr in ("append", "extend", "pop", "clear", "update", "insert", "remove", "sort", "reverse", "setdefault", "add", "discard", "seek", "read", "write"):
                            clash = True
                if clash:
                    continue

                class Put(ast.NodeTransformer):
                    def visit_Name(self, node):
                        if node.id == name and isinstance(node.ctx, ast.Load):
                            return ast.copy_location(copy.deepcopy(expr), node)
                        return node

                    def visit_FunctionDef(self, node):
                        return node

                    visit_AsyncFunctionDef = visit_Lambda = visit_ClassDef = visit_FunctionDef

                for i_, s_ in enumerate(rest):
                    block[k + 1 + i_] = Put().visit(s_)
                del block[k]
                if not block:
                    block.append(ast.Pass())
                done.append(name)
                changed = True
                break
            if changed:
                break
        if not changed:
            break
    if done:
        ast.fix_missing_locations(fn)
    return done
