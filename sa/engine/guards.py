"""Lexical path conditions and comparison normalisation (CMP-TABLE template)."""
from __future__ import annotations

import ast
from dataclasses import dataclass

from .loader import norm

_FLIP = {ast.Lt: ">", ast.Gt: "<", ast.LtE: ">=", ast.GtE: "<=", ast.Eq: "==", ast.NotEq: "!="}
_SYM = {ast.Lt: "<", ast.Gt: ">", ast.LtE: "<=", ast.GtE: ">=", ast.Eq: "==", ast.NotEq: "!=", ast.In: "in",
        ast.NotIn: "not in", ast.Is: "is", ast.IsNot: "is not"}
_NEG = {"<": ">=", ">": "<=", "<=": ">", ">=": "<", "==": "!=", "!=": "==", "in": "not in", "not in": "in",
        "is": "is not", "is not": "is"}


@dataclass(frozen=True)
class Cond:
    """One atomic condition in canonical form: (lhs op rhs) or truthiness of an expression."""
    lhs: str
    op: str  # one of < > <= >= == != in 'not in' is 'is not' 'truthy' 'falsy'
    rhs: str = ""

    def __str__(self):
        if self.op in ("truthy", "falsy"):
            return ("" if self.op == "truthy" else "not ") + self.lhs
        return f"{self.lhs} {self.op} {self.rhs}"

    def negate(self) -> "Cond":
        if self.op == "truthy":
            return Cond(self.lhs, "falsy")
        if self.op == "falsy":
            return Cond(self.lhs, "truthy")
        return Cond(self.lhs, _NEG[self.op], self.rhs)


def terminal(body) -> str | None:
    """'continue' / 'return' / 'raise' / 'break' if the block always leaves that way, else None."""
    if not body:
        return None
    last = body[-1]
    if isinstance(last, ast.Continue):
        return "continue"
    if isinstance(last, ast.Return):
        return "return"
    if isinstance(last, ast.Raise):
        return "raise"
    if isinstance(last, ast.Break):
        return "break"
    if isinstance(last, ast.If) and last.orelse:
        a, b = terminal(last.body), terminal(last.orelse)
        if a and b:
            return a if a == b else "mixed"
    return None


def atoms(test: ast.AST, positive: bool, subst=None) -> list[Cond] | None:
    """Conjunction of atomic conditions implied by `test` being `positive`.

    Returns None when the implication is not a plain conjunction (e.g. a true ``or``): the caller must then
    treat the guard as opaque.
    """
    subst = subst or (lambda e: norm(e))
    if isinstance(test, ast.UnaryOp) and isinstance(test.op, ast.Not):
        return atoms(test.operand, not positive, subst)
    if isinstance(test, ast.BoolOp):
        conj = isinstance(test.op, ast.And)
        if conj == positive:  # (a and b) true  /  (a or b) false  -> conjunction
            out = []
            for v in test.values:
                sub = atoms(v, positive, subst)
                if sub is None:
                    return None
                out.extend(sub)
            return out
        return None
    if isinstance(test, ast.Compare) and len(test.ops) == 1:
        op = test.ops[0]
        sym = _SYM.get(type(op))
        if sym is None:
            return None
        lhs, rhs = subst(test.left), subst(test.comparators[0])
        c = Cond(lhs, sym, rhs)
        c = canonical(c)
        return [c if positive else canonical(c.negate())]
    if isinstance(test, ast.Compare):
        # a < b < c
        out = []
        left = test.left
        for op, right in zip(test.ops, test.comparators):
            sub = atoms(ast.Compare(left=left, ops=[op], comparators=[right]), True, subst)
            if sub is None:
                return None
            out.extend(sub)
            left = right
        if positive:
            return out
        return None if len(out) > 1 else [canonical(out[0].negate())]
    c = Cond(subst(test), "truthy" if positive else "falsy")
    return [c]


def canonical(c: Cond) -> Cond:
    """Orient order comparisons so that they read with '>' / '>=' or stay as given for eq/in."""
    if c.op == "<":
        return Cond(c.rhs, ">", c.lhs)
    if c.op == "<=":
        return Cond(c.rhs, ">=", c.lhs)
    return c


def path_conditions(fn: ast.AST, target: ast.AST, subst_at=None, terminals=("continue", "return", "raise", "break", "mixed")):
    """Lexical conditions under which `target` (a statement inside fn) executes.

    Returns (conds, opaque, loops): conds is a list of Cond; opaque lists guard expressions that could not be
    reduced to a conjunction; loops is the list of enclosing loop statements (outermost first).
    ``subst_at(stmt)`` may return a substitution function valid at that statement.
    """
    conds: list[Cond] = []
    opaque: list[str] = []
    loops: list[ast.AST] = []

    def sub_for(st):
        return subst_at(st) if subst_at else None

    def search(body) -> bool:
        pre: list[tuple[ast.AST, bool, ast.AST]] = []
        for st in body:
            if st is target or _contains(st, target):
                for test, pol, where in pre:
                    a = atoms(test, pol, sub_for(where))
                    if a is None:
                        opaque.append(("" if pol else "not ") + norm(test))
                    else:
                        conds.extend(a)
                if st is target:
                    return True
                found = descend(st)
                if not found:
                    # the target is an expression inside a simple statement: the branches of conditional expressions and the right
                    # operands of and / or it sits in are evaluated under their tests (the same conditions an if statement would give)
                    expr_conditions(st)
                    return True
                return found
            if isinstance(st, ast.If):
                t_body, t_else = terminal(st.body), terminal(st.orelse)
                if t_body not in terminals:
                    t_body = None
                if t_else not in terminals:
                    t_else = None
                if t_body and not t_else:
                    pre.append((st.test, False, st))
                elif t_else and not t_body and st.orelse:
                    pre.append((st.test, True, st))
        return False

    def expr_conditions(st):
        def walk(e):
            if e is target:
                return True
            if isinstance(e, ast.IfExp):
                if _contains(e.test, target):
                    return walk(e.test)
                for branch, pol in ((e.body, True), (e.orelse, False)):
                    if branch is target or _contains(branch, target):
                        a = atoms(e.test, pol, sub_for(st))
                        if a is None:
                            opaque.append(("" if pol else "not ") + norm(e.test))
                        else:
                            conds.extend(a)
                        return walk(branch)
                return False
            if isinstance(e, ast.BoolOp):
                for i, v in enumerate(e.values):
                    if v is target or _contains(v, target):
                        for prev in e.values[:i]:
                            pol = isinstance(e.op, ast.And)
                            a = atoms(prev, pol, sub_for(st))
                            if a is None:
                                opaque.append(("" if pol else "not ") + norm(prev))
                            else:
                                conds.extend(a)
                        return walk(v)
                return False
            for ch in ast.iter_child_nodes(e):
                if ch is target or _contains(ch, target):
                    return walk(ch)
            return False

        if isinstance(st, ast.stmt) and not isinstance(st, (ast.If, ast.For, ast.While, ast.With, ast.Try, ast.FunctionDef, ast.AsyncFunctionDef, ast.ClassDef)):
            walk(st)
        elif isinstance(st, (ast.If, ast.While)) and _contains(st.test, target):
            walk(st.test)

    def descend(st) -> bool:
        if isinstance(st, (ast.If, ast.While)) and _contains(st.test, target):
            return False
        if isinstance(st, ast.If):
            if any(s is target or _contains(s, target) for s in st.body):
                a = atoms(st.test, True, sub_for(st))
                if a is None:
                    opaque.append(norm(st.test))
                else:
                    conds.extend(a)
                return search(st.body)
            a = atoms(st.test, False, sub_for(st))
            if a is None:
                opaque.append("not " + norm(st.test))
            else:
                conds.extend(a)
            return search(st.orelse)
        if isinstance(st, (ast.For, ast.While, ast.AsyncFor)):
            if any(s is target or _contains(s, target) for s in st.body):
                loops.append(st)
                if isinstance(st, ast.While):
                    a = atoms(st.test, True, sub_for(st))
                    if a is None:
                        opaque.append(norm(st.test))
                    else:
                        conds.extend(a)
                return search(st.body)
            return search(st.orelse)
        if isinstance(st, (ast.With, ast.AsyncWith)):
            return search(st.body)
        if isinstance(st, ast.Try):
            for blk in (st.body, st.orelse, st.finalbody):
                if any(s is target or _contains(s, target) for s in blk):
                    return search(blk)
            for h in st.handlers:
                if any(s is target or _contains(s, target) for s in h.body):
                    opaque.append(f"except {norm(h.type) if h.type else ''}")
                    return search(h.body)
        return False

    search(fn.body)
    return conds, opaque, loops


def _contains(st: ast.AST, target: ast.AST) -> bool:
    for n in ast.walk(st):
        if n is target:
            return True
    return False
