"""Which conditions let an element of a source sequence reach the next iteration without being stored?

For a loop and the statement(s) that store the element's result, enumerate the simple CFG paths from the loop body entry back
to the loop head that avoid every store; each path is summarised by the branch conditions (normalised text + polarity) and
exceptional edges it takes. A rule compares these with the skip conditions confirmed by reading.
"""
from __future__ import annotations

import ast

from .cfg import CFG
from .loader import norm, short


def skip_paths(cfg: CFG, loop: ast.AST, store_nodes: set[int], limit: int = 256):
    heads = set(cfg.loop_head.get(id(loop), []))
    ins = cfg.loop_body_in.get(id(loop), [])
    out: list[list[tuple[str, str]]] = []
    if not heads or not ins:
        return None

    def dfs(n, reasons, seen):
        if len(out) >= limit:
            return
        for s in cfg.succ[n]:
            if s in store_nodes:
                continue
            lab = cfg.elabel.get((n, s))
            nd = cfg.nodes[n]
            r2 = reasons
            if nd.kind == "test" and lab in ("true", "false"):
                r2 = reasons + [(norm(nd.ast), lab)]
            elif lab == "exc":
                r2 = reasons + [("exc", short(nd.ast, 70) if nd.ast is not None else "?")]
            if s in heads:
                out.append(r2)
                continue
            if s in seen or s in (cfg.exit, cfg.raise_exit):
                continue
            dfs(s, r2, seen | {s})

    for i in ins:
        if i in store_nodes:
            continue
        dfs(i, [], {i})
    return out


def deciding(reasons_list):
    """The distinct (condition, polarity) pairs that occur on skipping paths, with how many paths use them."""
    cnt = {}
    for rs in reasons_list:
        for r in rs:
            cnt[r] = cnt.get(r, 0) + 1
    return cnt
