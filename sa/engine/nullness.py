"""Flow-sensitive nullness (NonNull / MaybeNone) over the statement CFG of one function.

Sources of MaybeNone (API facts, stated in the trusted base):
  X.get(k)            one-argument get (dict / ElementTree.Element)
  X.get(k, d)         MaybeNone iff d is
  X.find(..) / X.findtext(..) without default, re.match/search/fullmatch, next(it, None), X.text / X.tail
  names annotated Optional / `| None`, the constant None
Refinement on branch edges: `x is None`, `x is not None`, `x`, `not x`, conjunctions / disjunctions thereof.
"""
from __future__ import annotations

import ast

from .cfg import CFG
from .loader import dotted, norm

N, M = "N", "M"


def _join(a, b):
    return M if M in (a, b) else N


def ann_optional(ann: ast.AST | None) -> bool:
    if ann is None:
        return False
    if isinstance(ann, ast.Constant) and isinstance(ann.value, str):
        try:
            ann = ast.parse(ann.value, mode="eval").body
        except SyntaxError:
            return False
    if isinstance(ann, ast.Constant) and ann.value is None:
        return True
    if isinstance(ann, ast.BinOp) and isinstance(ann.op, ast.BitOr):
        return ann_optional(ann.left) or ann_optional(ann.right)
    if isinstance(ann, ast.Subscript):
        d = (dotted(ann.value) or "").split(".")[-1]
        if d == "Optional":
            return True
        if d == "Union":
            els = ann.slice.elts if isinstance(ann.slice, ast.Tuple) else [ann.slice]
            return any(ann_optional(e) for e in els)
    return False


MAYBE_ATTRS = {"text", "tail"}
MAYBE_CALL_ATTRS = {"find", "match", "search", "fullmatch"}


class Nullness:
    def __init__(self, fn: ast.AST, cfg: CFG, maybe_funcs: set[str] | None = None, maybe_attrs: set[str] | None = None):
        self.fn = fn
        self.cfg = cfg
        self.maybe_funcs = maybe_funcs or set()  # callee names whose result is MaybeNone
        self.maybe_attrs = MAYBE_ATTRS if maybe_attrs is None else maybe_attrs
        self.env_in: dict[int, dict[str, str]] = {}
        self._run()

    # ------------------------------------------------------------ expression nullness
    def expr(self, e: ast.AST, env: dict) -> str:
        if e is None:
            return N
        if isinstance(e, ast.Constant):
            return M if e.value is None else N
        if isinstance(e, ast.Name):
            return env.get(e.id, N)
        if isinstance(e, ast.Attribute):
            d = dotted(e)
            if d is not None and d in env:
                return env[d]
            return M if e.attr in self.maybe_attrs else N
        if isinstance(e, ast.IfExp):
            te = self.refine(e.test, True, dict(env))
            fe = self.refine(e.test, False, dict(env))
            return _join(self.expr(e.body, te), self.expr(e.orelse, fe))
        if isinstance(e, ast.BoolOp):
            if isinstance(e.op, ast.Or):
                # value is the first truthy operand or the last operand: None is falsy, so only the last can leak None
                return self.expr(e.values[-1], env)
            # and: any operand may be returned when falsy (None is falsy)
            r = N
            cur = dict(env)
            for v in e.values:
                r = _join(r, self.expr(v, cur))
                cur = self.refine(v, True, cur)
            return r
        if isinstance(e, ast.NamedExpr):
            return self.expr(e.value, env)
        if isinstance(e, ast.Subscript) and isinstance(e.value, ast.Name) and (e.value.id + "[]") in env:
            return env[e.value.id + "[]"]  # element of a local container into which a MaybeNone value was stored
        if isinstance(e, ast.Call):
            f = e.func
            if isinstance(f, ast.Attribute):
                if f.attr == "get":
                    if len(e.args) == 1 and not e.keywords:
                        return M
                    if len(e.args) == 2:
                        stored = env.get(f.value.id + "[]", N) if isinstance(f.value, ast.Name) else N
                        return _join(stored, self.elems(e.args[1], env))
                    return N
                if f.attr in MAYBE_CALL_ATTRS:
                    return M
                if f.attr == "findtext":
                    return M if len(e.args) < 2 and not e.keywords else N
                if f.attr == "pop" and len(e.args) == 2:
                    return self.expr(e.args[1], env)
                if f.attr in self.maybe_funcs:
                    return M
                return N
            if isinstance(f, ast.Name):
                if f.id == "next" and len(e.args) == 2:
                    return self.expr(e.args[1], env)
                if f.id == "getattr" and len(e.args) == 3:
                    return self.expr(e.args[2], env)
                if f.id in self.maybe_funcs:
                    return M
            return N
        return N

    def elems(self, e: ast.AST, env: dict) -> str:
        """Nullness of a value or, for a tuple / list display, of its worst element (what unpacking it hands out)."""
        if isinstance(e, (ast.Tuple, ast.List)):
            r = N
            for x in e.elts:
                r = _join(r, self.elems(x, env))
            return r
        return self.expr(e, env)

    # ------------------------------------------------------------ refinement
    def refine(self, test: ast.AST, positive: bool, env: dict) -> dict:
        if isinstance(test, ast.UnaryOp) and isinstance(test.op, ast.Not):
            return self.refine(test.operand, not positive, env)
        if isinstance(test, ast.BoolOp):
            conj = isinstance(test.op, ast.And)
            if conj == positive:
                for v in test.values:
                    env = self.refine(v, positive, env)
            return env
        if isinstance(test, ast.Compare) and len(test.ops) == 1:
            l, r, op = test.left, test.comparators[0], test.ops[0]
            if isinstance(r, ast.Constant) and r.value is None and isinstance(l, (ast.Name, ast.Attribute)):
                key = l.id if isinstance(l, ast.Name) else dotted(l)
                if key is not None:
                    if isinstance(op, ast.IsNot) and positive or isinstance(op, ast.Is) and not positive:
                        env[key] = N
                    elif isinstance(op, (ast.NotEq,)) and positive or isinstance(op, ast.Eq) and not positive:
                        env[key] = N
            return env
        if isinstance(test, ast.Name) and positive:
            env[test.id] = N
            return env
        if isinstance(test, ast.Attribute) and positive:
            d = dotted(test)
            if d is not None:
                env[d] = N  # `x.text` was just seen truthy; the fact is dropped when x is rebound
            return env
        if isinstance(test, ast.NamedExpr) and isinstance(test.target, ast.Name):
            env[test.target.id] = N if positive else self.expr(test.value, env)
            return env
        if isinstance(test, ast.Call) and positive:
            # isinstance(x, T) true => x not None
            if isinstance(test.func, ast.Name) and test.func.id == "isinstance" and test.args and isinstance(test.args[0], ast.Name):
                env[test.args[0].id] = N
            # x.strip() truthy etc. says nothing
        return env

    # ------------------------------------------------------------ dataflow
    @staticmethod
    def _container_read(e: ast.AST, env: dict) -> bool:
        if isinstance(e, ast.Subscript) and isinstance(e.value, ast.Name):
            return (e.value.id + "[]") in env
        if isinstance(e, ast.Call) and isinstance(e.func, ast.Attribute) and e.func.attr in ("get", "pop") and isinstance(e.func.value, ast.Name):
            return (e.func.value.id + "[]") in env
        return False

    def _assign(self, target, value_null: str, env: dict):
        if isinstance(target, ast.Name):
            env[target.id] = value_null
            for k in [k for k in env if k.startswith(target.id + ".") or k == target.id + "[]"]:
                del env[k]
        elif isinstance(target, (ast.Tuple, ast.List)):
            for t in target.elts:
                self._assign(t, N, env)
        elif isinstance(target, ast.Starred):
            self._assign(target.value, N, env)

    def transfer(self, nid: int, env: dict) -> dict:
        nd = self.cfg.nodes[nid]
        env = dict(env)
        st = nd.ast
        if nd.kind == "stmt":
            if isinstance(st, ast.Assign):
                v = self.expr(st.value, env)
                for t in st.targets:
                    if isinstance(t, ast.Subscript) and isinstance(t.value, ast.Name):
                        # D[k] = value : remember the worst thing ever stored in this local container
                        key = t.value.id + "[]"
                        env[key] = _join(env.get(key, N), self.elems(st.value, env))
                    elif isinstance(t, (ast.Tuple, ast.List)) and not isinstance(st.value, (ast.Tuple, ast.List)) and self._container_read(st.value, env):
                        for el in t.elts:
                            self._assign(el, v, env)
                    else:
                        self._assign(t, v, env)
            elif isinstance(st, ast.AnnAssign) and st.value is not None:
                self._assign(st.target, self.expr(st.value, env), env)
            elif isinstance(st, ast.AugAssign):
                self._assign(st.target, N, env)
            for sub in ast.walk(st) if not isinstance(st, (ast.FunctionDef, ast.ClassDef)) else []:
                if isinstance(sub, ast.NamedExpr) and isinstance(sub.target, ast.Name):
                    env[sub.target.id] = self.expr(sub.value, env)
        elif nd.kind == "for":
            self._assign(st.target, N, env)
        elif nd.kind == "with":
            for it in st.items:
                if it.optional_vars is not None:
                    self._assign(it.optional_vars, N, env)
        elif nd.kind == "handler":
            if st.name:
                env[st.name] = N
        elif nd.kind == "test":
            for sub in ast.walk(st):
                if isinstance(sub, ast.NamedExpr) and isinstance(sub.target, ast.Name):
                    env[sub.target.id] = self.expr(sub.value, env)
        return env

    def _run(self):
        cfg = self.cfg
        init = {}
        a = self.fn.args
        alla = a.posonlyargs + a.args + a.kwonlyargs
        defaults = [None] * (len(a.posonlyargs + a.args) - len(a.defaults)) + list(a.defaults) + list(a.kw_defaults)
        for arg, d in zip(alla, defaults):
            init[arg.arg] = M if ann_optional(arg.annotation) or (isinstance(d, ast.Constant) and d.value is None) else N
        self.env_in = {cfg.entry: init}
        work = [cfg.entry]
        out_cache: dict[int, dict] = {}
        while work:
            n = work.pop()
            env = self.env_in.get(n, {})
            out = self.transfer(n, env)
            nd = cfg.nodes[n]
            for s in cfg.succ[n]:
                e2 = out
                lab = cfg.elabel.get((n, s))
                if nd.kind == "test" and lab in ("true", "false"):
                    e2 = self.refine(nd.ast, lab == "true", dict(out))
                elif lab == "exc":
                    e2 = env  # the statement did not complete
                old = self.env_in.get(s)
                if old is None:
                    self.env_in[s] = dict(e2)
                    work.append(s)
                else:
                    new = dict(old)
                    changed = False
                    for k in set(old) | set(e2):
                        j = _join(old.get(k, N), e2.get(k, N))
                        if new.get(k, N) != j:
                            new[k] = j
                            changed = True
                    if changed:
                        self.env_in[s] = new
                        work.append(s)

    # ------------------------------------------------------------ queries
    def env_at(self, node: ast.AST) -> dict:
        """Environment in force when `node` (statement or sub-expression) is evaluated (join over finally copies)."""
        ids = self.cfg.evaluators(node)
        env: dict = {}
        for i in ids:
            for k, v in self.env_in.get(i, {}).items():
                env[k] = _join(env.get(k, N), v)
        return env

    def at(self, node: ast.AST, e: ast.AST) -> str:
        return self.expr(e, self.env_at(node))


def maybe_none_functions(ctx, rel: str) -> set[str]:
    """Names of the functions of module `rel` (top level and nested) that can return None on some path (fixpoint over calls by name)."""
    from .loader import walk_own
    m = ctx.p.module(rel)
    maybe: set[str] = set()
    changed = True
    rounds = 0
    while changed and rounds < 6:
        changed = False
        rounds += 1
        for q, fi in m.functions.items():
            name = q.split(".")[-1]
            if name in maybe:
                continue
            rets = [n for n in walk_own(fi.node) if isinstance(n, ast.Return)]
            if not rets:
                continue
            if any(isinstance(n, (ast.Yield, ast.YieldFrom)) for n in walk_own(fi.node)):
                continue
            try:
                nl = Nullness(fi.node, ctx.cfg(fi), maybe_funcs=set(maybe))
            except Exception:
                continue
            for r in rets:
                if r.value is None:
                    continue
                if nl.at(r, r.value) == M:
                    maybe.add(name)
                    changed = True
                    break
    return maybe
