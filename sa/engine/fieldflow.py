"""Which dataclass fields can flow into the value an accessor returns (flow-insensitive, interprocedural, flag-folding).

Abstract value = (srcs, classes, objs):
  srcs     set of (Class, field) leaf reads whose content may be part of the value
  classes  project classes the value (or its elements) may be an instance of  -> attribute reads resolve to fields / properties
  objs     objects constructed on the way (Class, {field: AV})               -> unit.get_text() sees what the unit was built from
Containers are identified with their elements. Conditions are ignored except tests on parameters / names bound to constants
(the accessor's default flags), which prune the dead branch.
"""
from __future__ import annotations

import ast

from .loader import AnalysisError, ClassInfo, FuncInfo, Project, dotted

PASS_BUILTINS = {"list", "sorted", "str", "tuple", "set", "reversed", "iter", "next", "filter", "sum", "max", "min", "dict", "frozenset", "repr", "replace"}
MAX_DEPTH = 14


class AV:
    __slots__ = ("srcs", "classes", "objs")

    def __init__(self, srcs=(), classes=(), objs=()):
        self.srcs = set(srcs)
        self.classes = set(classes)
        self.objs = list(objs)  # [(clsname, {field: AV})]

    def join(self, other: "AV") -> "AV":
        if other is None:
            return self
        self.srcs |= other.srcs
        self.classes |= other.classes
        for o in other.objs:
            if not any(o is x for x in self.objs):
                self.objs.append(o)
        return self

    def copy(self) -> "AV":
        return AV(self.srcs, self.classes, self.objs)

    def size(self):
        return (len(self.srcs), len(self.classes), len(self.objs))


def _ann_classes(p: Project, ann: ast.AST | None) -> set[str]:
    out: set[str] = set()
    if ann is None:
        return out
    if isinstance(ann, ast.Constant) and isinstance(ann.value, str):
        try:
            ann = ast.parse(ann.value, mode="eval").body
        except SyntaxError:
            return out
    for n in ast.walk(ann):
        if isinstance(n, ast.Name):
            out.add(n.id)
        elif isinstance(n, ast.Attribute):
            out.add(n.attr)
        elif isinstance(n, ast.Constant) and isinstance(n.value, str):
            out |= _ann_classes(p, n)
    return out


class FieldFlow:
    def __init__(self, p: Project, modules: list[str]):
        self.p = p
        self.classes: dict[str, ClassInfo] = {}
        self.funcs: dict[str, FuncInfo] = {}
        for rel in modules:
            m = p.module(rel)
            for c in m.classes.values():
                self.classes.setdefault(c.name, c)
            for q, f in m.functions.items():
                if "." not in q:
                    self.funcs.setdefault(q, f)
        self.unresolved: set[str] = set()

    # ------------------------------------------------------------------ class helpers
    def fields_of(self, cname: str) -> dict:
        out = {}
        ci = self.classes.get(cname)
        if ci is None:
            return out
        for c in reversed(self.p.mro(ci)):
            out.update(c.fields)
        return out

    def method_of(self, cname: str, name: str) -> FuncInfo | None:
        ci = self.classes.get(cname)
        if ci is None:
            return None
        return self.p.find_method(ci, name)

    @staticmethod
    def is_property(fi: FuncInfo) -> bool:
        return any((dotted(d) or "").split(".")[-1] in ("property", "cached_property") for d in fi.node.decorator_list)

    def known(self, names) -> set[str]:
        return {n for n in names if n in self.classes}

    # ------------------------------------------------------------------ attribute read
    def attr(self, v: AV, name: str, depth: int) -> AV:
        res = AV()
        hit = False
        for (cn, fields) in v.objs:
            if name in fields:
                res.join(fields[name])
                hit = True
            else:
                m = self.method_of(cn, name)
                if m is not None and self.is_property(m):
                    res.join(self.call(m, AV(objs=[(cn, fields)]), {}, {}, depth + 1))
                    hit = True
                elif name in self.fields_of(cn):
                    hit = True  # field left at its default
        for cn in v.classes:
            fl = self.fields_of(cn)
            if name in fl:
                # the container the value was taken from stays part of its provenance (slide.comments -> comment.text)
                res.join(AV(srcs={(cn, name)} | v.srcs, classes=self.known(_ann_classes(self.p, fl[name][0]))))
                hit = True
            else:
                m = self.method_of(cn, name)
                if m is not None and self.is_property(m):
                    res.join(self.call(m, AV(classes={cn}), {}, {}, depth + 1))
                    hit = True
        if not hit:
            res.join(AV(srcs=v.srcs))  # attribute of a plain value (str, dict, ...): content passes through
        return res

    # ------------------------------------------------------------------ function evaluation
    def call(self, fi: FuncInfo, selfv: AV | None, args: dict[str, AV], consts: dict[str, object], depth: int) -> AV:
        if depth > MAX_DEPTH:
            self.unresolved.add(f"depth:{fi.key}")
            return AV()
        a = fi.node.args
        params = a.posonlyargs + a.args + a.kwonlyargs
        defaults = [None] * (len(a.posonlyargs + a.args) - len(a.defaults)) + list(a.defaults) + list(a.kw_defaults)
        env: dict[str, AV] = {}
        cenv: dict[str, object] = {}
        for prm, d in zip(params, defaults):
            n = prm.arg
            if n == "self" and selfv is not None:
                env[n] = selfv
                continue
            if n in args:
                env[n] = args[n]
                if n in consts:
                    cenv[n] = consts[n]
            else:
                env[n] = AV(classes=self.known(_ann_classes(self.p, prm.annotation)))
                if isinstance(d, ast.Constant):
                    cenv[n] = d.value
        ret = AV()
        fr = _Frame(self, fi, env, cenv, ret, depth)
        for _ in range(3):
            before = {k: v.size() for k, v in env.items()}, ret.size()
            fr.block(fi.node.body)
            if ({k: v.size() for k, v in env.items()}, ret.size()) == before:
                break
        return ret


class _Frame:
    def __init__(self, ff: FieldFlow, fi: FuncInfo, env, cenv, ret: AV, depth: int):
        self.ff, self.fi, self.env, self.cenv, self.ret, self.depth = ff, fi, env, cenv, ret, depth
        self.local_funcs: dict[str, ast.AST] = {}
        self.local_rets: dict[str, AV] = {}
        self._active: set[str] = set()

    # ---------------------------------------------------------------- constants of flags
    def const_test(self, t: ast.AST):
        if isinstance(t, ast.Name) and t.id in self.cenv:
            return bool(self.cenv[t.id])
        if isinstance(t, ast.UnaryOp) and isinstance(t.op, ast.Not):
            v = self.const_test(t.operand)
            return None if v is None else (not v)
        if isinstance(t, ast.Constant):
            return bool(t.value)
        if isinstance(t, ast.BoolOp):
            vals = [self.const_test(v) for v in t.values]
            if isinstance(t.op, ast.And):
                if any(v is False for v in vals):
                    return False
                if all(v is True for v in vals):
                    return True
            else:
                if any(v is True for v in vals):
                    return True
                if all(v is False for v in vals):
                    return False
        return None

    # ---------------------------------------------------------------- statements
    def bind(self, target: ast.AST, v: AV):
        if isinstance(target, ast.Name):
            self.env.setdefault(target.id, AV()).join(v)
            self.cenv.pop(target.id, None) if False else None
        elif isinstance(target, (ast.Tuple, ast.List)):
            for t in target.elts:
                self.bind(t, v)
        elif isinstance(target, ast.Starred):
            self.bind(target.value, v)
        elif isinstance(target, ast.Subscript):
            self.bind(target.value, v)
        elif isinstance(target, ast.Attribute):
            # self.x = v on a constructed object / local attribute: remember on base objects
            base = self.ev(target.value)
            for (cn, fields) in base.objs:
                fields.setdefault(target.attr, AV()).join(v)

    def block(self, body):
        for st in body:
            self.stmt(st)

    def stmt(self, st: ast.AST):
        if isinstance(st, (ast.FunctionDef, ast.AsyncFunctionDef)):
            self.local_funcs[st.name] = st
            return
        if isinstance(st, (ast.ClassDef, ast.Import, ast.ImportFrom, ast.Pass, ast.Break, ast.Continue, ast.Global, ast.Nonlocal, ast.Raise, ast.Assert, ast.Delete)):
            return
        if isinstance(st, ast.Assign):
            v = self.ev(st.value)
            for t in st.targets:
                self.bind(t, v)
                if isinstance(t, ast.Name) and isinstance(st.value, ast.Constant) and t.id not in self.fi_params():
                    pass
        elif isinstance(st, ast.AnnAssign):
            if st.value is not None:
                self.bind(st.target, self.ev(st.value))
        elif isinstance(st, ast.AugAssign):
            self.bind(st.target, self.ev(st.value))
        elif isinstance(st, (ast.For, ast.AsyncFor)):
            self.bind_iter(st.target, st.iter)
            self.block(st.body)
            self.block(st.orelse)
        elif isinstance(st, ast.While):
            self.block(st.body)
            self.block(st.orelse)
        elif isinstance(st, ast.If):
            c = self.const_test(st.test)
            self.ev(st.test)
            if c is not False:
                self.block(st.body)
            if c is not True:
                self.block(st.orelse)
        elif isinstance(st, (ast.With, ast.AsyncWith)):
            for it in st.items:
                v = self.ev(it.context_expr)
                if it.optional_vars is not None:
                    self.bind(it.optional_vars, v)
            self.block(st.body)
        elif isinstance(st, ast.Try):
            self.block(st.body)
            for h in st.handlers:
                self.block(h.body)
            self.block(st.orelse)
            self.block(st.finalbody)
        elif isinstance(st, ast.Return):
            if st.value is not None:
                self.ret.join(self.ev(st.value))
        elif isinstance(st, ast.Expr):
            self.ev(st.value)
        elif isinstance(st, ast.Match):
            for c in st.cases:
                self.block(c.body)

    def fi_params(self):
        return {a.arg for a in self.fi.node.args.args}

    def bind_iter(self, target, it):
        if isinstance(it, ast.Call) and isinstance(it.func, ast.Name) and it.func.id == "enumerate" and it.args and isinstance(target, ast.Tuple) and len(target.elts) == 2:
            self.bind(target.elts[1], self.ev(it.args[0]))
            return
        if isinstance(it, ast.Call) and isinstance(it.func, ast.Name) and it.func.id == "zip" and isinstance(target, ast.Tuple) and len(target.elts) == len(it.args):
            for t, a in zip(target.elts, it.args):
                self.bind(t, self.ev(a))
            return
        self.bind(target, self.ev(it))

    # ---------------------------------------------------------------- expressions
    def ev(self, e: ast.AST) -> AV:
        ff = self.ff
        if e is None or isinstance(e, ast.Constant):
            return AV()
        if isinstance(e, ast.Name):
            v = self.env.get(e.id)
            return v.copy() if v is not None else AV()
        if isinstance(e, ast.Attribute):
            return ff.attr(self.ev(e.value), e.attr, self.depth)
        if isinstance(e, (ast.Yield, ast.YieldFrom, ast.Await)):
            v = self.ev(e.value) if e.value is not None else AV()
            if not isinstance(e, ast.Await):
                self.ret.join(v)
            return AV()
        if isinstance(e, ast.Call):
            return self.ev_call(e)
        if isinstance(e, (ast.List, ast.Tuple, ast.Set)):
            r = AV()
            for x in e.elts:
                r.join(self.ev(x))
            return r
        if isinstance(e, ast.Dict):
            r = AV()
            for x in e.values:
                r.join(self.ev(x))
            return r
        if isinstance(e, ast.Starred):
            return self.ev(e.value)
        if isinstance(e, ast.BinOp):
            return self.ev(e.left).join(self.ev(e.right))
        if isinstance(e, ast.BoolOp):
            r = AV()
            for x in e.values:
                r.join(self.ev(x))
            return r
        if isinstance(e, ast.UnaryOp):
            return AV() if isinstance(e.op, ast.Not) else self.ev(e.operand)
        if isinstance(e, ast.Compare):
            return AV()
        if isinstance(e, ast.IfExp):
            c = self.const_test(e.test)
            r = AV()
            if c is not False:
                r.join(self.ev(e.body))
            if c is not True:
                r.join(self.ev(e.orelse))
            return r
        if isinstance(e, ast.JoinedStr):
            r = AV()
            for x in e.values:
                r.join(self.ev(x))
            return r
        if isinstance(e, ast.FormattedValue):
            return self.ev(e.value)
        if isinstance(e, ast.Subscript):
            return self.ev(e.value)
        if isinstance(e, ast.NamedExpr):
            v = self.ev(e.value)
            self.bind(e.target, v)
            return v
        if isinstance(e, (ast.ListComp, ast.SetComp, ast.GeneratorExp, ast.DictComp)):
            for g in e.generators:
                self.bind_iter(g.target, g.iter)
            if isinstance(e, ast.DictComp):
                return self.ev(e.value)
            return self.ev(e.elt)
        if isinstance(e, ast.Lambda):
            return AV()
        return AV()

    def _bind_args(self, fi: FuncInfo, call: ast.Call, skip_self: bool):
        a = fi.node.args
        names = [x.arg for x in a.posonlyargs + a.args]
        if skip_self and names and names[0] in ("self", "cls"):
            names = names[1:]
        args: dict[str, AV] = {}
        consts: dict[str, object] = {}

        def put(n, node):
            args[n] = self.ev(node)
            if isinstance(node, ast.Constant):
                consts[n] = node.value
            elif isinstance(node, ast.Name) and node.id in self.cenv:
                consts[n] = self.cenv[node.id]

        for n, node in zip(names, call.args):
            if isinstance(node, ast.Starred):
                break
            put(n, node)
        for k in call.keywords:
            if k.arg is not None:
                put(k.arg, k.value)
        return args, consts

    def ev_call(self, e: ast.Call) -> AV:
        ff = self.ff
        f = e.func
        if isinstance(f, ast.Name):
            if f.id in ff.classes:
                ci = ff.classes[f.id]
                fl = ff.fields_of(f.id)
                fields: dict[str, AV] = {}
                order = list(fl)
                for n, node in zip(order, e.args):
                    fields[n] = self.ev(node)
                for k in e.keywords:
                    if k.arg is not None:
                        fields[k.arg] = self.ev(k.value)
                return AV(objs=[(f.id, fields)])
            if f.id in self.local_funcs:
                # closure: evaluated in the enclosing environment, parameters bound by position / keyword
                node = self.local_funcs[f.id]
                names = [x.arg for x in node.args.posonlyargs + node.args.args]
                for n, a in zip(names, e.args):
                    self.env.setdefault(n, AV()).join(self.ev(a))
                for k in e.keywords:
                    if k.arg:
                        self.env.setdefault(k.arg, AV()).join(self.ev(k.value))
                lr = self.local_rets.setdefault(f.id, AV())
                if f.id not in self._active:
                    self._active.add(f.id)
                    saved = self.ret
                    self.ret = lr
                    try:
                        self.block(node.body)
                    finally:
                        self.ret = saved
                        self._active.discard(f.id)
                    if any(isinstance(n, (ast.Yield, ast.YieldFrom)) for n in ast.walk(node)):
                        pass
                return lr.copy()
            if f.id in ff.funcs and f.id not in self.env:
                fi = ff.funcs[f.id]
                args, consts = self._bind_args(fi, e, skip_self=False)
                return ff.call(fi, None, args, consts, self.depth + 1)
            if f.id in ("len", "isinstance", "bool", "int", "float", "any", "all", "id", "hash", "range", "type", "callable", "hasattr"):
                for x in e.args:
                    self.ev(x)
                return AV()
            if f.id == "getattr" and len(e.args) >= 2 and isinstance(e.args[1], ast.Constant):
                r = ff.attr(self.ev(e.args[0]), e.args[1].value, self.depth)
                if len(e.args) == 3:
                    r.join(self.ev(e.args[2]))
                return r
            r = AV()
            for x in e.args:
                r.join(self.ev(x))
            for k in e.keywords:
                r.join(self.ev(k.value))
            if f.id in self.env:
                r.join(self.env[f.id])
            elif f.id not in PASS_BUILTINS and f.id not in ("enumerate", "zip", "map", "print", "field", "super"):
                ff.unresolved.add(f"{self.fi.key}: call {f.id}()")
            return r
        if isinstance(f, ast.Attribute):
            rv = self.ev(f.value)
            res = AV()
            hit = False
            targets = [(cn, AV(objs=[(cn, fields)])) for (cn, fields) in rv.objs] + [(cn, AV(classes={cn})) for cn in rv.classes]
            for cn, sv in targets:
                m = ff.method_of(cn, f.attr)
                if m is not None and not ff.is_property(m):
                    args, consts = self._bind_args(m, e, skip_self=True)
                    res.join(ff.call(m, sv, args, consts, self.depth + 1))
                    hit = True
            # module function through an alias (mod.func)
            if not hit:
                # container / string method: receiver content and argument content both flow
                if f.attr in ("append", "extend", "insert", "add", "update", "appendleft", "setdefault") and isinstance(f.value, (ast.Name, ast.Attribute, ast.Subscript)):
                    v = AV()
                    for x in e.args:
                        v.join(self.ev(x))
                    self.bind(f.value, v)
                    return AV()
                res.join(ff.attr(rv, f.attr, self.depth) if False else AV(srcs=rv.srcs, classes=rv.classes, objs=rv.objs))
                for x in e.args:
                    res.join(self.ev(x))
                for k in e.keywords:
                    res.join(self.ev(k.value))
            return res
        r = self.ev(f)
        for x in e.args:
            r.join(self.ev(x))
        return r
