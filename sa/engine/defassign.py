"""Definite assignment (forward must-analysis over the statement CFG).

DA(n) = set of local names assigned on *every* path from the function entry to node n. An exceptional edge out of a statement
carries the state *before* the statement (its own assignment did not happen).
"""
from __future__ import annotations

import ast

from .cfg import CFG
from .loader import walk_own


def _targets(t: ast.AST, out: set[str]):
    if isinstance(t, ast.Name):
        out.add(t.id)
    elif isinstance(t, (ast.Tuple, ast.List)):
        for e in t.elts:
            _targets(e, out)
    elif isinstance(t, ast.Starred):
        _targets(t.value, out)


def assigned_by(nd) -> set[str]:
    """Names bound when the CFG node completes normally."""
    out: set[str] = set()
    st = nd.ast
    if st is None:
        return out
    if nd.kind == "stmt":
        if isinstance(st, ast.Assign):
            for t in st.targets:
                _targets(t, out)
        elif isinstance(st, (ast.AnnAssign, ast.AugAssign)):
            if not (isinstance(st, ast.AnnAssign) and st.value is None):
                _targets(st.target, out)
        elif isinstance(st, (ast.Import, ast.ImportFrom)):
            for a in st.names:
                out.add((a.asname or a.name).split(".")[0])
        elif isinstance(st, (ast.FunctionDef, ast.AsyncFunctionDef, ast.ClassDef)):
            out.add(st.name)
        for sub in ast.walk(st) if not isinstance(st, (ast.FunctionDef, ast.AsyncFunctionDef, ast.ClassDef)) else []:
            if isinstance(sub, ast.NamedExpr):
                _targets(sub.target, out)
    elif nd.kind == "for":
        _targets(st.target, out)
    elif nd.kind == "with":
        for it in st.items:
            if it.optional_vars is not None:
                _targets(it.optional_vars, out)
    elif nd.kind == "handler":
        if st.name:
            out.add(st.name)
    elif nd.kind in ("test", "iter"):
        for sub in ast.walk(st):
            if isinstance(sub, ast.NamedExpr):
                _targets(sub.target, out)
    return out


def definitely_assigned(cfg: CFG, fn: ast.AST) -> dict[int, set[str] | None]:
    a = fn.args
    params = {x.arg for x in a.posonlyargs + a.args + a.kwonlyargs}
    if a.vararg:
        params.add(a.vararg.arg)
    if a.kwarg:
        params.add(a.kwarg.arg)
    IN: dict[int, set[str] | None] = {n.id: None for n in cfg.nodes}  # None = unreached (top)
    IN[cfg.entry] = set(params)
    work = [cfg.entry]
    while work:
        n = work.pop()
        cur = IN[n]
        if cur is None:
            continue
        nd = cfg.nodes[n]
        out_norm = cur | assigned_by(nd)
        for s in cfg.succ[n]:
            lab = cfg.elabel.get((n, s))
            val = cur if lab == "exc" else out_norm
            old = IN[s]
            new = set(val) if old is None else (old & val)
            if old is None or new != old:
                IN[s] = new
                work.append(s)
    return IN


def local_store_names(fn: ast.AST) -> set[str]:
    out: set[str] = set()
    for n in walk_own(fn):
        if isinstance(n, ast.Name) and isinstance(n.ctx, ast.Store):
            out.add(n.id)
        elif isinstance(n, ast.ExceptHandler) and n.name:
            out.add(n.name)
    glob = {x for n in walk_own(fn) if isinstance(n, (ast.Global, ast.Nonlocal)) for x in n.names}
    return out - glob
