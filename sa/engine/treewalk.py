"""Element-tree walkers as weighted path automata, decided against a document schema.

A walker (a set of functions that receive an ElementTree node and reach text by `.iter`, `.findall`, `.find`, child loops,
tag dispatch and recursion) is abstracted to *acts* on a current node:

    Emit(var, what)            the character data of the node is read (what = text | tail | subtree)
    Loop(var, src, axis, pred) children (axis=child) / descendants (desc) / node-or-descendants (desc_self) with tag in pred
    Guard(var, pred, a, b)     dispatch on the node's tag
    Call(fn, param)            another walker function on the same node
    GenLoop / Yield            project generator helpers (`for x in helper(node, ..)`)
    Mark(name)                 a named visit (C13: "cell enumerated")

Value conditions are not interpreted: flags are folded to the caller's constants, `x is not None` on a found node is taken
as true, truthiness tests of extracted strings are taken as true (the leaf is non-empty).

The schema is a deterministic tree grammar: kind -> tag, child kinds, and for every kind whether its character data
(text / tail) is visible (must be read exactly once), excluded (must never be read) or irrelevant. The product of schema
and walker is explored with visit *counts* saturating at 2 (a weighted subset construction), so the verdict holds for every
document the schema generates, at any nesting depth. A deviation is reported with the shortest tag path that exhibits it.
"""
from __future__ import annotations

import ast
from collections import Counter, deque
from dataclasses import dataclass, field

from .callgraph import resolve_call
from .consts import UNKNOWN
from .loader import AnalysisError, FuncInfo, dotted, norm, short

# ----------------------------------------------------------------------------- predicates on tags


class Pred:
    def __init__(self, kind, arg=None, sub=()):
        self.kind, self.arg, self.sub = kind, arg, tuple(sub)

    def __call__(self, tag: str) -> bool:
        k = self.kind
        if k == "any":
            return True
        if k == "in":
            return tag in self.arg
        if k == "suffix":
            return tag.endswith(self.arg)
        if k == "prefix":
            return tag.startswith(self.arg)
        if k == "local":  # {*}name
            return tag == self.arg or tag.endswith("}" + self.arg)
        if k == "not":
            return not self.sub[0](tag)
        if k == "and":
            return all(s(tag) for s in self.sub)
        if k == "or":
            return any(s(tag) for s in self.sub)
        raise AssertionError(k)

    def __repr__(self):
        k = self.kind
        if k == "any":
            return "*"
        if k == "in":
            return "{" + ",".join(sorted(_local(t) for t in self.arg)) + "}"
        if k in ("suffix", "local", "prefix"):
            return f"{k}:{self.arg}"
        if k == "not":
            return f"!{self.sub[0]!r}"
        return "(" + (" & " if k == "and" else " | ").join(repr(s) for s in self.sub) + ")"


ANY = Pred("any")


def split_path(v: str) -> list[str]:
    """Split an ElementPath on '/' outside {namespace} braces."""
    out, cur, depth = [], "", 0
    for ch in v:
        if ch == "{":
            depth += 1
        elif ch == "}":
            depth -= 1
        if ch == "/" and depth == 0:
            out.append(cur)
            cur = ""
        else:
            cur += ch
    out.append(cur)
    return [s for s in out if s and s != "."]


def _local(tag: str) -> str:
    return tag.rsplit("}", 1)[-1] if isinstance(tag, str) else str(tag)


# ----------------------------------------------------------------------------- acts


@dataclass
class Emit:
    var: str
    what: str  # text | tail | subtree
    site: str = ""
    sinks: frozenset = frozenset()
    dest: str | None = None


@dataclass
class Mark:
    var: str
    name: str


@dataclass
class Loop:
    var: str
    src: str
    axis: str  # child | desc | desc_self
    pred: Pred
    body: list
    first: bool = False
    site: str = ""
    sinks: frozenset = frozenset()
    dest: str | None = None


@dataclass
class Guard:
    var: str
    pred: Pred
    body: list
    orelse: list


@dataclass
class Call:
    fi: FuncInfo
    param: str
    var: str
    cenv: tuple  # sorted items of constants bound to callee parameters
    propagate_yield: bool = False
    site: str = ""
    sinks: frozenset = frozenset()
    dest: str | None = None


@dataclass
class GenLoop:
    var: str
    call: Call
    body: list
    site: str = ""
    sinks: frozenset = frozenset()
    dest: str | None = None


@dataclass
class Yield:
    var: str


@dataclass
class Same:
    """The same node under another name (a collected node handed to a later loop)."""
    var: str
    body: list


# ----------------------------------------------------------------------------- extraction


class _St:
    """Extraction state of one function body."""

    def __init__(self, cur: str, cenv: dict):
        self.cur = cur
        self.nodes: dict[str, tuple] = {cur: ("param",)}
        self.alias: dict[str, str] = {}
        self.tagalias: dict[str, str] = {}
        self.lists: dict[str, dict] = {}  # name -> {'base': chain length where the list was created, 'entries': [(relative chain, final)]}
        self.cenv = dict(cenv)
        self.loopspec: dict[str, tuple] = {}  # loop var -> (src, axis, pred)
        self.tagmap: dict[str, tuple] = {}  # name -> (node var, constant dict): name = DICT.get(node.tag)
        self.chain: list = []  # ('loop', var, spec) / ('guard', var, pred, polarity) from the function top to here

    def node(self, e: ast.AST) -> str | None:
        if isinstance(e, ast.Name):
            n = self.alias.get(e.id, e.id)
            return n if n in self.nodes else None
        return None


def _dict_key(e: ast.AST):
    """(base expr, key) for  X.get("k"[, default])  /  X["k"]  else None."""
    if isinstance(e, ast.Call) and isinstance(e.func, ast.Attribute) and e.func.attr == "get" and e.args and isinstance(e.args[0], ast.Constant) and isinstance(e.args[0].value, str):
        return e.func.value, e.args[0].value
    if isinstance(e, ast.Subscript) and isinstance(e.slice, ast.Constant) and isinstance(e.slice.value, str):
        return e.value, e.slice.value
    return None


class Extractor:
    def __init__(self, ctx, opaque_subtree: set[str] = frozenset(), mark_tags: dict | None = None, ignore_funcs: set[str] = frozenset(), dict_nodes: bool = False):
        self.dict_nodes = dict_nodes  # nodes are dicts {"tag", "children", "text", "tail"} (the HTML tree builder's model)
        self.ctx = ctx
        self.p = ctx.p
        self.cache: dict = {}
        self.opaque = set(opaque_subtree)  # function names that consume the whole subtree of their node argument
        self.mark_tags = mark_tags or {}  # tag -> mark name, applied when a Loop enumerates that tag
        self.ignore = set(ignore_funcs)
        self.sites: list[str] = []
        self.filters: list[tuple] = []  # (function, loop var, test) value-dependent early exits in the body of a marked loop

    # ------------------------------------------------------------ constants
    def fold(self, fi: FuncInfo, e: ast.AST, st: _St):
        if isinstance(e, ast.BoolOp) and isinstance(e.op, ast.Or) and len(e.values) == 2:
            a = self.fold(fi, e.values[0], st)
            if a is not UNKNOWN and a:
                return a
            b = self.fold(fi, e.values[1], st)
            if a is not UNKNOWN and not a:
                return b
            return UNKNOWN
        if isinstance(e, ast.Call) and isinstance(e.func, ast.Name) and e.func.id in ("set", "frozenset", "tuple", "list") and not e.args:
            return frozenset()
        return self.ctx.folder.fold(fi.module, e, dict(st.cenv)) if hasattr(self.ctx, "folder") else UNKNOWN

    def tags_of(self, fi, e, st) -> Pred | None:
        """Tag argument of iter/findall/find -> Pred (Clark notation; 'p:name' expanded with the module's NS; '{*}x')."""
        v = self.fold(fi, e, st)
        if v is UNKNOWN or not isinstance(v, str):
            return None
        return self._tag_pred(fi, v)

    def _tag_pred(self, fi, v: str) -> Pred:
        if v == "*":
            return ANY
        if v.startswith("{*}"):
            return Pred("local", v[3:])
        if v.startswith("{"):
            return Pred("in", frozenset([v]))
        if ":" in v:
            pfx, name = v.split(":", 1)
            ns = self.ctx.folder.const(fi.module, "NS")
            if isinstance(ns, dict) and pfx in ns:
                return Pred("in", frozenset(["{%s}%s" % (ns[pfx], name)]))
            raise AnalysisError(f"treewalk: cannot expand prefix in {v!r} ({fi.key})")
        return Pred("in", frozenset([v]))

    # ------------------------------------------------------------ API
    def function(self, fi: FuncInfo, param: str, cenv: tuple) -> list:
        key = (fi.key, param, cenv)
        if key in self.cache:
            return self.cache[key]
        self.cache[key] = []  # recursion placeholder (calls are resolved lazily by the evaluator, so never observed)
        ce = dict(cenv)
        a = fi.node.args
        params = a.posonlyargs + a.args + a.kwonlyargs
        defaults = [None] * (len(a.posonlyargs + a.args) - len(a.defaults)) + list(a.defaults) + list(a.kw_defaults)
        for prm, d in zip(params, defaults):
            if prm.arg not in ce and d is not None:
                v = self.ctx.folder.fold(fi.module, d, {})
                if v is not UNKNOWN:
                    ce[prm.arg] = v
        st = _St(param, ce)
        acts, _ = self.seq(fi, fi.node.body, st)
        self._resolve_sinks(fi, acts)
        self.cache[key] = acts
        return acts

    # ------------------------------------------------------------ where the text goes (result fields)
    @staticmethod
    def _tag_dest(acts: list, name: str | None = None, sinks: frozenset | None = None):
        for a in acts:
            if isinstance(a, (Emit, Call, GenLoop, Loop)):
                if name is not None and a.dest is None:
                    a.dest = name
                if sinks:
                    a.sinks = a.sinks | sinks
            if isinstance(a, (Loop, GenLoop)) and (a.first if isinstance(a, Loop) else False):
                Extractor._tag_dest(a.body, name, sinks)
            elif isinstance(a, Same):
                Extractor._tag_dest(a.body, name, sinks)
            elif isinstance(a, Guard):
                Extractor._tag_dest(a.body, name, sinks)
                Extractor._tag_dest(a.orelse, name, sinks)

    def _resolve_sinks(self, fi: FuncInfo, acts: list):
        """Names assigned from extracted text -> the result fields they are stored into (X.<field> = / .append / .extend)."""
        flows: dict[str, set[str]] = {}  # name -> names it flows into
        fields: dict[str, set[str]] = {}
        from .loader import walk_own
        def names_in(e):
            return {n.id for n in ast.walk(e) if isinstance(n, ast.Name)}
        for n in walk_own(fi.node):
            if isinstance(n, ast.Assign) and len(n.targets) == 1:
                t = n.targets[0]
                if isinstance(t, ast.Name):
                    for x in names_in(n.value):
                        flows.setdefault(x, set()).add(t.id)
                elif isinstance(t, ast.Attribute):
                    for x in names_in(n.value):
                        fields.setdefault(x, set()).add(t.attr)
            elif isinstance(n, ast.AugAssign) and isinstance(n.target, ast.Attribute):
                for x in names_in(n.value):
                    fields.setdefault(x, set()).add(n.target.attr)
            elif isinstance(n, ast.AugAssign) and isinstance(n.target, ast.Name):
                for x in names_in(n.value):
                    flows.setdefault(x, set()).add(n.target.id)
            elif isinstance(n, (ast.Return, ast.Yield, ast.YieldFrom)) and n.value is not None:
                for x in names_in(n.value):
                    fields.setdefault(x, set()).add("<return>")
            elif isinstance(n, ast.Call) and isinstance(n.func, ast.Attribute) and n.func.attr in ("append", "extend", "insert", "add") and n.args:
                recv = n.func.value
                if isinstance(recv, ast.Attribute):
                    for x in names_in(n.args[-1]):
                        fields.setdefault(x, set()).add(recv.attr)
                elif isinstance(recv, ast.Name):
                    for x in names_in(n.args[-1]):
                        flows.setdefault(x, set()).add(recv.id)
        # A value is discarded when no name it flows into is ever read except as the source of another such flow (and none
        # reaches a field, a return or a yield): count all loads of a name and the loads that are flow sources
        loads: dict[str, int] = {}
        for n in ast.walk(fi.node):
            if isinstance(n, ast.Name) and isinstance(n.ctx, ast.Load):
                loads[n.id] = loads.get(n.id, 0) + 1
        flow_loads: dict[str, int] = {}
        for n in walk_own(fi.node):
            src = None
            if isinstance(n, ast.Assign) and len(n.targets) == 1 and isinstance(n.targets[0], ast.Name):
                src = n.value
            elif isinstance(n, ast.AugAssign) and isinstance(n.target, ast.Name):
                src = n.value
            elif isinstance(n, ast.Call) and isinstance(n.func, ast.Attribute) and n.func.attr in ("append", "extend", "insert", "add") and n.args and isinstance(n.func.value, ast.Name):
                src = n.args[-1]
            if src is not None:
                for x in ast.walk(src):
                    if isinstance(x, ast.Name) and isinstance(x.ctx, ast.Load):
                        flow_loads[x.id] = flow_loads.get(x.id, 0) + 1
        assigned_locals = {n.targets[0].id for n in walk_own(fi.node) if isinstance(n, ast.Assign) and len(n.targets) == 1 and isinstance(n.targets[0], ast.Name)}

        def flowset(name, seen=None):
            seen = seen if seen is not None else set()
            if name in seen:
                return seen
            seen.add(name)
            for y in flows.get(name, ()):
                flowset(y, seen)
            return seen

        def dead(name) -> bool:
            fs = flowset(name)
            return name in assigned_locals and all(x in assigned_locals and loads.get(x, 0) == flow_loads.get(x, 0) for x in fs)

        def closure(name, seen=None):
            seen = seen or set()
            if name in seen:
                return set()
            seen.add(name)
            out = set(fields.get(name, ()))
            for y in flows.get(name, ()):
                out |= closure(y, seen)
            return out
        def visit(lst):
            for a in lst:
                if isinstance(a, (Emit, Call, GenLoop, Loop)) and a.dest:
                    reached = closure(a.dest)
                    # a local that is computed from the text and then flows into no field, no return and no yield: the text goes nowhere
                    a.sinks = a.sinks | (frozenset(reached) if reached else frozenset(["<discarded>"]) if dead(a.dest) else frozenset())
                if isinstance(a, (Loop, GenLoop, Same)):
                    visit(a.body)
                elif isinstance(a, Guard):
                    visit(a.body)
                    visit(a.orelse)
        visit(acts)

    # ------------------------------------------------------------ wrapping acts on non-current vars
    def wrap(self, fi, st: _St, var: str, acts: list) -> list:
        if not acts:
            return acts
        if var == st.cur:
            return acts
        org = st.nodes.get(var)
        if org and org[0] == "find":
            _, src, axis, pred = org
            inner = Loop(var, src, axis, pred, acts, first=True, site=f"{fi.qual}: {var} = find")
            return self.wrap(fi, st, src, [inner])
        raise AnalysisError(f"treewalk: {fi.key}: traversal from '{var}' while the current node is '{st.cur}' (unsupported shape)")

    # ------------------------------------------------------------ tests
    def tag_expr_var(self, e: ast.AST, st: _St) -> str | None:
        if isinstance(e, ast.Attribute) and e.attr == "tag":
            return st.node(e.value)
        if isinstance(e, ast.Name) and e.id in st.tagalias:
            return st.tagalias[e.id]
        if self.dict_nodes:
            dk = _dict_key(e)
            if dk and dk[1] == "tag":
                return st.node(dk[0])
        return None

    def tag_test(self, fi, t: ast.AST, st: _St):
        """-> (var, Pred) for a test on a node's tag, else None."""
        if isinstance(t, ast.UnaryOp) and isinstance(t.op, ast.Not):
            r = self.tag_test(fi, t.operand, st)
            return (r[0], Pred("not", sub=[r[1]])) if r else None
        if isinstance(t, ast.BoolOp):
            rs = [self.tag_test(fi, v, st) for v in t.values]
            if all(rs) and len({r[0] for r in rs}) == 1:
                return rs[0][0], Pred("and" if isinstance(t.op, ast.And) else "or", sub=[r[1] for r in rs])
            return None
        if isinstance(t, ast.Name) and t.id in st.tagmap:
            var, table = st.tagmap[t.id]
            return var, Pred("in", frozenset(k for k, val in table.items() if val))
        if isinstance(t, ast.Compare) and len(t.ops) == 1 and isinstance(t.left, ast.Name) and t.left.id in st.tagmap:
            var, table = st.tagmap[t.left.id]
            op, rhs = t.ops[0], t.comparators[0]
            val = self.fold(fi, rhs, st)
            if val is UNKNOWN:
                return None
            keys_eq = lambda pred: frozenset(k for k, x in table.items() if pred(x))
            if isinstance(op, (ast.Is, ast.IsNot)) and val is None:
                pr = Pred("in", frozenset(table))  # looked-up value is not None  <=>  the tag is a key
                return var, (Pred("not", sub=[pr]) if isinstance(op, ast.Is) else pr)
            if isinstance(op, (ast.Eq, ast.NotEq)):
                pr = Pred("in", keys_eq(lambda x: x == val))
                return var, (pr if isinstance(op, ast.Eq) else Pred("not", sub=[pr]))
            if isinstance(op, (ast.In, ast.NotIn)):
                try:
                    pr = Pred("in", keys_eq(lambda x: x in val))
                except TypeError:
                    return None
                return var, (pr if isinstance(op, ast.In) else Pred("not", sub=[pr]))
            return None
        if isinstance(t, ast.Compare) and len(t.ops) == 1:
            v = self.tag_expr_var(t.left, st)
            if v is None:
                return None
            op, rhs = t.ops[0], t.comparators[0]
            val = self.fold(fi, rhs, st)
            if val is UNKNOWN:
                raise AnalysisError(f"treewalk: {fi.key}: tag compared with a non-constant: {short(t)}")
            if isinstance(op, (ast.Eq, ast.NotEq)):
                if not isinstance(val, str):
                    return None
                pr = self._tag_pred(fi, val)
                return v, (pr if isinstance(op, ast.Eq) else Pred("not", sub=[pr]))
            if isinstance(op, (ast.In, ast.NotIn)):
                try:
                    tags = frozenset(val)
                except TypeError:
                    return None
                pr = Pred("in", tags)
                return v, (pr if isinstance(op, ast.In) else Pred("not", sub=[pr]))
            return None
        if isinstance(t, ast.Call) and isinstance(t.func, ast.Attribute) and t.func.attr in ("endswith", "startswith") and len(t.args) == 1:
            v = self.tag_expr_var(t.func.value, st)
            if v is None:
                return None
            val = self.fold(fi, t.args[0], st)
            kind = "suffix" if t.func.attr == "endswith" else "prefix"
            if isinstance(val, str):
                return v, Pred(kind, val)
            if isinstance(val, tuple):
                return v, Pred("or", sub=[Pred(kind, x) for x in val])
            raise AnalysisError(f"treewalk: {fi.key}: tag tested against a non-constant: {short(t)}")
        return None

    def truth(self, fi, t: ast.AST, st: _St):
        """Constant truth of a non-tag test: True / False / None (unknown)."""
        if isinstance(t, ast.UnaryOp) and isinstance(t.op, ast.Not):
            v = self.truth(fi, t.operand, st)
            return None if v is None else not v
        if isinstance(t, ast.Name) and t.id in st.cenv:
            return bool(st.cenv[t.id])
        if isinstance(t, ast.Constant):
            return bool(t.value)
        if isinstance(t, ast.Compare) and len(t.ops) == 1 and isinstance(t.comparators[0], ast.Constant) and t.comparators[0].value is None:
            n = st.node(t.left)
            if n is not None:
                return isinstance(t.ops[0], ast.IsNot)
        if isinstance(t, ast.BoolOp):
            vals = [self.truth(fi, v, st) for v in t.values]
            if isinstance(t.op, ast.And):
                if any(v is False for v in vals):
                    return False
                known = [v for v in vals if v is not None]
                if len(known) == len(vals):
                    return True
                return None
            if any(v is True for v in vals):
                return True
            if all(v is False for v in vals):
                return False
        if st.node(t) is not None:
            return True  # `if node:` -- taken as present
        if isinstance(t, ast.Compare) and len(t.ops) == 1:
            a, b = self.fold(fi, t.left, st), self.fold(fi, t.comparators[0], st)
            if a is not UNKNOWN and b is not UNKNOWN:
                op = t.ops[0]
                try:
                    if isinstance(op, ast.Eq):
                        return a == b
                    if isinstance(op, ast.NotEq):
                        return a != b
                    if isinstance(op, ast.In):
                        return a in b
                    if isinstance(op, ast.NotIn):
                        return a not in b
                except TypeError:
                    return None
        return None

    # ------------------------------------------------------------ iterables
    def iter_spec(self, fi, it: ast.AST, st: _St):
        """-> list of ('axis', src, axis, pred) | ('gen', Call) | ('list', name)  or None when not a node iteration."""
        while isinstance(it, ast.Call) and isinstance(it.func, ast.Name) and it.func.id in ("list", "sorted", "reversed", "tuple", "iter") and it.args:
            it = it.args[0]
        n = st.node(it)
        if n is not None and not self.dict_nodes:
            return [("axis", n, "child", ANY)]
        if self.dict_nodes:
            dk = _dict_key(it)
            if dk and dk[1] == "children" and st.node(dk[0]) is not None:
                return [("axis", st.node(dk[0]), "child", ANY)]
        if isinstance(it, ast.Name) and it.id in self._lists_chain(st):
            return [("list", it.id)]
        if isinstance(it, ast.Call) and isinstance(it.func, ast.Attribute):
            base = st.node(it.func.value)
            if base is not None:
                a = it.func.attr
                if a == "iter":
                    if not it.args:
                        return [("axis", base, "desc_self", ANY)]
                    pr = self.tags_of(fi, it.args[0], st)
                    if pr is None:
                        raise AnalysisError(f"treewalk: {fi.key}: non-constant tag in {short(it)}")
                    return [("axis", base, "desc_self", pr)]
                if a in ("findall", "iterfind"):
                    v = self.fold(fi, it.args[0], st)
                    if not isinstance(v, str):
                        raise AnalysisError(f"treewalk: {fi.key}: non-constant path in {short(it)}")
                    if v.startswith(".//"):
                        return [("axis", base, "desc", self._tag_pred(fi, v[3:]))]
                    steps = split_path(v)
                    return [("path", base, [self._tag_pred(fi, s) for s in steps])]
                if a in ("get",):
                    return None
        if isinstance(it, ast.Call):
            tg = resolve_call(self.p, fi, it)
            for f in tg.funcs:
                if f.is_generator() or True:
                    c = self.call_act(fi, it, f, st)
                    if c is not None:
                        return [("gen", c)]
        return None

    def call_act(self, fi, call: ast.Call, callee: FuncInfo, st: _St) -> Call | None:
        a = callee.node.args
        names = [x.arg for x in a.posonlyargs + a.args]
        if names and names[0] in ("self", "cls") and isinstance(call.func, ast.Attribute):
            names = names[1:]
        bound: list[tuple[str, str]] = []
        cenv = {}
        pairs = list(zip(names, call.args)) + [(k.arg, k.value) for k in call.keywords if k.arg]
        for pname, arg in pairs:
            n = st.node(arg)
            if n is not None:
                bound.append((pname, n))
                continue
            if any(isinstance(x, ast.BinOp) for x in ast.walk(arg)):
                continue  # counters (depth + 1) would make every recursion level a new constant environment
            v = self.fold(fi, arg, st)
            if v is not UNKNOWN:
                try:
                    hash(v)
                except TypeError:
                    v = frozenset(v) if isinstance(v, (set, list)) else UNKNOWN
                if v is not UNKNOWN:
                    cenv[pname] = v
        if not bound:
            return None
        if len(bound) > 1:
            # several nodes passed: follow the innermost (current) one
            cur = [b for b in bound if b[1] == st.cur]
            bound = cur or bound[:1]
        pname, var = bound[0]
        return Call(callee, pname, var, tuple(sorted(cenv.items(), key=lambda kv: kv[0])), site=f"{fi.qual}: {short(call, 60)}")

    # ------------------------------------------------------------ expressions
    def expr(self, fi, e: ast.AST, st: _St, test: bool = False) -> list:
        """Acts performed by evaluating `e` (order of evaluation; comprehension loops become Loop acts)."""
        acts: list = []
        if e is None:
            return acts
        if isinstance(e, ast.Attribute) and e.attr in ("text", "tail"):
            n = st.node(e.value)
            if n is not None:
                if not test:
                    acts += self.wrap(fi, st, n, [Emit(n, e.attr, site=f"{fi.qual}: {norm(e)}")])
                return acts
        if self.dict_nodes:
            dk = _dict_key(e)
            if dk and dk[1] in ("text", "tail", "tag", "children", "attrs") and st.node(dk[0]) is not None:
                n = st.node(dk[0])
                if dk[1] in ("text", "tail") and not test:
                    acts += self.wrap(fi, st, n, [Emit(n, dk[1], site=f"{fi.qual}: {norm(e)}")])
                return acts
        if isinstance(e, (ast.ListComp, ast.SetComp, ast.GeneratorExp, ast.DictComp)):
            return self.comp(fi, e, 0, st)
        if isinstance(e, ast.Call):
            tg = resolve_call(self.p, fi, e)
            fname = e.func.attr if isinstance(e.func, ast.Attribute) else (e.func.id if isinstance(e.func, ast.Name) else "")
            if fname in self.opaque:
                for arg in e.args:
                    n = st.node(arg)
                    if n is not None:
                        acts += self.wrap(fi, st, n, [Emit(n, "subtree", site=f"{fi.qual}: {short(e, 60)}")])
                return acts
            if tg.funcs and fname not in self.ignore:
                done = False
                for f in tg.funcs[:1]:
                    c = self.call_act(fi, e, f, st)
                    if c is not None:
                        acts += self.wrap(fi, st, c.var, [c])
                        done = True
                if done:
                    for arg in list(e.args) + [k.value for k in e.keywords]:
                        if st.node(arg) is None:
                            acts += self.expr(fi, arg, st)
                    return acts
            # next(X.iter(T), None) in value position: first match, nothing read
            for ch in ast.iter_child_nodes(e):
                acts += self.expr(fi, ch, st, test)
            return acts
        if isinstance(e, ast.IfExp):
            tv = self.truth(fi, e.test, st)
            acts += self.expr(fi, e.test, st, True)
            if tv is not False:
                acts += self.expr(fi, e.body, st, test)
            if tv is True:
                return acts
            if tv is None and self._has_acts(fi, e.orelse, st) and self._has_acts(fi, e.body, st):
                raise AnalysisError(f"treewalk: {fi.key}: value-dependent choice between two traversals: {short(e)}")
            acts += self.expr(fi, e.orelse, st, test)
            return acts
        if isinstance(e, ast.Compare):
            for ch in ast.iter_child_nodes(e):
                acts += self.expr(fi, ch, st, True)
            return acts
        if isinstance(e, ast.Lambda):
            return acts
        for ch in ast.iter_child_nodes(e):
            if isinstance(ch, ast.expr):
                acts += self.expr(fi, ch, st, test)
        return acts

    def returned_nodes(self, fi, e: ast.AST, st: _St) -> list:
        """`return <nodes>`: a list of nodes handed to the caller counts as yielding them (for `for x in helper(node)`)."""
        if isinstance(e, (ast.ListComp, ast.GeneratorExp)) and len(e.generators) == 1 and isinstance(e.elt, ast.Name) \
                and isinstance(e.generators[0].target, ast.Name) and e.elt.id == e.generators[0].target.id:
            g = e.generators[0]
            spec = self.iter_spec(fi, g.iter, st)
            if spec is not None:
                var = g.target.id

                def body_fn(st2: _St):
                    inner: list = [Yield(var)]
                    for cond in reversed(g.ifs):
                        tt = self.tag_test(fi, cond, st2)
                        if tt is not None:
                            inner = [Guard(tt[0], tt[1], inner, [])]
                    return inner

                return self.loops(fi, spec, var, st, body_fn, site=f"{fi.qual}: return [.. for {var} in {short(g.iter, 40)}]")
        if isinstance(e, ast.Name) and e.id in self._lists_chain(st):
            return self.loops(fi, [("list", e.id)], "__r", st, lambda st2: [Yield("__r")], site=f"{fi.qual}: return {e.id}")
        spec = self.iter_spec(fi, e, st) if isinstance(e, ast.Call) and isinstance(e.func, ast.Attribute) and e.func.attr in ("findall", "iter") else None
        if spec is not None:
            return self.loops(fi, spec, "__r", st, lambda st2: [Yield("__r")], site=f"{fi.qual}: return {short(e, 40)}")
        return self.expr(fi, e, st)

    def _has_acts(self, fi, e, st) -> bool:
        saved = len(self.sites)
        try:
            return bool(self.expr(fi, e, st))
        finally:
            del self.sites[saved:]

    def comp(self, fi, e, gi: int, st: _St) -> list:
        gens = e.generators
        if gi == len(gens):
            elt_acts = []
            if isinstance(e, ast.DictComp):
                elt_acts += self.expr(fi, e.key, st) + self.expr(fi, e.value, st)
            else:
                elt_acts += self.expr(fi, e.elt, st)
            return elt_acts
        g = gens[gi]
        spec = self.iter_spec(fi, g.iter, st)
        if spec is None:
            acts = self.expr(fi, g.iter, st)
            return acts + self.comp(fi, e, gi + 1, st)
        if not isinstance(g.target, ast.Name):
            raise AnalysisError(f"treewalk: {fi.key}: tuple target over a node iteration in a comprehension: {short(e)}")

        def body_fn(st2: _St):
            inner = self.comp(fi, e, gi + 1, st2)
            # tag conditions of the comprehension filter
            for cond in reversed(g.ifs):
                tt = self.tag_test(fi, cond, st2)
                if tt is not None:
                    inner = self.wrap(fi, st2, tt[0], [Guard(tt[0], tt[1], inner, [])])
            return inner

        return self.loops(fi, spec, g.target.id, st, body_fn, site=f"{fi.qual}: {short(g.iter, 50)}")

    # ------------------------------------------------------------ loops
    def loops(self, fi, spec, var: str, st: _St, body_fn, site: str, tuple_index=None) -> list:
        out: list = []
        for sp in spec:
            if sp[0] == "list":
                for (rel, final) in self._lists_owner(st, sp[1]).lists[sp[1]]["entries"]:
                    out += self._replay(fi, rel, final, var, st, body_fn, site, tuple_names=tuple_index)
                continue
            if sp[0] == "path":
                _, src, preds = sp
                if len(preds) == 1:
                    out += self.loops(fi, [("axis", src, "child", preds[0])], var, st, body_fn, site)
                    continue
                # a/b/c : nested child loops over synthetic vars
                def nest(i, srcv, st_cur):
                    v = var if i == len(preds) - 1 else f"__{var}_{i}"
                    st2 = self._enter(st_cur, v, ("axis", srcv, "child", preds[i]))
                    body = body_fn(st2) if i == len(preds) - 1 else nest(i + 1, v, st2)
                    return [Loop(v, srcv, "child", preds[i], body, site=site)]
                out += self.wrap(fi, st, src, nest(0, src, st))
                continue
            if sp[0] == "axis":
                _, src, axis, pred = sp
                st2 = self._enter(st, var, ("axis", src, axis, pred))
                st2.marked = pred.kind == "in" and any(t in self.mark_tags for t in pred.arg)
                body = body_fn(st2)
                mark = [Mark(var, self.mark_tags[t]) for t in (pred.arg if pred.kind == "in" else ()) if t in self.mark_tags]
                lp = Loop(var, src, axis, pred, mark + body, site=site)
                self.sites.append(f"{site} [{axis} {pred!r}]")
                out += self.wrap(fi, st, src, [lp])
                continue
            if sp[0] == "gen":
                c: Call = sp[1]
                st2 = self._enter(st, var, ("gen", c))
                st2.marked = bool(self.mark_tags) and any(isinstance(a, ast.Constant) is False for a in [0]) and self._gen_yields_marked(c)
                body = body_fn(st2)
                self.sites.append(f"{site} [generator {c.fi.qual}]")
                if len(body) == 1 and isinstance(body[0], Yield) and body[0].var == var:
                    # `for x in helper(n): yield x` is `yield from helper(n)`: no new continuation (keeps recursion finite-state)
                    c2 = Call(c.fi, c.param, c.var, c.cenv, propagate_yield=True, site=c.site)
                    out += self.wrap(fi, st, c.var, [c2])
                    continue
                mark = [Guard(var, Pred("in", frozenset([t])), [Mark(var, mn)], []) for t, mn in self.mark_tags.items()]
                out += self.wrap(fi, st, c.var, [GenLoop(var, c, mark + body, site=site)])
                continue
        return out

    def _gen_yields_marked(self, c: "Call") -> bool:
        """Does the generator call enumerate a marked tag (a constant tuple / tag argument naming it)?"""
        for _k, v in c.cenv:
            vals = v if isinstance(v, (tuple, frozenset, list, set)) else (v,)
            if any(isinstance(x, str) and x in self.mark_tags for x in vals):
                return True
        return False

    def _tuple_node_index(self, st: _St, spec, arity: int):
        """When a loop iterates a list of tuples collected earlier: which component holds the node (same for all entries)."""
        idxs = set()
        for sp in spec or []:
            if sp[0] != "list":
                return None
            owner = self._lists_owner(st, sp[1])
            for (_rel, final) in owner.lists[sp[1]]["entries"]:
                if final[0] != "var" or len(final) < 3 or final[2] is None or final[2]["arity"] != arity:
                    return None
                idxs.add(final[2]["node_index"])
        return idxs.pop() if len(idxs) == 1 else None

    def _replay(self, fi, rel: list, final, var: str, st: _St, body_fn, site: str, tuple_names=None) -> list:
        """Re-create the loops / guards under which a node was collected into a list, then run the consumer's body on it."""
        def build(i: int, st_cur: _St) -> list:
            if i == len(rel):
                if final[0] == "spec":
                    return self.loops(fi, [final[1]], var, st_cur, body_fn, site)
                v = final[1]
                st2 = self._enter(st_cur, var, None)
                st2.chain = list(st_cur.chain)
                tinfo = final[2] if len(final) > 2 else None
                if tinfo and tuple_names:
                    # the other components of the collected tuple: constants, or values looked up from the node's tag
                    for j, nm in enumerate(tuple_names):
                        if nm is None or j == tinfo["node_index"]:
                            continue
                        if j in tinfo["consts"]:
                            st2.cenv[nm] = tinfo["consts"][j]
                        elif j in tinfo["tagmaps"]:
                            st2.tagmap[nm] = (var, tinfo["tagmaps"][j])
                        else:
                            st2.cenv.pop(nm, None)
                return self.wrap(fi, st_cur, v, [Same(var, body_fn(st2))])
            el = rel[i]
            if el[0] == "loop":
                _, v, spec = el
                return self.loops(fi, [spec], v, st_cur, lambda st2: build(i + 1, st2), site)
            _, v, pred, pol = el
            inner = build(i + 1, st_cur)
            return self.wrap(fi, st_cur, v, [Guard(v, pred, inner if pol else [], [] if pol else inner)])
        return build(0, st)

    @staticmethod
    def _enter(st: _St, var: str, spec) -> _St:
        st2 = _St(var, st.cenv)
        st2.nodes = {var: ("loop",)}
        # find-derived vars stay reachable only from their own source; a fresh scope keeps names honest
        st2.alias, st2.tagalias, st2.lists = {}, {}, dict(st.lists)
        st2.loopspec = dict(st.loopspec)
        if spec is not None:
            st2.loopspec[var] = spec
        st2.chain = list(st.chain) + [("loop", var, spec)]
        st2.outer = st
        return st2

    # ------------------------------------------------------------ statements
    def seq(self, fi, stmts: list, st: _St):
        acts: list = []
        for idx, s in enumerate(stmts):
            if isinstance(s, (ast.Return,)):
                if s.value is not None:
                    acts += self.returned_nodes(fi, s.value, st)
                return acts, True
            if isinstance(s, (ast.Continue, ast.Break, ast.Raise)):
                return acts, True
            if isinstance(s, ast.If):
                tt = self.tag_test(fi, s.test, st)
                if tt is not None:
                    v, pr = tt
                    base_chain = st.chain
                    st.chain = base_chain + [("guard", v, pr, True)]
                    b, bt = self.seq(fi, s.body, st)
                    st.chain = base_chain + [("guard", v, pr, False)]
                    e, et = self.seq(fi, s.orelse, st)
                    st.chain = base_chain
                    if self.mark_tags and pr.kind == "in" and any(t in self.mark_tags for t in pr.arg) and v == st.cur and not getattr(st, "marked", False) and st.cur in st.loopspec \
                            and not any(isinstance(a, Yield) for a in b) and not fi.is_generator() and not self.returns_nodes(fi):
                        # the loop variable is selected by tag inside the loop body (for child in row: if child.tag in (td, th): ...)
                        b = [Guard(v, Pred("in", frozenset([t])), [Mark(v, mn)], []) for t, mn in self.mark_tags.items() if t in pr.arg] + b
                    if not bt and not et:
                        acts += self.wrap(fi, st, v, [Guard(v, pr, b, e)])
                        continue
                    if bt and not et:
                        st.chain = base_chain + [("guard", v, pr, False)]
                    elif et and not bt:
                        st.chain = base_chain + [("guard", v, pr, True)]
                    rest, rt = self.seq(fi, stmts[idx + 1:], st)
                    st.chain = base_chain
                    body = b if bt else b + rest
                    orelse = e if et else e + rest
                    if self.mark_tags and v == st.cur and not getattr(st, "marked", False) and st.cur in st.loopspec and pr.kind == "not" and pr.sub[0].kind == "in" \
                            and any(t in self.mark_tags for t in pr.sub[0].arg) and bt and not fi.is_generator() and not self.returns_nodes(fi) \
                            and not any(isinstance(a, Guard) and a.body and isinstance(a.body[0], Mark) for a in orelse):
                        # `if child.tag != CELL: continue` (or `not in (TD, TH)`): what follows is the selected branch
                        orelse = [Guard(v, Pred("in", frozenset([t])), [Mark(v, mn)], []) for t, mn in self.mark_tags.items() if t in pr.sub[0].arg] + orelse
                    acts += self.wrap(fi, st, v, [Guard(v, pr, body, orelse)])
                    return acts, (bt or rt) and (et or rt)
                tv = self.truth(fi, s.test, st)
                acts += self.expr(fi, s.test, st, True)
                if tv is True:
                    b, bt = self.seq(fi, s.body, st)
                    acts += b
                    if bt:
                        return acts, True
                    continue
                if tv is False:
                    e, et = self.seq(fi, s.orelse, st)
                    acts += e
                    if et:
                        return acts, True
                    continue
                # value test: the document decides. Branches without traversal are bookkeeping.
                b, bt = self.seq(fi, s.body, st)
                e, et = self.seq(fi, s.orelse, st)
                if b and e:
                    raise AnalysisError(f"treewalk: {fi.key}: value-dependent choice between two traversals: if {short(s.test)}")
                if b:
                    if bt:
                        rest, rt = self.seq(fi, stmts[idx + 1:], st)
                        if rest:
                            raise AnalysisError(f"treewalk: {fi.key}: traversal both inside and after a value-dependent early exit: if {short(s.test)}")
                        # the branch leaves; without it the rest runs (it holds no traversal): control leaves this list iff the rest does
                        return acts + b, rt
                    acts += b
                    continue
                if e:
                    acts += e
                    if et:
                        return acts, False
                    continue
                # no traversal in either branch: an early exit here only skips (empty leaf etc.)
                if (bt or et) and getattr(st, "marked", False):
                    self.filters.append((fi, st.cur, s.test))
                continue
            if isinstance(s, (ast.For, ast.AsyncFor)):
                spec = self.iter_spec(fi, s.iter, st)
                if spec and len(spec) == 1 and spec[0][0] == "gen" and not spec[0][1].fi.is_generator() and not self.returns_nodes(spec[0][1].fi) \
                        and not self._returns_node_expr(spec[0][1].fi):
                    spec = None  # a helper that returns values (not nodes): a plain call, then a loop over its results
                if spec is None:
                    acts += self.expr(fi, s.iter, st)
                    b, _ = self.seq(fi, s.body, st)
                    acts += b
                    e, _ = self.seq(fi, s.orelse, st)
                    acts += e
                    continue
                tgt = s.target
                tuple_index = None
                if isinstance(tgt, ast.Tuple):
                    # enumerate(...) or a list of tuples holding the node
                    if isinstance(s.iter, ast.Call) and isinstance(s.iter.func, ast.Name) and s.iter.func.id == "enumerate":
                        tgt = tgt.elts[1]
                    else:
                        tuple_names = [t.id if isinstance(t, ast.Name) else None for t in tgt.elts]
                        idx_node = self._tuple_node_index(st, spec, len(tgt.elts))
                        if idx_node is None:
                            names = [t for t in tgt.elts if isinstance(t, ast.Name) and t.id != "_"]
                            if len(names) != 1:
                                raise AnalysisError(f"treewalk: {fi.key}: cannot tell which tuple component is the node in for {short(s.target)}")
                            tgt = names[0]
                        else:
                            tgt = tgt.elts[idx_node]
                            tuple_index = tuple_names
                if not isinstance(tgt, ast.Name):
                    raise AnalysisError(f"treewalk: {fi.key}: unsupported loop target {short(s.target)}")
                acts += self.loops(fi, spec, tgt.id, st, lambda st2: self.seq(fi, s.body, st2)[0], site=f"{fi.qual}: for {short(s.target, 20)} in {short(s.iter, 50)}", tuple_index=tuple_index)
                continue
            if isinstance(s, ast.While):
                b, _ = self.seq(fi, s.body, st)
                if b:
                    raise AnalysisError(f"treewalk: {fi.key}: traversal inside a while loop")
                continue
            if isinstance(s, (ast.With, ast.AsyncWith)):
                b, bt = self.seq(fi, s.body, st)
                acts += b
                if bt:
                    return acts, True
                continue
            if isinstance(s, ast.Try):
                b, bt = self.seq(fi, s.body + s.orelse, st)
                acts += b
                f, ft = self.seq(fi, s.finalbody, st)
                acts += f
                if bt or ft:
                    return acts, True
                continue
            if isinstance(s, (ast.FunctionDef, ast.AsyncFunctionDef, ast.ClassDef, ast.Import, ast.ImportFrom, ast.Pass, ast.Global, ast.Nonlocal, ast.Assert, ast.Delete)):
                continue
            if isinstance(s, (ast.Assign, ast.AnnAssign)):
                targets = s.targets if isinstance(s, ast.Assign) else [s.target]
                val = s.value
                if val is None:
                    continue
                if len(targets) == 1 and isinstance(targets[0], ast.Name):
                    name = targets[0].id
                    if self.bind(fi, name, val, st):
                        continue
                    # constant local?
                    cv = self.fold(fi, val, st)
                    if cv is not UNKNOWN and isinstance(cv, (str, int, bool, frozenset, tuple, type(None), dict)):
                        st.cenv[name] = cv
                    else:
                        st.cenv.pop(name, None)
                    va = self.expr(fi, val, st)
                    self._tag_dest(va, name=name)
                    acts += va
                    continue
                acts += self.expr(fi, val, st)
                continue
            if isinstance(s, ast.AugAssign):
                acts += self.expr(fi, s.value, st)
                continue
            if isinstance(s, ast.Expr):
                v = s.value
                if isinstance(v, (ast.Yield, ast.YieldFrom)):
                    if isinstance(v, ast.Yield):
                        n = st.node(v.value) if v.value is not None else None
                        if n is not None:
                            acts += self.wrap(fi, st, n, [Yield(n)])
                        else:
                            acts += self.expr(fi, v.value, st)
                    else:
                        inner = v.value
                        done = False
                        if isinstance(inner, ast.Call):
                            tg = resolve_call(self.p, fi, inner)
                            for f in tg.funcs[:1]:
                                c = self.call_act(fi, inner, f, st)
                                if c is not None:
                                    c.propagate_yield = True
                                    acts += self.wrap(fi, st, c.var, [c])
                                    done = True
                        if not done:
                            spec = self.iter_spec(fi, inner, st)
                            if spec is not None:
                                acts += self.loops(fi, spec, "__y", st, lambda st2: [Yield("__y")], site=f"{fi.qual}: yield from {short(inner, 50)}")
                            else:
                                acts += self.expr(fi, inner, st)
                    continue
                # L.append(node) / L.extend(X.findall(T)) bookkeeping of node lists
                if isinstance(v, ast.Call) and isinstance(v.func, ast.Attribute) and isinstance(v.func.value, ast.Name) and v.func.attr in ("append", "extend") and len(v.args) == 1:
                    if self.list_add(fi, v.func.value.id, v.func.attr, v.args[0], st):
                        continue
                va = self.expr(fi, v, st)
                if isinstance(v, ast.Call) and not (isinstance(v.func, ast.Attribute) and v.func.attr in ("append", "extend", "insert", "add")):
                    tg = resolve_call(self.p, fi, v)
                    if tg.funcs and all(self._returns_value(g) for g in tg.funcs):
                        # a value-returning helper called for its side effects only: what it read for its result goes nowhere
                        self._tag_dest(va, sinks=frozenset(["<discarded>"]))
                if isinstance(v, ast.Call) and isinstance(v.func, ast.Attribute) and v.func.attr in ("append", "extend", "insert", "add"):
                    recv = v.func.value
                    if isinstance(recv, ast.Attribute):
                        self._tag_dest(va, sinks=frozenset([recv.attr]))
                    elif isinstance(recv, ast.Name):
                        self._tag_dest(va, name=recv.id)
                acts += va
                continue
            if isinstance(s, ast.Match):
                raise AnalysisError(f"treewalk: {fi.key}: match statement")
        return acts, False

    def bind(self, fi, name: str, val: ast.AST, st: _St) -> bool:
        """Assignments that define node variables / tag aliases / node lists. True when fully handled."""
        n = st.node(val)
        if n is not None:
            st.alias[name] = n
            return True
        if isinstance(val, ast.Attribute) and val.attr == "tag" and st.node(val.value) is not None:
            st.tagalias[name] = st.node(val.value)
            return True
        if self.dict_nodes:
            dk = _dict_key(val)
            if dk and dk[1] == "tag" and st.node(dk[0]) is not None:
                st.tagalias[name] = st.node(dk[0])
                return True
        if isinstance(val, ast.Call) and isinstance(val.func, ast.Attribute) and val.func.attr == "find" and st.node(val.func.value) is not None and val.args:
            src = st.node(val.func.value)
            v = self.fold(fi, val.args[0], st)
            if not isinstance(v, str):
                raise AnalysisError(f"treewalk: {fi.key}: non-constant path in {short(val)}")
            if v.startswith(".//"):
                st.nodes[name] = ("find", src, "desc", self._tag_pred(fi, v[3:]))
                st.alias.pop(name, None)
                return True
            steps = split_path(v)
            cur = src
            for i, sname in enumerate(steps):
                vn = name if i == len(steps) - 1 else f"__{name}_{i}"
                st.nodes[vn] = ("find", cur, "child", self._tag_pred(fi, sname))
                cur = vn
            st.alias.pop(name, None)
            return True
        if isinstance(val, ast.Call) and isinstance(val.func, ast.Name) and val.func.id == "next" and val.args:
            spec = self.iter_spec(fi, val.args[0], st) if not isinstance(val.args[0], ast.GeneratorExp) else None
            if spec and spec[0][0] == "axis":
                _, src, axis, pred = spec[0]
                st.nodes[name] = ("find", src, axis, pred)
                return True
        if isinstance(val, ast.Call) and isinstance(val.func, ast.Attribute) and val.func.attr == "get" and len(val.args) == 1:
            tv = self.tag_expr_var(val.args[0], st)
            if tv is not None:
                table = self.fold(fi, val.func.value, st)
                if isinstance(table, dict):
                    st.tagmap[name] = (tv, dict(table))
                    st.cenv.pop(name, None)
                    return True
        if name in st.tagmap:
            del st.tagmap[name]
        # list of nodes
        spec = None
        if isinstance(val, (ast.List,)) and not val.elts:
            st.lists[name] = {"base": len(st.chain), "entries": []}
            return True
        if isinstance(val, ast.Call):
            try:
                spec = self.iter_spec(fi, val, st)
            except AnalysisError:
                raise
            if spec and all(sp[0] in ("axis", "path", "gen") for sp in spec) and isinstance(val.func, (ast.Attribute, ast.Name)):
                fname = val.func.attr if isinstance(val.func, ast.Attribute) else val.func.id
                if fname in ("findall", "list", "sorted", "iter", "iterfind", "reversed", "tuple"):
                    st.lists[name] = {"base": len(st.chain), "entries": [([], ("spec", sp)) for sp in spec]}
                    return True
        return False

    def list_add(self, fi, lname: str, how: str, arg: ast.AST, st: _St) -> bool:
        owner = self._lists_owner(st, lname)
        if owner is None:
            return False
        info = owner.lists[lname]
        rel = list(st.chain[info["base"]:])
        if how == "extend":
            spec = self.iter_spec(fi, arg, st)
            if spec and all(sp[0] in ("axis", "path") or (sp[0] == "gen" and (sp[1].fi.is_generator() or self.returns_nodes(sp[1].fi))) for sp in spec):
                for sp in spec:
                    info["entries"].append((rel, ("spec", sp)))
                return True
            return False
        # append(node) / append((.., node, ..))
        cand = arg.elts if isinstance(arg, ast.Tuple) else [arg]
        nodes_in = [c for c in cand if st.node(c) is not None]
        if not nodes_in:
            return False
        if len(nodes_in) != 1:
            raise AnalysisError(f"treewalk: {fi.key}: several nodes appended at once to {lname}")
        var = st.node(nodes_in[0])
        tinfo = None
        if isinstance(arg, ast.Tuple):
            tinfo = {"arity": len(cand), "node_index": cand.index(nodes_in[0]), "consts": {}, "tagmaps": {}}
            for j, c in enumerate(cand):
                if c is nodes_in[0]:
                    continue
                if isinstance(c, ast.Name) and c.id in st.tagmap and st.tagmap[c.id][0] == var:
                    tinfo["tagmaps"][j] = st.tagmap[c.id][1]
                    continue
                v = self.fold(fi, c, st)
                if v is not UNKNOWN and isinstance(v, (str, int, bool, type(None))):
                    tinfo["consts"][j] = v
        info["entries"].append((rel, ("var", var, tinfo)))
        return True

    @staticmethod
    def _returns_value(fi: FuncInfo) -> bool:
        from .loader import walk_own
        return any(isinstance(n, ast.Return) and n.value is not None and not (isinstance(n.value, ast.Constant) and n.value.value is None) for n in walk_own(fi.node)) \
            and not any(isinstance(n, (ast.Yield, ast.YieldFrom)) for n in walk_own(fi.node))

    @staticmethod
    def _returns_node_expr(fi: FuncInfo) -> bool:
        """`return [e for e in <node iteration> ...]` / `return node.findall(..)` style helpers."""
        from .loader import walk_own
        for n in walk_own(fi.node):
            if isinstance(n, ast.Return) and n.value is not None:
                v = n.value
                if isinstance(v, (ast.ListComp, ast.GeneratorExp)) and isinstance(v.elt, ast.Name) and len(v.generators) == 1 and isinstance(v.generators[0].target, ast.Name) and v.elt.id == v.generators[0].target.id:
                    return True
                if isinstance(v, ast.Call) and isinstance(v.func, ast.Attribute) and v.func.attr in ("findall", "iter", "iterfind"):
                    return True
        return False

    @staticmethod
    def returns_nodes(fi: FuncInfo) -> bool:
        """A helper that collects nodes (its parameter, loop variables, results of itself) into a local list and returns it."""
        from .loader import walk_own
        lists = {n.targets[0].id for n in walk_own(fi.node) if isinstance(n, ast.Assign) and len(n.targets) == 1 and isinstance(n.targets[0], ast.Name) and isinstance(n.value, ast.List) and not n.value.elts}
        rets = {n.value.id for n in walk_own(fi.node) if isinstance(n, ast.Return) and isinstance(n.value, ast.Name) and n.value.id in lists}
        if not rets:
            return False
        params = {a.arg for a in fi.node.args.args}
        loopvars = set()
        for n in walk_own(fi.node):
            if isinstance(n, (ast.For, ast.comprehension)):
                loopvars |= {x.id for x in ast.walk(n.target) if isinstance(x, ast.Name)}
        for n in walk_own(fi.node):
            if isinstance(n, ast.Call) and isinstance(n.func, ast.Attribute) and isinstance(n.func.value, ast.Name) and n.func.value.id in rets and n.args:
                a = n.args[0]
                if n.func.attr == "append" and isinstance(a, ast.Name) and (a.id in params or a.id in loopvars):
                    return True
                if n.func.attr == "extend" and isinstance(a, ast.Call) and isinstance(a.func, (ast.Attribute, ast.Name)):
                    nm = a.func.attr if isinstance(a.func, ast.Attribute) else a.func.id
                    if nm == fi.node.name or nm in ("findall", "iter", "iterfind"):
                        return True
        return False

    def _lists_chain(self, st):
        names = set()
        s = st
        while s is not None:
            names |= set(s.lists)
            s = getattr(s, "outer", None)
        return names

    def _lists_owner(self, st, lname):
        s = st
        owner = None
        while s is not None:
            if lname in s.lists:
                owner = s
            s = getattr(s, "outer", None)
        return owner


# ----------------------------------------------------------------------------- schema


@dataclass
class Kind:
    name: str
    tag: str
    children: list = field(default_factory=list)  # kind names
    text: str | None = None  # 'vis' | 'excl' | None
    tail: str | None = None


class Schema:
    def __init__(self, kinds: dict[str, Kind], root: str):
        self.kinds = kinds
        self.root = root
        for k in kinds.values():
            for c in k.children:
                if c not in kinds:
                    raise AnalysisError(f"schema: unknown child kind {c} in {k.name}")
            tags = [kinds[c].tag for c in k.children]
            if len(tags) != len(set(tags)):
                raise AnalysisError(f"schema: kind {k.name} has two children with one tag (not deterministic)")


# ----------------------------------------------------------------------------- product exploration


class Deviation:
    def __init__(self, verdict, kind, what, count, path, sites):
        self.verdict, self.kind, self.what, self.count, self.path, self.sites = verdict, kind, what, count, path, sites


class Product:
    def __init__(self, ex: Extractor, schema: Schema, marks_expected: dict | None = None, skip_sinks: frozenset = frozenset(), region: frozenset | None = None):
        self.skip_sinks = frozenset(skip_sinks)
        self.region = frozenset(region) if region else None  # character-data expectations apply only below these kinds
        self.ex = ex
        self.schema = schema
        self.reg: list = []  # registry of act lists (watcher bodies)
        self.reg_ids: dict[int, int] = {}
        self.marks_expected = marks_expected or {}  # mark name -> set of kind names where exactly one visit is due

    def rid(self, acts: list) -> int:
        i = self.reg_ids.get(id(acts))
        if i is None:
            i = len(self.reg)
            self.reg.append(acts)
            self.reg_ids[id(acts)] = i
        return i

    # out = dict(text=, tail=, marks=Counter, watchers=Counter, sites=set)
    def expand(self, acts, kind: Kind, cur: str, ky, mult: int, out, depth=0):
        if depth > 60:
            raise AnalysisError("treewalk: unbounded recursion on one node (walker calls itself without descending)")
        for a in acts:
            sk = getattr(a, "sinks", None)
            if sk and sk <= self.skip_sinks:
                continue
            if isinstance(a, Emit):
                if a.var != cur:
                    raise AnalysisError(f"treewalk: act on '{a.var}' while at '{cur}'")
                if a.what == "text":
                    out["text"] += mult
                elif a.what == "tail":
                    out["tail"] += mult
                else:
                    out["text"] += mult
                    out["watchers"][("subtree", out["outer"])] += mult
                out["sites"].add(a.site)
            elif isinstance(a, Mark):
                out["marks"][a.name] += mult
            elif isinstance(a, Guard):
                self.expand(a.body if a.pred(kind.tag) else a.orelse, kind, cur, ky, mult, out, depth + 1)
            elif isinstance(a, Loop):
                axis = a.axis
                if axis == "desc_self":
                    if a.pred(kind.tag):
                        self.expand(a.body, kind, a.var, ky, mult, out, depth + 1)
                    axis = "desc"
                if axis == "path2":
                    raise AnalysisError("treewalk: path2 outside list expansion")
                out["watchers"][(axis, a.pred, self.rid(a.body), a.var, ky, a.site, out["outer"])] += mult
            elif isinstance(a, Call):
                body = self.ex.function(a.fi, a.param, a.cenv)
                self.expand(body, kind, a.param, ky if a.propagate_yield else None, mult, out, depth + 1)
            elif isinstance(a, GenLoop):
                body = self.ex.function(a.call.fi, a.call.param, a.call.cenv)
                ky2 = (self.rid(a.body), a.var, ky)
                self.expand(body, kind, a.call.param, ky2, mult, out, depth + 1)
            elif isinstance(a, Same):
                self.expand(a.body, kind, a.var, ky, mult, out, depth + 1)
            elif isinstance(a, Yield):
                if ky is not None:
                    self.expand(self.reg[ky[0]], kind, ky[1], ky[2], mult, out, depth + 1)
            else:
                raise AssertionError(a)

    @staticmethod
    def _new_out():
        return {"text": 0, "tail": 0, "marks": Counter(), "watchers": Counter(), "sites": set(), "outer": False}

    @staticmethod
    def _merge(dst, src, as_outer: bool):
        """Fold the result of one watcher's expansion into the node result; reads made on behalf of an enclosing cell go to *_outer."""
        sfx = "_outer" if as_outer else ""
        dst["text" + sfx] = dst.get("text" + sfx, 0) + src["text"]
        dst["tail" + sfx] = dst.get("tail" + sfx, 0) + src["tail"]
        dst["marks"].update(src["marks"])
        dst["sites"] |= src["sites"]
        for w, m in src["watchers"].items():
            dst["watchers"][w[:-1] + (as_outer,)] += m

    def run(self, entry: FuncInfo, param: str, cenv: tuple = ()):
        sch = self.schema
        root = sch.kinds[sch.root]
        out = self._new_out()
        self.expand(self.ex.function(entry, param, cenv), root, param, None, 1, out)
        start = (root.name, self._freeze(out["watchers"]), self.region is None or root.name in self.region)
        seen = {start: None}
        q = deque([start])
        devs: list[Deviation] = []
        states = 0
        leaves = 0
        while q:
            stt = q.popleft()
            states += 1
            kname, ws, inreg = stt
            k = sch.kinds[kname]
            for cname in k.children:
                c = sch.kinds[cname]
                o = self._new_out()
                enters_cell = self.region is not None and cname in self.region
                for w, m in ws:
                    outer = w[-1]
                    t = self._new_out()
                    t["outer"] = outer
                    if w[0] == "subtree":
                        t["text"] += m
                        t["tail"] += m
                        t["watchers"][w] += m
                    else:
                        axis, pred, bid, var, ky, site, _o = w
                        if pred(c.tag):
                            self.expand(self.reg[bid], c, var, ky, m, t)
                        if axis == "desc":
                            t["watchers"][w] += m
                    # entering a cell: only the expansion that enumerates this cell (it carries the mark) works for it;
                    # every other walker active here belongs to an enclosing cell or table
                    as_outer = (not t["marks"]) if enters_cell else outer
                    self._merge(o, t, as_outer)
                creg = inreg or (self.region is not None and cname in self.region)
                nxt = (cname, self._freeze(o["watchers"]), creg)
                path = None
                for what in ("text", "tail"):
                    exp = getattr(c, what)
                    if exp is None or not (creg if what == "text" else inreg):
                        continue
                    leaves += 1
                    cnt = min(o[what], 2)
                    bad = None
                    if exp == "vis" and cnt == 0:
                        bad = "lost"
                    elif exp == "vis" and cnt > 1:
                        bad = "duplicated"
                    elif exp == "excl" and cnt + o.get(what + "_outer", 0) > 0:
                        bad = "leaked"
                    if bad:
                        path = path or self._path(seen, stt) + [c]
                        devs.append(Deviation(bad, c, what, o[what] + (o.get(what + "_outer", 0) if bad == "leaked" else 0), path, sorted(o["sites"])))
                for mname, kinds in self.marks_expected.items():
                    if cname in kinds:
                        leaves += 1
                        cnt = o["marks"].get(mname, 0)
                        if cnt != 1:
                            path = path or self._path(seen, stt) + [c]
                            devs.append(Deviation("lost" if cnt == 0 else "duplicated", c, f"mark:{mname}", cnt, path, []))
                if nxt not in seen:
                    seen[nxt] = stt
                    q.append(nxt)
        return devs, {"product_states": states, "leaf_checks": leaves}

    @staticmethod
    def _freeze(ws: Counter):
        return frozenset((w, min(m, 2)) for w, m in ws.items() if m > 0)

    def _path(self, seen, stt):
        chain = []
        while stt is not None:
            chain.append(self.schema.kinds[stt[0]])
            stt = seen[stt]
        return list(reversed(chain))
