"""Exponential ambiguity of regular-expression constants (catastrophic backtracking), decided on the pattern alone.

The pattern is parsed with the standard library's own parser (`re._parser.parse`, the syntax tree the regex engine compiles);
it is never matched against anything. From the tree a Thompson automaton is built (character edges carry a set over a finite
alphabet, every choice the backtracking matcher has — alternation, entering / leaving / repeating a loop — is an epsilon
edge). A backtracking matcher explores *paths* of this automaton, so its worst case is exponential exactly when the automaton
has the EDA property (Weber & Seidl 1991; Allauzen, Mohri & Rastogi 2008): some state can be left and re-entered on the same
word along two different paths. After epsilon elimination that keeps the number of distinct epsilon paths between two
character edges (capped at 2), EDA holds iff the self-product of the automaton has a strongly connected component that
contains a diagonal pair (e, e) together with
  (i)  an off-diagonal pair (f1, f2), f1 != f2   — two different edge sequences spell the same word around a cycle, or
  (ii) a step (e, e) -> (f, f) with two distinct epsilon paths from e to f — `(a+)+`: stay in the inner loop or go round the outer.
Polynomial ambiguity (`\\s*\\s*x`) is not reported.

Alphabet: all ASCII code points plus two non-ASCII representatives; category escapes are expanded with `re.fullmatch` on
single characters. Back-references make the language non-regular: such patterns are returned as undecided.
"""
from __future__ import annotations

import re

try:  # Python >= 3.11
    import re._constants as sc
    import re._parser as sp
except ImportError:  # pragma: no cover
    import sre_constants as sc
    import sre_parse as sp

ALPHABET = [chr(i) for i in range(128)] + ["é", "中"]
ALL = frozenset(ALPHABET)
_CAT_CACHE: dict = {}


class Undecided(Exception):
    pass


def _category(cat) -> frozenset:
    if cat in _CAT_CACHE:
        return _CAT_CACHE[cat]
    table = {"CATEGORY_DIGIT": r"\d", "CATEGORY_NOT_DIGIT": r"\D", "CATEGORY_SPACE": r"\s", "CATEGORY_NOT_SPACE": r"\S", "CATEGORY_WORD": r"\w", "CATEGORY_NOT_WORD": r"\W"}
    pat = table.get(str(cat))
    out = ALL if pat is None else frozenset(c for c in ALPHABET if re.fullmatch(pat, c))
    _CAT_CACHE[cat] = out
    return out


def _fold(cs, flags: int) -> frozenset:
    if flags & re.IGNORECASE:
        return frozenset(c for c in ALPHABET if c in cs or c.lower() in cs or c.upper() in cs)
    return frozenset(cs)


def _lit(code: int) -> frozenset:
    return frozenset([chr(code)]) if code < 128 else frozenset(["é", "中"])


def _single(op, av, flags):
    """Character set of a one-character item, or None when the item is not one character wide."""
    if op is sc.LITERAL:
        return _fold(_lit(av), flags)
    if op is sc.NOT_LITERAL:
        return ALL - _fold(_lit(av), flags) if av < 128 else ALL
    if op is sc.ANY:
        return ALL if flags & re.DOTALL else ALL - frozenset("\n")
    if op is sc.IN:
        neg = False
        acc: set = set()
        for o, a in av:
            if o is sc.NEGATE:
                neg = True
            elif o is sc.LITERAL:
                acc |= _lit(a)
            elif o is sc.RANGE:
                lo, hi = a
                acc.update(c for c in ALPHABET[:128] if lo <= ord(c) <= hi)
                if hi >= 128:
                    acc.update(["é", "中"])
            elif o is sc.CATEGORY:
                acc |= _category(a)
            else:
                return ALL
        cs = _fold(acc, flags)
        return ALL - cs if neg else cs
    return None


def _items(sub):
    return list(sub.data) if hasattr(sub, "data") else list(sub)


class _NFA:
    def __init__(self):
        self.n = 0
        self.eps: dict[int, list[int]] = {}
        self.chars: list[tuple[int, frozenset, int]] = []  # (from, set, to)

    def new(self) -> int:
        self.n += 1
        self.eps[self.n - 1] = []
        return self.n - 1

    def e(self, a, b):
        self.eps[a].append(b)

    def c(self, a, cs, b):
        self.chars.append((a, cs, b))


def _build(nfa: _NFA, seq, start: int, flags: int) -> int:
    """Add seq after state `start`; returns the end state."""
    cur = start
    for op, av in _items(seq):
        cs = _single(op, av, flags)
        if cs is not None:
            nxt = nfa.new()
            nfa.c(cur, cs, nxt)
            cur = nxt
        elif op in (sc.MAX_REPEAT, sc.MIN_REPEAT) or (hasattr(sc, "POSSESSIVE_REPEAT") and op is sc.POSSESSIVE_REPEAT):
            lo, hi, body = av[0], av[1], av[2]
            for _ in range(min(lo, 2)):
                cur = _build(nfa, body, cur, flags)
            if hi >= sc.MAXREPEAT:
                # loop: head -eps-> body ... -eps-> head ; head -eps-> out
                head = nfa.new()
                nfa.e(cur, head)
                end = _build(nfa, body, head, flags)
                nfa.e(end, head)
                out = nfa.new()
                nfa.e(head, out)
                cur = out
            else:
                for _ in range(min(hi - lo, 2)):
                    skip = nfa.new()
                    end = _build(nfa, body, cur, flags)
                    nfa.e(cur, skip)
                    nfa.e(end, skip)
                    cur = skip
        elif op is sc.SUBPATTERN:
            cur = _build(nfa, av[-1], cur, flags)
        elif hasattr(sc, "ATOMIC_GROUP") and op is sc.ATOMIC_GROUP:
            cur = _build(nfa, av, cur, flags)
        elif op is sc.BRANCH:
            out = nfa.new()
            for b in av[1]:
                s = nfa.new()
                nfa.e(cur, s)
                nfa.e(_build(nfa, b, s, flags), out)
            cur = out
        elif op in (sc.AT, sc.ASSERT, sc.ASSERT_NOT):
            continue  # zero width: the language is over-approximated
        elif op is sc.GROUPREF or op is getattr(sc, "GROUPREF_EXISTS", None):
            raise Undecided("back-reference")
        else:
            raise Undecided(f"unsupported construct {op}")
    return cur


def _eps_paths(nfa: _NFA, src: int) -> dict[int, int]:
    """Number (capped at 2) of distinct simple epsilon paths from src to every state."""
    count: dict[int, int] = {}

    def dfs(s, seen):
        count[s] = min(2, count.get(s, 0) + 1)
        for t in nfa.eps[s]:
            if t not in seen:
                dfs(t, seen | {t})

    dfs(src, {src})
    return count


def _edges_and_succ(pattern, flags):
    if isinstance(pattern, bytes):
        pattern = pattern.decode("latin-1")
    tree = sp.parse(pattern, flags)
    flags = tree.state.flags if hasattr(tree, "state") else flags
    nfa = _NFA()
    start = nfa.new()
    _build(nfa, tree, start, flags)
    E = nfa.chars
    if len(E) > 400:
        raise Undecided("pattern too large")
    # succ[i][j] = number of distinct epsilon paths from the end of edge i to the start of edge j (0, 1, 2)
    by_src: dict[int, list[int]] = {}
    for j, (a, _cs, _b) in enumerate(E):
        by_src.setdefault(a, []).append(j)
    succ: list[dict[int, int]] = []
    for (_a, _cs, b) in E:
        cnt = _eps_paths(nfa, b)
        d: dict[int, int] = {}
        for s, k in cnt.items():
            for j in by_src.get(s, ()):
                d[j] = min(2, d.get(j, 0) + k)
        succ.append(d)
    return E, succ


def _sccs(nodes: dict):
    """Tarjan, iterative: node -> component representative."""
    index: dict = {}
    low: dict = {}
    onst: set = set()
    st: list = []
    comp: dict = {}
    idx = 0
    for root in nodes:
        if root in index:
            continue
        stack = [(root, iter(nodes[root]))]
        index[root] = low[root] = idx
        idx += 1
        st.append(root)
        onst.add(root)
        while stack:
            v, it = stack[-1]
            adv = False
            for w in it:
                if w not in nodes:
                    continue
                if w not in index:
                    index[w] = low[w] = idx
                    idx += 1
                    st.append(w)
                    onst.add(w)
                    stack.append((w, iter(nodes[w])))
                    adv = True
                    break
                if w in onst:
                    low[v] = min(low[v], index[w])
            if adv:
                continue
            stack.pop()
            if stack:
                low[stack[-1][0]] = min(low[stack[-1][0]], low[v])
            if low[v] == index[v]:
                while True:
                    w = st.pop()
                    onst.discard(w)
                    comp[w] = v
                    if w == v:
                        break
    return comp


MAX_TRIPLE_EDGES = 90  # the triple product grows with the cube: 90 edges are decided in about a second


def polynomial_ambiguity(pattern, flags: int = 0):
    """IDA (Weber & Seidl): two different loops, the second reachable from the first, that can both spell the word that also leads
    from the first to the second (`\\S+.*x`: a run of n letters can be divided between the two repeats in n ways, and a failing
    match tries them all: quadratic time). Decided on the triple product of the epsilon-free automaton: some (p, p, q), p != q,
    reaches (p, q, q). None when there is no such pair; otherwise a witness description. Patterns with more than MAX_TRIPLE_EDGES character
    edges are returned as undecided (the triple product grows with the cube)."""
    E, succ = _edges_and_succ(pattern, flags)
    n = len(E)
    if n > MAX_TRIPLE_EDGES:
        raise Undecided("pattern too large for the triple product")
    on_cycle = set()
    # edges that can reach themselves
    reach = [set(succ[i]) for i in range(n)]
    changed = True
    while changed:
        changed = False
        for i in range(n):
            add = set()
            for j in reach[i]:
                add |= reach[j]
            if not add <= reach[i]:
                reach[i] |= add
                changed = True
    loops = [i for i in range(n) if i in reach[i]]
    starts = [(p_, p_, q_) for p_ in loops for q_ in loops if p_ != q_ and q_ in reach[p_]]
    if not starts:
        return None
    nodes: dict = {}
    work = list(starts)
    while work:
        t = work.pop()
        if t in nodes:
            continue
        a, b, c = t
        out = []
        for f1 in succ[a]:
            for f2 in succ[b]:
                cs12 = E[f1][1] & E[f2][1]
                if not cs12:
                    continue
                for f3 in succ[c]:
                    if cs12 & E[f3][1]:
                        out.append((f1, f2, f3))
        nodes[t] = out
        work.extend(o for o in out if o not in nodes)
        if len(nodes) > 200000:
            raise Undecided("triple product too large")
    for (p_, _p, q_) in starts:
        tgt = (p_, q_, q_)
        if tgt in nodes:
            nodes[tgt] = nodes[tgt] + [(p_, p_, q_)]
    comp = _sccs(nodes)
    for (p_, _p, q_) in starts:
        tgt = (p_, q_, q_)
        if tgt in comp and comp[tgt] == comp[(p_, p_, q_)]:
            common = sorted(E[p_][1] & E[q_][1])
            ex = common[len(common) // 2] if common else "?"
            return f"two repeats in a row can both consume the same run of characters (e.g. {ex!r}): n of them can be divided in n ways, and a failing match tries every division"
    return None


def restart_ambiguity(pattern, flags: int = 0):
    """Quadratic time of `search` / `finditer` / `sub` (not of `match`): the scan restarts the pattern at every position, and a pattern
    whose literal start can occur n times while one of its loops, once entered, runs over all the later occurrences before the rest of the
    pattern fails, costs n restarts of length n. On the automaton of `(?s:.)*P` this is IDA between the implicit scanning loop p0 and a
    loop q of P -- some word leads p0 -> p0, p0 -> q and q -> q -- with one more condition that makes the difference between
    `[ \t]+` (harmless: nothing can fail after the loop) and `<meta[^>]+charset=`: after q the pattern still has to consume
    something (acceptance is not reachable from q without reading a character). Assertions are ignored (over-approximation of the
    language, i.e. a lookahead after the loop does not count as "something to consume"). Returns a witness or None."""
    if isinstance(pattern, bytes):
        pattern = pattern.decode("latin-1")
    tree = sp.parse(pattern, flags)
    flags2 = tree.state.flags if hasattr(tree, "state") else flags
    items = _items(tree)
    anchored_line = False
    if items and items[0][0] is sc.AT:
        at = str(items[0][1])
        if at in ("AT_BEGINNING_STRING",) or (at == "AT_BEGINNING" and not (flags2 & re.MULTILINE)):
            return None  # one attempt only: nothing restarts
        if at in ("AT_BEGINNING", "AT_BEGINNING_LINE"):
            anchored_line = True
    nfa = _NFA()
    start = nfa.new()
    head = nfa.new()          # the implicit scanning loop: start -eps-> head -ALL-> head -eps-> body
    nfa.e(start, head)
    back = nfa.new()
    nfa.c(head, ALL, back)
    nfa.e(back, head)
    body = nfa.new()
    if anchored_line:
        # `^` with MULTILINE: an attempt starts at offset 0 or right after a line feed
        nfa.e(start, body)
        nl = nfa.new()
        nfa.e(head, nl)
        nfa.c(nl, frozenset(["\n"]), body)
    else:
        nfa.e(head, body)
    end = _build(nfa, tree, body, flags2)
    E = nfa.chars
    n = len(E)
    if n > MAX_TRIPLE_EDGES:
        raise Undecided("pattern too large for the triple product")
    by_src: dict[int, list[int]] = {}
    for j, (a, _cs, _b) in enumerate(E):
        by_src.setdefault(a, []).append(j)
    succ: list[dict[int, int]] = []
    accepting_after: list[bool] = []
    for (_a, _cs, b) in E:
        cnt = _eps_paths(nfa, b)
        accepting_after.append(end in cnt)
        d: dict[int, int] = {}
        for s_, k in cnt.items():
            for j in by_src.get(s_, ()):
                d[j] = min(2, d.get(j, 0) + k)
        succ.append(d)
    p0 = 0  # the edge of the scanning loop was created first
    reach = [set(succ[i]) for i in range(n)]
    changed = True
    while changed:
        changed = False
        for i in range(n):
            add = set()
            for j in reach[i]:
                add |= reach[j]
            if not add <= reach[i]:
                reach[i] |= add
                changed = True
    loops = [i for i in range(n) if i in reach[i] and i != p0]
    # the loop q belongs to must be unable to end in acceptance: if the match can succeed at the end of some iteration, a long run of
    # iterations is a (long) match, not a failure that is retried from every offset
    def loop_of(q):
        return [e for e in range(n) if e == q or (e in reach[q] and q in reach[e])]

    cands = [q for q in loops if q in reach[p0] and not any(accepting_after[e] for e in loop_of(q))]
    if not cands:
        return None
    starts = [(p0, p0, q) for q in cands]
    nodes: dict = {}
    work = list(starts)
    while work:
        t = work.pop()
        if t in nodes:
            continue
        a, b, c = t
        out = []
        for f1 in succ[a]:
            for f2 in succ[b]:
                cs12 = E[f1][1] & E[f2][1]
                if not cs12:
                    continue
                for f3 in succ[c]:
                    if cs12 & E[f3][1]:
                        out.append((f1, f2, f3))
        nodes[t] = out
        work.extend(o for o in out if o not in nodes)
        if len(nodes) > 200000:
            raise Undecided("triple product too large")
    for (_p, _p2, q) in starts:
        tgt = (p0, q, q)
        if tgt in nodes:
            nodes[tgt] = nodes[tgt] + [(p0, p0, q)]
    comp = _sccs(nodes)
    for (_p, _p2, q) in starts:
        tgt = (p0, q, q)
        if tgt in comp and comp[tgt] == comp[(p0, p0, q)]:
            return "a repeat of the pattern can run over later occurrences of the pattern's own start and the pattern can still fail behind it: every one of n restarts of the scan reads the rest of the input (quadratic)"
    return None


def exponential_ambiguity(pattern, flags: int = 0):
    """None when the pattern has no exponentially ambiguous loop; otherwise a short witness description."""
    E, succ = _edges_and_succ(pattern, flags)
    # product graph restricted to pairs reachable from a diagonal pair
    nodes: dict[tuple[int, int], list[tuple[int, int]]] = {}
    work = [(i, i) for i in range(len(E))]
    while work:
        p = work.pop()
        if p in nodes:
            continue
        i, j = p
        out = []
        for f1 in succ[i]:
            for f2 in succ[j]:
                if E[f1][1] & E[f2][1]:
                    out.append((f1, f2))
        nodes[p] = out
        work.extend(q for q in out if q not in nodes)
    # Tarjan SCC (iterative)
    index: dict = {}
    low: dict = {}
    onst: set = set()
    st: list = []
    comp: dict = {}
    idx = 0
    for root in nodes:
        if root in index:
            continue
        stack = [(root, iter(nodes[root]))]
        index[root] = low[root] = idx
        idx += 1
        st.append(root)
        onst.add(root)
        while stack:
            v, it = stack[-1]
            adv = False
            for w in it:
                if w not in index:
                    index[w] = low[w] = idx
                    idx += 1
                    st.append(w)
                    onst.add(w)
                    stack.append((w, iter(nodes[w])))
                    adv = True
                    break
                if w in onst:
                    low[v] = min(low[v], index[w])
            if adv:
                continue
            stack.pop()
            if stack:
                low[stack[-1][0]] = min(low[stack[-1][0]], low[v])
            if low[v] == index[v]:
                while True:
                    w = st.pop()
                    onst.discard(w)
                    comp[w] = v
                    if w == v:
                        break
    members: dict = {}
    for n_, c_ in comp.items():
        members.setdefault(c_, []).append(n_)
    for c_, ms in members.items():
        diag = [m for m in ms if m[0] == m[1]]
        if not diag:
            continue
        cyclic = len(ms) > 1 or ms[0] in nodes[ms[0]]
        if not cyclic:
            continue
        off = [m for m in ms if m[0] != m[1]]
        if off:
            f1, f2 = off[0]
            common = sorted(E[f1][1] & E[f2][1])
            return f"two different ways round a loop spell the same text (e.g. a run of {common[len(common) // 2]!r}): the number of ways to match n such characters doubles with n"
        mset = set(ms)
        for (i, _i) in diag:
            for f, k in succ[i].items():
                if k >= 2 and (f, f) in mset:
                    common = sorted(E[f][1])
                    return f"inside a loop the matcher has two ways to continue with the same character (e.g. {common[len(common) // 2]!r}): stay in the inner repeat or start the next iteration of the outer one"
    return None
