from __future__ import annotations

import ast

from .cfg import CFG, default_may_raise
from .consts import Folder
from .loader import FuncInfo, Project


class Ctx:
    """Per-run analysis context: project, constant folder, CFG cache."""

    def __init__(self, root: str, overlay: dict[str, str] | None = None, tier: str = "quick"):
        self.root = root
        self.tier = tier
        self.p = Project(root, overlay)
        self.folder = Folder(self.p)
        self._cfgs: dict[tuple[int, int], CFG] = {}

    def cfg(self, fn: FuncInfo | ast.AST, may_raise=default_may_raise) -> CFG:
        node = fn.node if isinstance(fn, FuncInfo) else fn
        key = (id(node), id(may_raise))
        if key not in self._cfgs:
            self._cfgs[key] = CFG(node, may_raise)
        return self._cfgs[key]

    def const(self, rel: str, name: str):
        return self.folder.const(self.p.module(rel), name)
