from . import parse

NS = {"a": "http://schemas.openxmlformats.org/drawingml/2006/main", "p": "http://schemas.openxmlformats.org/presentationml/2006/main"}

# ECMA-376 Part 1, 21.1.2 (DrawingML text): txBody -> bodyPr, lstStyle, p*; p -> pPr, (r | br | fld)*, endParaRPr
TXBODY = """
txBody      = p:txBody -> bodyPr lstStyle p
bodyPr      = a:bodyPr
lstStyle    = a:lstStyle
p           = a:p -> pPr r br fld endParaRPr
pPr         = a:pPr
endParaRPr  = a:endParaRPr
br          = a:br
r           = a:r -> rPr t
rPr         = a:rPr
t           = a:t ; text=vis
fld         = a:fld -> rPr_f t_f
rPr_f       = a:rPr
t_f         = a:t ; text=vis
"""


def txbody():
    return parse(TXBODY, NS, "txBody")

# ECMA-376 Part 1, 19.3.1.21 (graphicFrame), 21.1.3 (DrawingML tables): tbl -> tblPr, tblGrid, tr*; tr -> tc*; tc -> txBody, tcPr
FRAME = """
graphicFrame = p:graphicFrame -> nvGraphicFramePr xfrm graphic
nvGraphicFramePr = p:nvGraphicFramePr
xfrm        = p:xfrm
graphic     = a:graphic -> graphicData
graphicData = a:graphicData -> tbl
tbl         = a:tbl -> tblPr tblGrid tr
tblPr       = a:tblPr
tblGrid     = a:tblGrid
tr          = a:tr -> tc
tc          = a:tc -> txBody_c tcPr
tcPr        = a:tcPr
txBody_c    = a:txBody -> bodyPr lstStyle p
""" + TXBODY.replace("txBody      = p:txBody -> bodyPr lstStyle p\n", "")


def graphic_frame():
    return parse(FRAME, NS, "graphicFrame")

# ECMA-376 Part 1, 19.3.1 (PresentationML shapes): sld -> cSld -> spTree -> (sp | grpSp | graphicFrame | cxnSp | pic)*;
# grpSp nests; sp -> nvSpPr, spPr, txBody; graphicFrame -> graphic/graphicData/tbl (21.1.3)
SLIDE = """
sld         = p:sld -> cSld
cSld        = p:cSld -> spTree
spTree      = p:spTree -> nvGrpSpPr grpSpPr sp grpSp graphicFrame pic cxnSp
nvGrpSpPr   = p:nvGrpSpPr
grpSpPr     = p:grpSpPr
grpSp       = p:grpSp -> nvGrpSpPr grpSpPr sp grpSp graphicFrame pic cxnSp
cxnSp       = p:cxnSp
pic         = p:pic -> nvPicPr blipFill
nvPicPr     = p:nvPicPr -> cNvPr
cNvPr       = p:cNvPr
blipFill    = p:blipFill -> blip
blip        = a:blip
sp          = p:sp -> nvSpPr spPr txBody
nvSpPr      = p:nvSpPr -> cNvPr nvPr
nvPr        = p:nvPr -> ph
ph          = p:ph
spPr        = p:spPr -> xfrm_a
xfrm_a      = a:xfrm
""" + FRAME.replace("graphicFrame = p:graphicFrame -> nvGraphicFramePr xfrm graphic", "graphicFrame = p:graphicFrame -> nvGraphicFramePr xfrm graphic").replace("txBody_c    = a:txBody -> bodyPr lstStyle p", "txBody_c    = a:txBody -> bodyPr lstStyle p\ntxBody      = p:txBody -> bodyPr lstStyle p")


def slide():
    return parse(SLIDE, NS, "sld")
