from . import parse

NS = {
    "office": "urn:oasis:names:tc:opendocument:xmlns:office:1.0",
    "text": "urn:oasis:names:tc:opendocument:xmlns:text:1.0",
    "table": "urn:oasis:names:tc:opendocument:xmlns:table:1.0",
    "draw": "urn:oasis:names:tc:opendocument:xmlns:drawing:1.0",
    "dc": "http://purl.org/dc/elements/1.1/",
}

# ODF 1.2 part 1: 3.4 (office:text), 5.1 (paragraph content), 5.3 (lists), 5.4 (sections), 5.5 (tracked changes),
# 6 (paragraph element content), 9 (tables), 10.4 (frames / text boxes), 14.1 (annotations).
# Footnote / endnote bodies are neither demanded nor forbidden by the property: no expectation.
INLINE = "span a s tab lbr note annotation bookmark change frame_i"
BODY = f"""
text_root   = office:text -> seqdecls tracked p h list table section toc frame_b
seqdecls    = text:sequence-decls
section     = text:section -> p h list table section
toc         = text:table-of-content -> index_body
index_body  = text:index-body -> index_title p
index_title = text:index-title -> p
list        = text:list -> list_header list_item
list_header = text:list-header -> p h list
list_item   = text:list-item -> p h list
table       = table:table -> tcolumn header_rows trows trow
tcolumn     = table:table-column
header_rows = table:table-header-rows -> trow
trows       = table:table-rows -> trow
trow        = table:table-row -> tcell covered
tcell       = table:table-cell -> p h list table
covered     = table:covered-table-cell -> p_cov
p_cov       = text:p
p           = text:p -> {INLINE} ; text=vis
h           = text:h -> {INLINE} ; text=vis
span        = text:span -> {INLINE} ; text=vis ; tail=vis
a           = text:a -> span s tab lbr ; text=vis ; tail=vis
s           = text:s ; tail=vis
tab         = text:tab ; tail=vis
lbr         = text:line-break ; tail=vis
bookmark    = text:bookmark ; tail=vis
change      = text:change ; tail=vis
note        = text:note -> citation note_body ; tail=vis
citation    = text:note-citation
note_body   = text:note-body -> p_note
p_note      = text:p
annotation  = office:annotation -> creator date p_ann ; tail=vis
creator     = dc:creator ; text=excl
date        = dc:date ; text=excl
p_ann       = text:p -> span_ann ; text=excl
span_ann    = text:span ; text=excl ; tail=excl
frame_i     = draw:frame -> text_box image ; tail=vis
frame_b     = draw:frame -> text_box image
text_box    = draw:text-box -> p h list table
image       = draw:image
tracked     = text:tracked-changes -> region
region      = text:changed-region -> deletion insertion
insertion   = text:insertion -> change_info
deletion    = text:deletion -> change_info p_del
change_info = office:change-info -> creator date
p_del       = text:p -> span_del ; text=excl
span_del    = text:span ; text=excl ; tail=excl
"""


def body_schema():
    return parse(BODY, NS, "text_root")
