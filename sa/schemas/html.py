from . import parse

NS = {"h": ""}  # the tree builder stores lower-cased tag names without namespace

# HTML living standard, content model of flow / phrasing content, reduced to one representative per category:
# p (paragraph-like: phrasing only), div (flow container), h1 (heading), ul/li (lists, nestable), table/thead/tbody/tr/td/th
# (td is a flow container: tables nest through cells), span / a (phrasing, nestable), br / hr (void).
# script / style / noscript ... never reach the tree (removed by the tree builder: C17).
# caption: visible text of the table that is none of its cells.
# Text directly inside ul / table / thead / tbody / tr is inter-element whitespace: no expectation.
INLINE = "span a br"
FLOW = "p div h1 ul table hr " + INLINE
BODY = f"""
body   = h:body -> {FLOW} ; text=vis
p      = h:p -> {INLINE} ; text=vis ; tail=vis
div    = h:div -> {FLOW} ; text=vis ; tail=vis
h1     = h:h1 -> {INLINE} ; text=vis ; tail=vis
ul     = h:ul -> li ; tail=vis
li     = h:li -> {INLINE} ul p ; text=vis ; tail=vis
table  = h:table -> caption thead tbody tr ; tail=vis
caption = h:caption -> {INLINE} ; text=vis
thead  = h:thead -> tr
tbody  = h:tbody -> tr
tr     = h:tr -> td th
td     = h:td -> {FLOW} ; text=vis
th     = h:th -> {INLINE} ; text=vis
span   = h:span -> {INLINE} ; text=vis ; tail=vis
a      = h:a -> span br ; text=vis ; tail=vis
br     = h:br ; tail=vis
hr     = h:hr ; tail=vis
"""


def body_schema():
    return parse(BODY, NS, "body")
