from . import parse

NS = {
    "w": "http://schemas.openxmlformats.org/wordprocessingml/2006/main",
    "mc": "http://schemas.openxmlformats.org/markup-compatibility/2006",
    "m": "http://schemas.openxmlformats.org/officeDocument/2006/math",
    "wp": "http://schemas.openxmlformats.org/drawingml/2006/wordprocessingDrawing",
    "a": "http://schemas.openxmlformats.org/drawingml/2006/main",
    "wps": "http://schemas.microsoft.com/office/word/2010/wordprocessingShape",
    "v": "urn:schemas-microsoft-com:vml",
}

# ECMA-376 Part 1, 17.2 (body), 17.4 (tables), 17.3 (paragraphs, runs), 17.5.2 (structured document tags at block, row,
# cell and run level), a VML text box directly in a run (w:pict, documents in compatibility mode: visible text; the same
# w:pict inside mc:Fallback is the excluded duplicate of the mc:Choice), 17.13.5 (revisions: w:ins / w:moveTo are current text, w:del / w:moveFrom removed text), Part 3 (markup compatibility).
BODY = """
body            = w:body -> p tbl sdt_b cx_b sectPr
sectPr          = w:sectPr
sdt_b           = w:sdt -> sdtPr sdtContent_b
sdtPr           = w:sdtPr
sdtContent_b    = w:sdtContent -> p tbl sdt_b
cx_b            = w:customXml -> p tbl sdt_b
tbl             = w:tbl -> tblPr tblGrid tr sdt_row
tblPr           = w:tblPr
tblGrid         = w:tblGrid
sdt_row         = w:sdt -> sdtPr sdtContent_row
sdtContent_row  = w:sdtContent -> tr sdt_row
tr              = w:tr -> trPr tc sdt_cell
trPr            = w:trPr
sdt_cell        = w:sdt -> sdtPr sdtContent_cell
sdtContent_cell = w:sdtContent -> tc
tc              = w:tc -> tcPr p tbl sdt_b
tcPr            = w:tcPr
p               = w:p -> pPr r hyperlink ins del moveTo moveFrom sdt_r smartTag fldSimple oMath oMathPara
pPr             = w:pPr
hyperlink       = w:hyperlink -> r
ins             = w:ins -> r
moveTo          = w:moveTo -> r
moveFrom        = w:moveFrom -> r_mf
r_mf            = w:r -> rPr t_mf
t_mf            = w:t ; text=excl
smartTag        = w:smartTag -> r
fldSimple       = w:fldSimple -> r
sdt_r           = w:sdt -> sdtPr sdtContent_r
sdtContent_r    = w:sdtContent -> r hyperlink
del             = w:del -> r_del
r_del           = w:r -> rPr delText
delText         = w:delText ; text=excl
r               = w:r -> rPr t tab br instrText AlternateContent pict_r
pict_r          = w:pict -> vshape_r
vshape_r        = v:shape -> vtextbox_r
vtextbox_r      = v:textbox -> txbxContent
rPr             = w:rPr
t               = w:t ; text=vis
tab             = w:tab
br              = w:br
instrText       = w:instrText ; text=excl
oMath           = m:oMath ; text=vis
oMathPara       = m:oMathPara -> oMath
AlternateContent = mc:AlternateContent -> Choice Fallback
Choice          = mc:Choice -> drawing
drawing         = w:drawing -> anchor
anchor          = wp:anchor -> graphic
graphic         = a:graphic -> graphicData
graphicData     = a:graphicData -> wsp
wsp             = wps:wsp -> txbx
txbx            = wps:txbx -> txbxContent
txbxContent     = w:txbxContent -> p tbl
Fallback        = mc:Fallback -> pict
pict            = w:pict -> vshape
vshape          = v:shape -> vtextbox
vtextbox        = v:textbox -> txbxContent_fb
txbxContent_fb  = w:txbxContent -> p_fb
p_fb            = w:p -> r_fb
r_fb            = w:r -> t_fb
t_fb            = w:t ; text=excl
"""


def body_schema():
    return parse(BODY, NS, "body")


def table_schema():
    """For the table view: formulas are not part of a cell string (the tables never rendered them)."""
    return parse(BODY.replace("oMath           = m:oMath ; text=vis", "oMath           = m:oMath"), NS, "body")
