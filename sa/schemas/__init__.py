"""Document schemas (deterministic tree grammars) the walkers are decided against.

Each line: kind = prefix:tag -> child kinds ; text=vis|excl ; tail=vis|excl
The grammars are the part of ECMA-376 / ODF 1.2 that carries body text, written down from the specifications (trusted
base). A kind is a context, not a tag: the same tag may occur as several kinds with different content.
"""
from __future__ import annotations

from sa.engine.loader import AnalysisError
from sa.engine.treewalk import Kind, Schema


def parse(spec: str, ns: dict[str, str], root: str) -> Schema:
    kinds: dict[str, Kind] = {}
    for raw in spec.strip().splitlines():
        line = raw.split("#", 1)[0].strip()
        if not line:
            continue
        head, _, rest = line.partition("=")
        name = head.strip()
        parts = [x.strip() for x in rest.split(";")]
        tagpart, _, childpart = parts[0].partition("->")
        pfx, _, local = tagpart.strip().partition(":")
        if pfx not in ns:
            raise AnalysisError(f"schema: unknown prefix {pfx}")
        k = Kind(name, ("{%s}%s" % (ns[pfx], local)) if ns[pfx] else local, childpart.split())
        for extra in parts[1:]:
            key, _, val = extra.partition("=")
            if key.strip() not in ("text", "tail") or val.strip() not in ("vis", "excl"):
                raise AnalysisError(f"schema: bad attribute {extra!r} in {name}")
            setattr(k, key.strip(), val.strip())
        if name in kinds:
            raise AnalysisError(f"schema: duplicate kind {name}")
        kinds[name] = k
    return Schema(kinds, root)
