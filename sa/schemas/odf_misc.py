from . import parse

NS = {
    "office": "urn:oasis:names:tc:opendocument:xmlns:office:1.0",
    "text": "urn:oasis:names:tc:opendocument:xmlns:text:1.0",
    "table": "urn:oasis:names:tc:opendocument:xmlns:table:1.0",
    "draw": "urn:oasis:names:tc:opendocument:xmlns:drawing:1.0",
    "svg": "urn:oasis:names:tc:opendocument:xmlns:svg-compatible:1.0",
    "presentation": "urn:oasis:names:tc:opendocument:xmlns:presentation:1.0",
    "dc": "http://purl.org/dc/elements/1.1/",
}

INLINE = "span a s tab lbr annotation"
PARA = f"""
p           = text:p -> {INLINE} ; text=vis
span        = text:span -> {INLINE} ; text=vis ; tail=vis
a           = text:a -> span s tab lbr ; text=vis ; tail=vis
s           = text:s ; tail=vis
tab         = text:tab ; tail=vis
lbr         = text:line-break ; tail=vis
annotation  = office:annotation -> creator date p_ann ; tail=vis
creator     = dc:creator ; text=excl
date        = dc:date ; text=excl
p_ann       = text:p -> span_ann ; text=excl
span_ann    = text:span ; text=excl ; tail=excl
list        = text:list -> list_item
list_item   = text:list-item -> p list
"""

# ODF 1.2 part 1: 3.6 (office:presentation), 10.2 (draw:page), 10.3 (shapes: every shape may hold text:p / text:list),
# 10.3.15 (draw:g), 10.4 (frames), 9.3 (presentation:notes), 9 (tables in frames). draw:custom-shape stands for all
# text-holding shapes (rect, ellipse, polygon ... share its content model).
ODP = PARA + """
page        = draw:page -> forms annotation_pg frame g shape notes
forms       = office:forms
annotation_pg = office:annotation -> creator date p_ann
g           = draw:g -> frame g shape
shape       = draw:custom-shape -> p list
frame       = draw:frame -> text_box table image svg_title svg_desc
svg_title   = svg:title
svg_desc    = svg:desc
image       = draw:image
text_box    = draw:text-box -> p list
table       = table:table -> tcolumn header_rows trow
tcolumn     = table:table-column
header_rows = table:table-header-rows -> trow
trow        = table:table-row -> tcell
tcell       = table:table-cell -> p
notes       = presentation:notes -> thumbnail frame_n
thumbnail   = draw:page-thumbnail
frame_n     = draw:frame -> text_box_n
text_box_n  = draw:text-box -> p_n
p_n         = text:p -> span_n ; text=excl
span_n      = text:span ; text=excl ; tail=excl
"""

# ODF 1.2 part 1: 3.5 (office:drawing) - pages of shapes; no notes, no tables.
ODG = PARA + """
drawing     = office:drawing -> page
page        = draw:page -> annotation_pg frame g shape
annotation_pg = office:annotation -> creator date p_ann
g           = draw:g -> frame g shape
shape       = draw:custom-shape -> p list
frame       = draw:frame -> text_box image
image       = draw:image
text_box    = draw:text-box -> p list
"""

# ODF 1.2 part 1: 9.1.4 (table:table-cell): comment first, then paragraphs / lists, shapes anchored to the cell.
ODS_CELL = PARA + """
tcell       = table:table-cell -> annotation_c p list frame_c
annotation_c = office:annotation -> creator date p_ann
frame_c     = draw:frame -> image
image       = draw:image
"""


# ODF 1.2 part 1: 9.1.2 table:table — rows directly or inside header-rows / rows / row-group (groups nest); 9.1.3 a row holds cells and
# covered cells (the positions behind a merged cell).
ODS_SHEET = ODS_CELL.replace("tcell       = table:table-cell", "tcell       = table:table-cell") + """
sheet       = table:table -> hrows rows rgroup row
hrows       = table:table-header-rows -> row
rows        = table:table-rows -> row
rgroup      = table:table-row-group -> hrows rows rgroup row
row         = table:table-row -> tcell ccell
ccell       = table:covered-table-cell
"""


def ods_sheet():
    return parse(ODS_SHEET, NS, "sheet")


def odp_page():
    return parse(ODP, NS, "page")


def odg_drawing():
    return parse(ODG, NS, "drawing")


def ods_cell():
    return parse(ODS_CELL, NS, "tcell")


def odp_table():
    return parse(ODP, NS, "table")
