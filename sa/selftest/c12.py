from sa.selftest.harness import M, T, Variant

A = "sharepoint2text/parsing/extractors/archive_extractor.py"
S = "sharepoint2text/parsing/extractors/util/sevenzip.py"
I = "sharepoint2text/__init__.py"
O = "sharepoint2text/parsing/extractors/open_office/"
MUTANTS = [
    M("read-file-lstat", I, "file_size = path.stat().st_size", "file_size = path.lstat().st_size", "C12-LIMIT"),
    M("read-file-ge", I, "        if file_size > max_file_size:", "        if file_size >= max_file_size:", "C12-LIMIT"),
    M("read-file-zero-not-disabling", I, "    if max_file_size > 0:", "    if max_file_size >= 0:", "C12-LIMIT"),
    M("seven-zip-limit-after-open", A, "    if archive_size > MAX_7Z_FILE_SIZE:", "    if archive_size > MAX_7Z_FILE_SIZE and archive_path:", "C12-LIMIT"),
    M("seven-zip-limit-value", A, "MAX_7Z_FILE_SIZE = 100 * 1024 * 1024", "MAX_7Z_FILE_SIZE = 1000 * 1024 * 1024", "C12-LIMIT"),
    M("zip-read-before-size-test", A, "                    if info.file_size > _config.max_memory_size:\n                        logger.warning(\n                            \"File %s too large (%s bytes), skipping\",\n                            filename,\n                            info.file_size,\n                        )\n                        continue\n\n                    file_data = zf.read(info)\n", "                    file_data = zf.read(info)\n                    if info.file_size > _config.max_memory_size:\n                        logger.warning(\n                            \"File %s too large (%s bytes), skipping\",\n                            filename,\n                            info.file_size,\n                        )\n                        continue\n\n", "C12-LIMIT"),
    M("count-check-dropped", S, "        if num_files > self._remaining():\n            raise Bad7zFile(f\"Declared file count {num_files} exceeds header size\")\n", "", "C12-AMP"),
    M("bool-vector-check-dropped", S, "                if count > self._remaining():\n                    raise Bad7zFile(f\"Declared count {count} exceeds header size\")\n", "", "C12-AMP"),
    M("new-uncapped-repeat-odp", O + "_shared.py", '            parts.append("\\t")', '            parts.append("\\t" * int(child.get(attr_text_c, "1")))', "C12-AMP"),
    M("lzma2-max-length-dropped", S, ").decompress(data, max_length)", ").decompress(data)", "C12-DECOMP"),
    M("xml-etree-parse", "sharepoint2text/parsing/extractors/util/zip_utils.py", "from defusedxml import ElementTree as ET", "from xml.etree import ElementTree as ET", "C12-XML"),
    M("ods-empty-string-not-none", O + "ods_extractor.py", "    if text:\n        return text, text\n    return None, \"\"", "    if text or value_type == \"string\":\n        return text, text\n    return None, \"\"", "C12-EMPTY"),
    M("rtf-field-gaps-cross-braces", "sharepoint2text/parsing/extractors/ms_legacy/rtf_extractor.py", "    r\"\\\\field\\s*\\{[^{}]*\\\\fldinst\\s*\\{([^}]*)\\}\"\n    r\"[^{}]*\\{[^{}]*\\\\fldrslt\\s*\\{([^}]*)\\}\",", "    r\"\\\\field\\s*\\{[^}]*\\\\fldinst\\s*\\{([^}]*)\\}\"\n    r\"[^}]*\\{[^}]*\\\\fldrslt\\s*\\{([^}]*)\\}\",", "C12-REGEX"),
    M("rtf-footnote-blank-overlap", "sharepoint2text/parsing/extractors/ms_legacy/rtf_extractor.py", "    r\"\\{\\\\footnote([^{}]*(?:", "    r\"\\{\\\\footnote\\s*([^{}]*(?:", "C12-REGEX"),
]
TWINS = [
    T("7z-limit-by-presence-helper", "sharepoint2text/parsing/extractors/util/sevenzip.py", "        max_length = unpack_sizes[-1] if unpack_sizes else -1\n", "        max_length = -1 if not unpack_sizes else unpack_sizes[-1]\n"),
    T("rtf-footnote-one-blank", "sharepoint2text/parsing/extractors/ms_legacy/rtf_extractor.py", "    r\"\\{\\\\footnote([^{}]*(?:", "    r\"\\{\\\\footnote\\b([^{}]*(?:"),
    T("limit-compare-flipped", I, "        if file_size > max_file_size:", "        if max_file_size < file_size:"),
    T("count-check-flipped", S, "        if num_files > self._remaining():", "        if self._remaining() < num_files:"),
    T("max-length-keyword", S, ").decompress(data, max_length)", ").decompress(data, max_length=max_length)"),
]

# --- seeded changes kept under /verif/seeded (sub-agents saw only the property text); each must be reported by the named rule
import os as _os
from sa.selftest.harness import P as _P
_SEEDS = _os.path.join(_os.path.dirname(_os.path.dirname(_os.path.dirname(_os.path.abspath(__file__)))), "seeded")
SEEDED = [
    ("C12-1", "C12-LIMIT"),
    ("C12-2", "C12-LIMIT"),
    ("C12-3", "C12-EMPTY"),
    ("C12-4", "C12-LIMIT"),
    ("C12-5", "C12-LIMIT"),
    ("C12-6", "C12-LIMIT"),
    ("C12-7", "C12-LIMIT"),
    ("C12-8", "C12-EMPTY"),
    ("C12-9", "C12-DECOMP"),
    ("C12-10", "C12-XML"),
    ("C12-11", "C12-DECOMP"),
    ("C12-12", "C12-DECOMP"),
    ("C12-13", "C12-EMPTY"),
    ("C12-14", "C12-COST"),
    ("C12-15", "C12-COST"),
]
MUTANTS = list(MUTANTS) + [_P("seed-" + sid, _os.path.join(_SEEDS, sid, "patch.diff"), rule) for sid, rule in SEEDED if _os.path.exists(_os.path.join(_SEEDS, sid, "patch.diff"))]
