from sa.selftest.harness import M, T, Variant

X = "sharepoint2text/parsing/extractors/"
PD = "sharepoint2text/parsing/extractors/pdf/pdf_extractor.py"
DOCXF = "sharepoint2text/parsing/extractors/ms_modern/docx_extractor.py"
MUTANTS = [
    M("epub-count-before-read", X + "epub_extractor.py", "            data = ctx.read_bytes(href)\n            # Count only images that could be read, so numbers stay gap-free\n            image_counter += 1\n", "            image_counter += 1\n            data = ctx.read_bytes(href)\n", "C14-PAIR"),
    M("docx-error-record-unnumbered", X + "ms_modern/docx_extractor.py", "DocxImage(rel_id=rel_id, error=str(e), image_index=image_counter)", "DocxImage(rel_id=rel_id, error=str(e))", "C14-PAIR"),
    M("ods-count-before-exists", X + "open_office/ods_extractor.py", "            if not ctx.exists(href):\n                continue\n            image_counter += 1\n", "            image_counter += 1\n            if not ctx.exists(href):\n                continue\n", "C14-PAIR"),
    M("odg-double-count", X + "open_office/odg_extractor.py", "        image_counter += 1\n", "        image_counter += 1\n        if name:\n            image_counter += 1\n", "C14-PAIR"),
    M("pdf-enumerate-from-zero", X + "pdf/pdf_extractor.py", "in enumerate(candidates, start=1):", "in enumerate(candidates, start=0):", "C14-PAIR"),
    __import__("sa.selftest.harness", fromlist=["Variant"]).Variant("size-measured-before-rewrap", [(X + "ms_legacy/ppt_extractor.py", "        image_data = record.data[header_size:]\n        detected = detect_image_type(image_data)", "        image_data = record.data[header_size:]\n        payload_size = len(image_data)\n        detected = detect_image_type(image_data)"), (X + "ms_legacy/ppt_extractor.py", "                size_bytes=len(image_data),\n                width=width,\n                height=height,\n            )\n        )\n\n    return images\n\n\n# =============================================================================\n# Utility Functions", "                size_bytes=payload_size,\n                width=width,\n                height=height,\n            )\n        )\n\n    return images\n\n\n# =============================================================================\n# Utility Functions")], "C14-BYTES"),
    M("size-of-other-buffer", X + "epub_extractor.py", "                    data=io.BytesIO(data),\n                    size_bytes=len(data),", "                    data=io.BytesIO(data),\n                    size_bytes=len(href),", "C14-BYTES"),
    M("get-bytes-not-rewound", X + "data_types.py", "    def get_bytes(self) -> io.BytesIO:\n        if self.data is None:\n            return io.BytesIO()\n        # A fresh stream per call: closing or writing to the returned stream\n        # must not change what the result holds\n        return io.BytesIO(self.data.getvalue())\n\n    def get_content_type(self) -> str:\n        return self.content_type.strip()\n\n    def get_caption(self) -> str:\n        return \"\"", "    def get_bytes(self) -> io.BytesIO:\n        if self.data is None:\n            return io.BytesIO()\n        return self.data\n\n    def get_content_type(self) -> str:\n        return self.content_type.strip()\n\n    def get_caption(self) -> str:\n        return \"\"", "C14-BYTES"),
    M("ppt-units-without-images", X + "data_types.py", "                images=list(slide.images),\n            )\n\n    def get_full_text(self) -> str:\n        \"\"\"Full text of the slide deck", "            )\n\n    def get_full_text(self) -> str:\n        \"\"\"Full text of the slide deck", "C14-VIEW"),
    M("pptx-parent-path-guard", X + "ms_modern/pptx_extractor.py", "                    if normalized:\n                        normalized.pop()", "                    if len(normalized) > 1:\n                        normalized.pop()", "C14-REF"),
    M("jpeg-advance-without-marker", X + "ms_modern/xlsx_extractor.py", "            i += 2 + length", "            i += length", "C14-JPEG"),
    M("jpeg-advance-image-utils", X + "util/image_utils.py", "offset += 2 + segment_len", "offset += 4 + segment_len", "C14-JPEG"),
    M("filter-chain-first", PD, "        filter_type = filter_type[-1] if filter_type else \"\"", "        filter_type = filter_type[0] if filter_type else \"\"", "C14-CHAIN"),
    M("flate-content-type-jpeg", PD, '    "/FlateDecode": "image/png",', '    "/FlateDecode": "image/jpeg",', "C14-CHAIN"),
    M("docx-extension-not-lowered", DOCXF, '            ext = target.rsplit(".", 1)[-1].lower()', '            ext = target.rsplit(".", 1)[-1]', "C14-TYPE"),
    M("docx-image-target-glued", X + "ms_modern/docx_extractor.py", "        image_path = _resolve_word_target(target)\n", "        image_path = \"word/\" + target\n", "C14-REF"),
    M("pptx-absolute-target-under-slide-dir", X + "ms_modern/pptx_extractor.py", "        target_parts = [part for part in target.split(\"/\") if part and part != \"..\"]\n        return \"/\".join(target_parts)\n", "        target_parts = [part for part in target.split(\"/\") if part and part != \"..\"]\n        target = \"/\".join(target_parts)\n        return f\"{base_dir}/{target}\"\n", "C14-REF"),
    M("xlsx-sheet-part-by-position", X + "ms_modern/xlsx_extractor.py", "            if sheet_idx < len(sheet_parts) and sheet_parts[sheet_idx]:\n                part_dir, _, part_name = sheet_parts[sheet_idx].rpartition(\"/\")\n                rels_path = f\"{part_dir}/_rels/{part_name}.rels\"\n            else:\n                rels_path = f\"xl/worksheets/_rels/sheet{sheet_idx + 1}.xml.rels\"\n", "            rels_path = f\"xl/worksheets/_rels/sheet{sheet_idx + 1}.xml.rels\"\n", "C14-REF"),
    Variant("opc-target-percent-decoded", [("sharepoint2text/parsing/extractors/util/zip_utils.py", "import zipfile\n", "import zipfile\nfrom urllib.parse import unquote\n"), ("sharepoint2text/parsing/extractors/util/zip_utils.py", "                \"target\": rel.get(\"Target\", \"\"),\n", "                \"target\": unquote(rel.get(\"Target\", \"\")),\n")], "C14-REF"),
    M("opc-target-lowercased", "sharepoint2text/parsing/extractors/util/zip_utils.py", "                \"target\": rel.get(\"Target\", \"\"),\n", "                \"target\": rel.get(\"Target\", \"\").lower(),\n", "C14-REF"),
    M("zipcontext-exists-strips-slash", "sharepoint2text/parsing/extractors/util/zip_context.py", "        return path in self._namelist\n", "        return path.lstrip(\"/\") in self._namelist\n", "C14-REF"),
    M("zipcontext-read-strips-dot-slash-set", "sharepoint2text/parsing/extractors/util/zip_context.py", "        return self._zip.read(path)\n", "        return self._zip.read(path.lstrip(\"./\"))\n", "C14-REF"),
]
TWINS = [
    T("opc-target-via-local", "sharepoint2text/parsing/extractors/util/zip_utils.py", "    for rel in find_relationship_elements(rels_root):\n        relationships.append(\n            {\n                \"id\": rel.get(\"Id\", \"\"),\n                \"type\": rel.get(\"Type\", \"\"),\n                \"target\": rel.get(\"Target\", \"\"),\n", "    for rel in find_relationship_elements(rels_root):\n        target = str(rel.get(\"Target\", \"\"))\n        relationships.append(\n            {\n                \"id\": rel.get(\"Id\", \"\"),\n                \"type\": rel.get(\"Type\", \"\"),\n                \"target\": target,\n"),
    T("zipcontext-exists-or-false", "sharepoint2text/parsing/extractors/util/zip_context.py", "        return path in self._namelist\n", "        return path in self._namelist or False\n"),
    T("epub-href-fragment-cut-by-partition", "sharepoint2text/parsing/extractors/epub_extractor.py", "        href = unquote(href.split(\"#\", 1)[0])\n", "        href = unquote(href.partition(\"#\")[0])\n"),
    T("docx-image-skip-on-empty-bytes", X + "ms_modern/docx_extractor.py", "            if img_data is None:\n                continue\n", "            if img_data is None or not target:\n                continue\n"),
    T("docx-target-resolver-early-return", X + "ms_modern/docx_extractor.py", "    if target.startswith(\"/\"):\n        path = target\n    else:\n        path = \"word/\" + target\n", "    path = target\n    if not target.startswith(\"/\"):\n        path = \"word/\" + target\n"),
    T("counter-renamed-epub", X + "epub_extractor.py", "            data = ctx.read_bytes(href)\n            # Count only images that could be read, so numbers stay gap-free\n            image_counter += 1\n", "            data = ctx.read_bytes(href)\n            image_counter = image_counter + 0\n            image_counter += 1\n"),
    T("filter-chain-len-minus-one", PD, "        filter_type = filter_type[-1] if filter_type else \"\"", "        filter_type = filter_type[len(filter_type) - 1] if filter_type else \"\""),
    T("docx-extension-casefold", DOCXF, '            ext = target.rsplit(".", 1)[-1].lower()', '            ext = target.rsplit(".", 1)[-1].casefold()'),
]

# --- seeded changes kept under /verif/seeded (sub-agents saw only the property text); each must be reported by the named rule
import os as _os
from sa.selftest.harness import P as _P
_SEEDS = _os.path.join(_os.path.dirname(_os.path.dirname(_os.path.dirname(_os.path.abspath(__file__)))), "seeded")
SEEDED = [
    ("C14-1", "C14-PAIR"),
    ("C14-2", "C14-REF"),
    ("C14-3", "C14-JPEG"),
    ("C14-5", "C14-ALL"),
    ("C14-6", "C14-CHAIN"),
    ("C14-7", "C14-JPEG"),
    ("C14-8", "C14-JPEG"),
    ("C14-9", "C14-TYPE"),
    ("C14-10", "C14-TYPE"),
    ("C14-11", "C14-TYPE"),
    ("C14-12", "C14-REF"),
    ("C14-13", "C14-REF"),
    ("C14-14", "C14-REF"),
    ("C14-15", "C14-REF"),
]
MUTANTS = list(MUTANTS) + [_P("seed-" + sid, _os.path.join(_SEEDS, sid, "patch.diff"), rule) for sid, rule in SEEDED if _os.path.exists(_os.path.join(_SEEDS, sid, "patch.diff"))]
