from sa.selftest.harness import M, T, Variant

A = "sharepoint2text/parsing/extractors/archive_extractor.py"
S = "sharepoint2text/parsing/extractors/util/sevenzip.py"
MUTANTS = [
    M("reread-with-os-path-join", A, "extracted_path = _safe_join(temp_dir, filename)", "extracted_path = os.path.join(temp_dir, filename)", "C09-PATH"),
    M("write-without-safe-join", S, "            file_path = _safe_join(base_path, file_info.filename)\n", "            file_path = os.path.join(base_path, file_info.filename)\n", "C09-PATH"),
    M("safe-join-prefix-without-sep", S, "if not target_abs.startswith(base_abs + os.sep):", "if not target_abs.startswith(base_abs):", "C09-PATH"),
    M("safe-join-absolute-allowed", S, 'if os.path.isabs(relative_path) or relative_path.startswith(("\\\\", "/")):', 'if os.path.isabs(relative_path) and relative_path.startswith(("\\\\", "/")):', "C09-PATH"),
    M("sanitised-path-rewritten", S, "            file_path = _safe_join(base_path, file_info.filename)\n            parent_dir = os.path.dirname(file_path)\n", "            file_path = _safe_join(base_path, file_info.filename)\n            file_path = file_path.replace(\"\\\\\", \"/\")\n            parent_dir = os.path.dirname(file_path)\n", "C09-PATH"),
    M("tar-extract-to-disk", A, "                    extracted = tf.extractfile(member)\n", "                    tf.extract(member, path=\"/tmp\")\n                    extracted = tf.extractfile(member)\n", "C09-MEM"),
    M("tar-links-admitted", A, "                if not member.isreg():\n                    continue", "                if not (member.isreg() or member.islnk()):\n                    continue", "C09-MEM"),
    M("mkdtemp", A, "            with tempfile.TemporaryDirectory() as temp_dir:\n                try:\n                    szf.extractall(path=temp_dir)", "            temp_dir = tempfile.mkdtemp()\n            if True:\n                try:\n                    szf.extractall(path=temp_dir)", "C09-TMP"),
    M("skip-filter-dropped-tar", A, "                # Fast filtering\n                if _should_skip_file(filename, basename):\n                    continue\n\n                # Check file size for memory optimization", "                # Check file size for memory optimization", "C09-SKIP"),
    M("hidden-clause-dropped", A, 'if basename.startswith(".") or filename.startswith("__MACOSX/"):', 'if filename.startswith("__MACOSX/"):', "C09-SKIP"),
    # (the mutant that matters now)
    M("routed-extractor-test-removed", A, "    if _get_file_extractor_cached(basename) is read_archive:\n        return True\n", "", "C09-SKIP"),
]
TWINS = [
    T("safe-join-prefix-with-path-sep", "sharepoint2text/parsing/extractors/util/sevenzip.py", "    if not target_abs.startswith(base_abs + os.sep):", "    if not target_abs.startswith(base_abs + os.path.sep):"),
    T("safe-join-result-inline", S, "            file_path = _safe_join(base_path, file_info.filename)\n            parent_dir = os.path.dirname(file_path)", "            file_path = _safe_join(base_path, file_info.filename)\n            parent_dir = os.path.dirname(_safe_join(base_path, file_info.filename))"),
    T("tempdir-var-renamed", A, "            with tempfile.TemporaryDirectory() as temp_dir:\n                try:\n                    szf.extractall(path=temp_dir)", "            with tempfile.TemporaryDirectory() as temp_dir:\n                try:\n                    szf.extractall(temp_dir)"),
    # since fix 404e9f8 every member the router sends back to read_archive is skipped: the suffix list is only a fast path
    T("nested-suffix-removed", A, '    ".7z",\n', ""),
    T("nested-alias-removed", A, '    ".gz",\n', ""),
]

# --- seeded changes kept under /verif/seeded (sub-agents saw only the property text); each must be reported by the named rule
import os as _os
from sa.selftest.harness import P as _P
_SEEDS = _os.path.join(_os.path.dirname(_os.path.dirname(_os.path.dirname(_os.path.abspath(__file__)))), "seeded")
SEEDED = [
    ("C09-1", "C09-TMP"),
    ("C09-2", "C09-PATH"),
    ("C09-3", "C09-MEM"),
    ("C09-4", "C09-TMP"),
    ("C09-5", "C09-PATH"),
    ("C09-6", "C09-SKIP"),
    ("C09-7", "C09-LABEL"),
    ("C09-8", "C09-MEM"),
    ("C09-10", "C09-PATH"),
    ("C09-12", "C09-LABEL"),
    ("C09-13", "C09-PATH"),
    ("C09-14", "C09-PATH"),
    ("C09-15", "C09-LABEL"),
]
MUTANTS = list(MUTANTS) + [_P("seed-" + sid, _os.path.join(_SEEDS, sid, "patch.diff"), rule) for sid, rule in SEEDED if _os.path.exists(_os.path.join(_SEEDS, sid, "patch.diff"))]
