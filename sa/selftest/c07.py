from sa.selftest.harness import M, T, Variant

R = "sharepoint2text/parsing/router.py"
I = "sharepoint2text/__init__.py"
MT = "sharepoint2text/parsing/mime_types.py"

MUTANTS = [
    M("alias-removed", R, "    \"htm\": \"html\",\n", "", "C07-DOC"),
    M("registry-entry-turned-into-alias-of-itself-kind", R, "    \"md\": (\"sharepoint2text.parsing.extractors.plain_extractor\", \"read_plain_text\"),", "    \"md\": \"txt\",", "C07-TABLES"),
    M("read-file-resolves-path-first", I, "    path = Path(path)\n", "    path = Path(path).resolve()\n", "C07-USE"),
    M("supported-check-case-sensitive", R, "    path_lower = path.lower()\n\n    # Check compound extensions first (e.g., .tar.gz)\n    for compound_ext in _COMPOUND_EXTENSIONS:", "    path_lower = path\n\n    # Check compound extensions first (e.g., .tar.gz)\n    for compound_ext in _COMPOUND_EXTENSIONS:", "C07-SHAPE"),
    M("mime-before-extension", R, "    file_type = _file_type_from_extension(path_lower)\n    if file_type:", "    file_type = None if (mime_type is not None and mime_type in MIME_TYPE_MAPPING) else _file_type_from_extension(path_lower)\n    if file_type:", "C07-SHAPE"),
    M("alias-target-not-resolved", R, "    ext = _EXTENSION_ALIASES.get(ext, ext)\n    return ext if ext in _EXTRACTOR_REGISTRY else None", "    return ext if ext in _EXTRACTOR_REGISTRY else None", "C07-SHAPE"),
    M("wrong-error-class", R, "    raise ExtractionFileFormatNotSupportedError(f\"File type not supported: {mime_type}\")", "    raise ValueError(f\"File type not supported: {mime_type}\")", "C07-SHAPE"),
    Variant("supported-check-by-pathlib-suffix", [(R, "import os\n", "import os\nfrom pathlib import PurePosixPath\n"), (R, "    extension = os.path.splitext(path_lower)[1]\n    if extension in _SUPPORTED_EXTENSIONS:", "    extension = PurePosixPath(path_lower).suffix\n    if extension in _SUPPORTED_EXTENSIONS:")], "C07-SHAPE"),
]

TWINS = [
    Variant("both-entry-points-by-pathlib-suffix", [(R, "import os\n", "import os\nfrom pathlib import PurePosixPath\n"), (R, "    extension = os.path.splitext(path_lower)[1]\n    if extension in _SUPPORTED_EXTENSIONS:", "    extension = PurePosixPath(path_lower).suffix\n    if extension in _SUPPORTED_EXTENSIONS:"), (R, "    extension = os.path.splitext(path_lower)[1]\n    if not extension:", "    extension = PurePosixPath(path_lower).suffix\n    if not extension:")], None),
    T("lower-once-renamed", R, "    path_lower = path.lower()\n    mime_type, _ = mimetypes.guess_type(path_lower)", "    path_lower = path.lower()\n    mime_type, _enc = mimetypes.guess_type(path_lower)"),
    T("registry-membership-by-get", R, "    return ext if ext in _EXTRACTOR_REGISTRY else None", "    return ext if _EXTRACTOR_REGISTRY.get(ext) is not None else None"),
]

# --- seeded changes kept under /verif/seeded (sub-agents saw only the property text); each must be reported by the named rule
import os as _os
from sa.selftest.harness import P as _P
_SEEDS = _os.path.join(_os.path.dirname(_os.path.dirname(_os.path.dirname(_os.path.abspath(__file__)))), "seeded")
SEEDED = [
    ("C07-1", "C07-DOC"),
    ("C07-2", "C07-TABLES"),
    ("C07-3", "C07-USE"),
    ("C07-4", "C07-SHAPE"),
    ("C07-5", "C07-USE"),
    ("C07-6", "C07-SHAPE"),
    ("C07-7", "C07-ATT"),
    ("C07-8", "C07-SHAPE"),
    ("C07-9", "C07-USE"),
    ("C07-10", "C07-USE"),
    ("C07-11", "C07-ATT"),
    ("C07-12", "C07-MEMO"),
    ("C07-13", "C07-ATT"),
    ("C07-14", "C07-SHAPE"),
    ("C07-15", "C07-USE"),
]
MUTANTS = list(MUTANTS) + [_P("seed-" + sid, _os.path.join(_SEEDS, sid, "patch.diff"), rule) for sid, rule in SEEDED if _os.path.exists(_os.path.join(_SEEDS, sid, "patch.diff"))]
