from sa.selftest.harness import M, T

X = "sharepoint2text/parsing/extractors/"
EPB = "sharepoint2text/parsing/extractors/epub_extractor.py"
PLN = "sharepoint2text/parsing/extractors/plain_extractor.py"
MUTANTS = [
    M("narrow-catch-all-docx", X + "ms_modern/docx_extractor.py", '    except Exception as exc:\n        raise ExtractionFailedError("Failed to extract DOCX file", cause=exc) from exc', '    except (ValueError, KeyError) as exc:\n        raise ExtractionFailedError("Failed to extract DOCX file", cause=exc) from exc', "C01-WRAP", "read_docx"),
    M("swallow-family-xlsx", X + "ms_modern/xlsx_extractor.py", '    except ExtractionError:\n        raise\n    except Exception as exc:\n        raise ExtractionFailedError("Failed to extract XLSX file", cause=exc) from exc', '    except ExtractionError:\n        return\n    except Exception as exc:\n        raise ExtractionFailedError("Failed to extract XLSX file", cause=exc) from exc', "C01-WRAP", "read_xlsx"),
    M("statement-before-try-plain", X + "plain_extractor.py", "    try:\n        logger.debug(\"Reading plain text file\")\n        file_like.seek(0)", "    file_like.seek(0)\n    try:\n        logger.debug(\"Reading plain text file\")", "C01-WRAP", "read_plain_text"),
    M("reraise-foreign-mhtml", X + "mhtml_extractor.py", '    except Exception as exc:\n        raise ExtractionFailedError("Failed to extract MHTML file", cause=exc) from exc', "    except Exception:\n        raise", "C01-WRAP", "read_mhtml"),
    M("else-clause-rtf", X + "ms_legacy/rtf_extractor.py", "    except ExtractionError:\n        raise\n    except Exception as exc:\n        raise ExtractionFailedError(\"Failed to extract RTF file\", cause=exc) from exc", "    except ExtractionError:\n        raise\n    except Exception as exc:\n        raise ExtractionFailedError(\"Failed to extract RTF file\", cause=exc) from exc\n    else:\n        file_like.seek(0)", "C01-WRAP", "read_rtf"),
    M("member-catch-narrowed", X + "archive_extractor.py", "    except Exception as e:\n        logger.warning(\"Failed to extract %s from archive: %s\", filename, e)", "    except ValueError as e:\n        logger.warning(\"Failed to extract %s from archive: %s\", filename, e)", "C01-WRAP", "_process_archive_entry"),
    M("attachment-reraises-foreign", X + "data_types.py", "            except ExtractionFileEncryptedError:\n                raise\n            except Exception as exc:", "            except (ExtractionFileEncryptedError, OSError):\n                raise\n            except Exception as exc:", "C01-WRAP", "iterate_supported_attachments"),
    M("read-file-no-rewrap", "sharepoint2text/__init__.py", "        except Exception as exc:\n            raise ExtractionFailedError(\n                f\"Failed to extract file: {path}\", cause=exc\n            ) from exc", "        except OSError as exc:\n            raise ExtractionFailedError(\n                f\"Failed to extract file: {path}\", cause=exc\n            ) from exc", "C01-WRAP", "read_file"),
    M("sys-exit-in-helper", X + "util/zip_bomb.py", "    try:\n        infos = zf.infolist()", "    import sys\n    if zf is None:\n        sys.exit(3)\n    try:\n        infos = zf.infolist()", "C01-EXIT"),
    M("cli-json-dump-stream", "sharepoint2text/cli.py", "            output = json.dumps(payload)\n        else:\n            output = _serialize_full_text(results)\n        sys.stdout.write(output + \"\\n\")", "            json.dump(payload, sys.stdout)\n            output = \"\"\n        else:\n            output = _serialize_full_text(results)\n        sys.stdout.write(output + \"\\n\")", "C01-CLI"),
    M("cli-work-after-write", "sharepoint2text/cli.py", "        sys.stdout.write(output + \"\\n\")\n        return 0", "        sys.stdout.write(output + \"\\n\")\n        file_path.stat()\n        return 0", "C01-CLI"),
    M("cli-handler-two-lines", "sharepoint2text/cli.py", "        print(f\"sharepoint2text: {exc}\", file=sys.stderr)\n        return 1", "        print(f\"sharepoint2text: {exc}\", file=sys.stderr)\n        print(\"extraction failed\", file=sys.stderr)\n        return 1", "C01-CLI"),
    M("cli-args-outside-try", "sharepoint2text/cli.py", "    try:\n        if args.binary and not (args.json or args.json_unit):", "    file_path0 = Path(args.path)\n    try:\n        if args.binary and not (args.json or args.json_unit):", "C01-CLI"),
    M("jpeg-scanner-continue-without-advance", X + "util/image_utils.py", "offset += 2 + segment_len", "offset += segment_len", "C01-LOOP"),
    M("xls-filepass-zero-advance", X + "util/encryption.py", "        offset += 4 + record_len", "        offset += record_len", "C01-LOOP"),
    M("rtf-hex-continue", X + "ms_legacy/rtf_extractor.py", "                    elif i + 3 < n:\n                        i += 4\n                    else:\n                        i += 2\n\n                elif next_char.isalpha():", "                    elif i + 3 < n:\n                        continue\n                    else:\n                        i += 2\n\n                elif next_char.isalpha():", "C01-LOOP"),
    M("heading-stack-no-pop", X + "data_types.py", "                    while heading_stack and heading_stack[-1][0] >= heading_level:\n                        heading_stack.pop()", "                    while heading_stack and heading_stack[-1][0] >= heading_level:\n                        heading_level += 0", "C01-LOOP"),
    M("recursion-on-self-docx", X + "ms_modern/docx_extractor.py", "            for child in choice:\n                _process_text_element(child, parts, include_formulas)", "            for child in choice:\n                _process_text_element(elem, parts, include_formulas)", "C01-REC"),
    M("regex-nested-repeat", EPB, '_RE_MULTI_SPACE = re.compile(r"[ \\t]+")', '_RE_MULTI_SPACE = re.compile(r"(?:[ \\t]+)+")', "C01-REGEX"),
    M("plain-reader-closes-input", PLN, "        file_like.seek(0)\n\n        content = file_like.read()\n", "        file_like.seek(0)\n\n        content = file_like.read()\n        file_like.close()\n", "C01-BORROW"),
]
TWINS = [
    T("rename-exc-var", X + "ms_modern/docx_extractor.py", '    except Exception as exc:\n        raise ExtractionFailedError("Failed to extract DOCX file", cause=exc) from exc', '    except Exception as error:\n        raise ExtractionFailedError("Failed to extract DOCX file", cause=error) from error'),
    T("two-statement-raise", X + "mhtml_extractor.py", '    except Exception as exc:\n        raise ExtractionFailedError("Failed to extract MHTML file", cause=exc) from exc', '    except Exception as exc:\n        err = ExtractionFailedError("Failed to extract MHTML file", cause=exc)\n        raise err from exc'),
    T("cli-two-writes-constant-second", "sharepoint2text/cli.py", '        sys.stdout.write(output + "\\n")\n        return 0', '        sys.stdout.write(output)\n        sys.stdout.write("\\n")\n        return 0'),
    T("loop-increment-reordered", X + "util/encryption.py", "        offset += 4 + record_len", "        offset += record_len + 4"),
    T("regex-unambiguous-alternation", EPB, '_RE_NAV_LINK = re.compile(r\'<a[^>]+href="([^"]+)"[^>]*>([^<]+)</a>\', re.IGNORECASE)', '_RE_NAV_LINK = re.compile(r\'<a[^>]+href="([^"]+)"[^>]*>((?:[^<]|<[^/][^>]*>)+?)</a>\', re.IGNORECASE)'),
]

# --- seeded changes kept under /verif/seeded (sub-agents saw only the property text); each must be reported by the named rule
import os as _os
from sa.selftest.harness import P as _P
_SEEDS = _os.path.join(_os.path.dirname(_os.path.dirname(_os.path.dirname(_os.path.abspath(__file__)))), "seeded")
SEEDED = [
    ("C01-1", "C01-WRAP"),
    ("C01-2", "C01-LOOP"),
    ("C01-3", "C01-CLI"),
    ("C01-4", "C01-LOOP"),
    ("C01-5", "C01-CLI"),
    ("C01-6", "C01-LOOP"),
    ("C01-7", "C01-UNBOUND"),
    ("C01-8", "C01-REGEX"),
    ("C01-9", "C01-BORROW"),
    ("C01-10", "C01-LOOP"),
    ("C01-11", "C01-WRAP"),
    ("C01-12", "C01-CLI"),
    ("C01-13", "C01-REGEX"),
    ("C01-14", "C01-CLI"),
    ("C01-15", "C01-WRAP"),
]
MUTANTS = list(MUTANTS) + [_P("seed-" + sid, _os.path.join(_SEEDS, sid, "patch.diff"), rule) for sid, rule in SEEDED if _os.path.exists(_os.path.join(_SEEDS, sid, "patch.diff"))]
