"""Whole-tree silent twins: behaviour-preserving rewrites of every repository file at once.

unparse   every file replaced by ast.unparse(ast.parse(src)): comments gone, layout / quoting / parentheses normalised
rename    every local variable (not parameters) of every simple function gets a new spelling
log       a `logger.debug(...)` line at the start of every function of every module that has a module-level `logger`
noann     parameter / return annotations of every function removed, annotated locals turned into plain assignments
          (class-level annotations stay: dataclass fields need them)

A check must report exactly what it reports on the real tree (the known findings included, under the same keys).
"""
from __future__ import annotations

import ast
import os


class _Ren(ast.NodeTransformer):
    def visit_FunctionDef(self, node):
        inner = [n for n in ast.walk(node) if n is not node and isinstance(n, (ast.FunctionDef, ast.AsyncFunctionDef, ast.Lambda, ast.ClassDef, ast.Global, ast.Nonlocal))]
        if inner:
            self.generic_visit(node)
            return node
        params = {a.arg for a in node.args.posonlyargs + node.args.args + node.args.kwonlyargs}
        if node.args.vararg:
            params.add(node.args.vararg.arg)
        if node.args.kwarg:
            params.add(node.args.kwarg.arg)
        assigned = set()
        for n in ast.walk(node):
            if isinstance(n, ast.Name) and isinstance(n.ctx, ast.Store):
                assigned.add(n.id)
            elif isinstance(n, ast.ExceptHandler) and n.name:
                assigned.add(n.name)
            elif isinstance(n, (ast.Import, ast.ImportFrom)):
                for a in n.names:
                    params.add((a.asname or a.name).split(".")[0])
        ren = {x: x + "_r" for x in assigned - params if not x.startswith("__") and x != "_"}
        for n in ast.walk(node):
            if isinstance(n, ast.Name) and n.id in ren:
                n.id = ren[n.id]
            elif isinstance(n, ast.ExceptHandler) and n.name in ren:
                n.name = ren[n.name]
        return node

    visit_AsyncFunctionDef = visit_FunctionDef


class _Log(ast.NodeTransformer):
    def visit_FunctionDef(self, node):
        self.generic_visit(node)
        stmt = ast.parse(f"logger.debug('enter %s', {node.name!r})").body[0]
        i = 1 if node.body and isinstance(node.body[0], ast.Expr) and isinstance(node.body[0].value, ast.Constant) and isinstance(node.body[0].value.value, str) else 0
        node.body.insert(i, stmt)
        return node

    visit_AsyncFunctionDef = visit_FunctionDef


class _NoAnn(ast.NodeTransformer):
    def __init__(self):
        self.depth = 0

    def visit_FunctionDef(self, node):
        self.depth += 1
        for a in node.args.posonlyargs + node.args.args + node.args.kwonlyargs:
            a.annotation = None
        if node.args.vararg:
            node.args.vararg.annotation = None
        if node.args.kwarg:
            node.args.kwarg.annotation = None
        node.returns = None
        self.generic_visit(node)
        self.depth -= 1
        return node

    visit_AsyncFunctionDef = visit_FunctionDef

    def visit_ClassDef(self, node):
        d, self.depth = self.depth, 0
        self.generic_visit(node)
        self.depth = d
        return node

    def visit_AnnAssign(self, node):
        if self.depth and node.value is not None and node.simple:
            return ast.copy_location(ast.Assign(targets=[node.target], value=node.value), node)
        return node


def overlays(root: str) -> dict[str, dict[str, str]]:
    un, rn, lg, na = {}, {}, {}, {}
    for dp, _dn, fn in os.walk(os.path.join(root, "sharepoint2text")):
        if "tests" in dp.split(os.sep):
            continue
        for f in fn:
            if not f.endswith(".py"):
                continue
            p = os.path.join(dp, f)
            rel = os.path.relpath(p, root).replace(os.sep, "/")
            with open(p, "r", encoding="utf-8") as fh:
                src = fh.read()
            try:
                tree = ast.parse(src)
            except SyntaxError:
                continue
            un[rel] = ast.unparse(tree) + "\n"
            rn[rel] = ast.unparse(_Ren().visit(ast.parse(src))) + "\n"
            if any(isinstance(n, ast.Assign) and any(isinstance(t, ast.Name) and t.id == "logger" for t in n.targets) for n in tree.body):
                lg[rel] = ast.unparse(ast.fix_missing_locations(_Log().visit(ast.parse(src)))) + "\n"
            na[rel] = ast.unparse(ast.fix_missing_locations(_NoAnn().visit(ast.parse(src)))) + "\n"
    return {"whole-tree-unparse": un, "whole-tree-local-rename": rn, "whole-tree-debug-log": lg, "whole-tree-no-annotations": na}
