"""Whole-tree silent twins: behaviour-preserving rewrites of every repository file at once.

unparse   every file replaced by ast.unparse(ast.parse(src)): comments gone, layout / quoting / parentheses normalised
rename    every local variable (not parameters, not names an inner function or lambda mentions) of every function gets a new spelling
log       a `logger.debug(...)` line at the start of every function of every module that has a module-level `logger`
noann     parameter / return annotations of every function removed, annotated locals turned into plain assignments
          (class-level annotations stay: dataclass fields need them)
rettmp    every `return <expression>` becomes `_result = <expression>; return _result`
invert    every `if C: A else: B` (unless both branches end in return / raise / continue / break) becomes `if not C: B else: A`
elsewrap  every `if C: ...return/raise/continue/break` followed by more statements gets those statements as its else branch

A check must report exactly what it reports on the real tree (the known findings included, under the same keys).
"""
from __future__ import annotations

import ast
import os


class _Ren(ast.NodeTransformer):
    def visit_FunctionDef(self, node):
        inner = [n for n in ast.walk(node) if n is not node and isinstance(n, (ast.FunctionDef, ast.AsyncFunctionDef, ast.Lambda, ast.ClassDef))]
        declared = [n for n in ast.walk(node) if isinstance(n, (ast.Global, ast.Nonlocal))]
        if declared or any(isinstance(n, ast.ClassDef) for n in inner):
            self.generic_visit(node)
            return node
        # names that an inner function / lambda mentions (as parameter, local or free variable) keep their spelling; the other locals of
        # the enclosing function are renamed as in a simple function
        inner_names: set[str] = set()
        inner_nodes: set[int] = set()
        for f in inner:
            for n in ast.walk(f):
                inner_nodes.add(id(n))
                if isinstance(n, ast.Name):
                    inner_names.add(n.id)
                elif isinstance(n, ast.arg):
                    inner_names.add(n.arg)
            if isinstance(f, (ast.FunctionDef, ast.AsyncFunctionDef)):
                inner_names.add(f.name)
        params = {a.arg for a in node.args.posonlyargs + node.args.args + node.args.kwonlyargs}
        if node.args.vararg:
            params.add(node.args.vararg.arg)
        if node.args.kwarg:
            params.add(node.args.kwarg.arg)
        assigned = set()
        for n in ast.walk(node):
            if id(n) in inner_nodes:
                continue
            if isinstance(n, ast.Name) and isinstance(n.ctx, ast.Store):
                assigned.add(n.id)
            elif isinstance(n, ast.ExceptHandler) and n.name:
                assigned.add(n.name)
            elif isinstance(n, (ast.Import, ast.ImportFrom)):
                for a in n.names:
                    params.add((a.asname or a.name).split(".")[0])
        ren = {x: x + "_r" for x in assigned - params - inner_names if not x.startswith("__") and x != "_"}
        for n in ast.walk(node):
            if isinstance(n, ast.Name) and n.id in ren:
                n.id = ren[n.id]
            elif isinstance(n, ast.ExceptHandler) and n.name in ren:
                n.name = ren[n.name]
        return node

    visit_AsyncFunctionDef = visit_FunctionDef


class _Log(ast.NodeTransformer):
    def visit_FunctionDef(self, node):
        self.generic_visit(node)
        stmt = ast.parse(f"logger.debug('enter %s', {node.name!r})").body[0]
        i = 1 if node.body and isinstance(node.body[0], ast.Expr) and isinstance(node.body[0].value, ast.Constant) and isinstance(node.body[0].value.value, str) else 0
        node.body.insert(i, stmt)
        return node

    visit_AsyncFunctionDef = visit_FunctionDef


class _NoAnn(ast.NodeTransformer):
    def __init__(self):
        self.depth = 0

    def visit_FunctionDef(self, node):
        self.depth += 1
        for a in node.args.posonlyargs + node.args.args + node.args.kwonlyargs:
            a.annotation = None
        if node.args.vararg:
            node.args.vararg.annotation = None
        if node.args.kwarg:
            node.args.kwarg.annotation = None
        node.returns = None
        self.generic_visit(node)
        self.depth -= 1
        return node

    visit_AsyncFunctionDef = visit_FunctionDef

    def visit_ClassDef(self, node):
        d, self.depth = self.depth, 0
        self.generic_visit(node)
        self.depth = d
        return node

    def visit_AnnAssign(self, node):
        if self.depth and node.value is not None and node.simple:
            return ast.copy_location(ast.Assign(targets=[node.target], value=node.value), node)
        return node


class _RetTmp(ast.NodeTransformer):
    def _fix(self, body):
        out = []
        for st in body:
            if isinstance(st, ast.Return) and st.value is not None and not isinstance(st.value, (ast.Name, ast.Constant)) and not any(isinstance(x, (ast.Yield, ast.YieldFrom, ast.Await)) for x in ast.walk(st.value)):
                out.append(ast.copy_location(ast.Assign(targets=[ast.Name(id="_result", ctx=ast.Store())], value=st.value), st))
                out.append(ast.copy_location(ast.Return(value=ast.Name(id="_result", ctx=ast.Load())), st))
            else:
                out.append(st)
        return out

    def generic_visit(self, node):
        super().generic_visit(node)
        for f in ("body", "orelse", "finalbody"):
            b = getattr(node, f, None)
            if isinstance(b, list) and b and isinstance(b[0], ast.stmt):
                setattr(node, f, self._fix(b))
        return node


def _ends(body):
    if not body:
        return False
    last = body[-1]
    if isinstance(last, (ast.Return, ast.Raise, ast.Continue, ast.Break)):
        return True
    if isinstance(last, ast.If):
        return bool(last.orelse) and _ends(last.body) and _ends(last.orelse)
    if isinstance(last, ast.Try):
        main = _ends(last.orelse) if last.orelse else _ends(last.body)
        return (bool(last.finalbody) and _ends(last.finalbody)) or (main and all(_ends(h.body) for h in last.handlers))
    if isinstance(last, ast.With):
        return _ends(last.body)
    return False


class _Invert(ast.NodeTransformer):
    def visit_If(self, node):
        self.generic_visit(node)
        # (an if/else whose branches both end in return / raise is left alone: the analyser's normal form keeps its orientation)
        if node.orelse and node.body and not (_ends(node.body) and _ends(node.orelse)):
            t = node.test
            nt = t.operand if isinstance(t, ast.UnaryOp) and isinstance(t.op, ast.Not) else ast.UnaryOp(op=ast.Not(), operand=t)
            return ast.copy_location(ast.If(test=nt, body=node.orelse, orelse=node.body), node)
        return node


class _ElseWrap(ast.NodeTransformer):
    def _fix(self, body):
        for i, st in enumerate(body):
            if isinstance(st, ast.If) and not st.orelse and st.body and isinstance(st.body[-1], (ast.Return, ast.Raise, ast.Continue, ast.Break)) and i + 1 < len(body):
                st.orelse = self._fix(body[i + 1:])
                return body[: i + 1]
        return body

    def generic_visit(self, node):
        super().generic_visit(node)
        if isinstance(node, (ast.FunctionDef, ast.AsyncFunctionDef, ast.For, ast.While, ast.With, ast.If, ast.Try, ast.ExceptHandler)):
            for f in ("body", "orelse", "finalbody"):
                b = getattr(node, f, None)
                if isinstance(b, list) and b and isinstance(b[0], ast.stmt):
                    setattr(node, f, self._fix(b))
        return node


def overlays(root: str) -> dict[str, dict[str, str]]:
    un, rn, lg, na = {}, {}, {}, {}
    rt, iv, ew = {}, {}, {}
    for dp, _dn, fn in os.walk(os.path.join(root, "sharepoint2text")):
        if "tests" in dp.split(os.sep):
            continue
        for f in fn:
            if not f.endswith(".py"):
                continue
            p = os.path.join(dp, f)
            rel = os.path.relpath(p, root).replace(os.sep, "/")
            with open(p, "r", encoding="utf-8") as fh:
                src = fh.read()
            try:
                tree = ast.parse(src)
            except SyntaxError:
                continue
            un[rel] = ast.unparse(tree) + "\n"
            rn[rel] = ast.unparse(_Ren().visit(ast.parse(src))) + "\n"
            if any(isinstance(n, ast.Assign) and any(isinstance(t, ast.Name) and t.id == "logger" for t in n.targets) for n in tree.body):
                lg[rel] = ast.unparse(ast.fix_missing_locations(_Log().visit(ast.parse(src)))) + "\n"
            na[rel] = ast.unparse(ast.fix_missing_locations(_NoAnn().visit(ast.parse(src)))) + "\n"
            rt[rel] = ast.unparse(ast.fix_missing_locations(_RetTmp().visit(ast.parse(src)))) + "\n"
            iv[rel] = ast.unparse(ast.fix_missing_locations(_Invert().visit(ast.parse(src)))) + "\n"
            ew[rel] = ast.unparse(ast.fix_missing_locations(_ElseWrap().visit(ast.parse(src)))) + "\n"
    return {"whole-tree-unparse": un, "whole-tree-local-rename": rn, "whole-tree-debug-log": lg, "whole-tree-no-annotations": na,
            "whole-tree-return-temp": rt, "whole-tree-if-inverted": iv, "whole-tree-else-after-exit": ew}
