from sa.selftest.harness import M, T, Variant

F = "sharepoint2text/sharepoint_io/client.py"
MUTANTS = [
    M("transport-outside-send", F, "        request = Request(url, headers=self._get_headers(), method=\"GET\")\n        _, body = self._send(request, request_kind=\"API\")", "        request = Request(url, headers=self._get_headers(), method=\"GET\")\n        body = self._request(request, timeout=self._timeout).read()", "C18-IO"),
    M("read-handler-dropped", F, "        except Exception as exc:\n            # Timeouts, resets or truncated bodies while reading the response\n            raise SharePointRequestError(\n                f\"{request_kind} request failed while reading the response: {exc}\",\n                status_code=None,\n                body=None,\n                url=request.full_url,\n            ) from exc\n", "", "C18-ERR"),
    M("json-not-object-accepted", F, "        if not isinstance(data, dict):\n            raise SharePointRequestError(\n                \"Unexpected JSON response from Graph API (not an object)\",", "        if False:\n            raise SharePointRequestError(\n                \"Unexpected JSON response from Graph API (not an object)\",", "C18-ERR"),
    M("non-2xx-accepted", F, "if status is None or not (200 <= status < 300):", "if status is None or not (200 <= status < 400):", "C18-ERR"),
    M("url-missing-in-error", F, "                status_code=exc.code,\n                body=body.decode(\"utf-8\", errors=\"replace\") if body else None,\n                url=request.full_url,", "                status_code=exc.code,\n                body=body.decode(\"utf-8\", errors=\"replace\") if body else None,\n                url=\"\",", "C18-ERR"),
    M("httperror-not-closed", F, "            finally:\n                exc.close()\n", "", "C18-CLOSE"),
    M("response-close-only-on-success", F, "        finally:\n            if response is not None:\n                try:\n                    response.close()\n                except Exception:\n                    pass\n", "        response.close()\n", "C18-CLOSE"),
    M("token-cached-before-validation", F, "        access_token = data.get(\"access_token\")\n        if not access_token:\n            raise SharePointAuthError(\"Token response missing access_token\")\n        self._access_token = access_token\n", "        access_token = data.get(\"access_token\")\n        self._access_token = access_token\n        if not access_token:\n            raise SharePointAuthError(\"Token response missing access_token\")\n", "C18-CACHE"),
    M("visited-set-state", F, "        url = self._build_children_url(site_id, item_id, drive_id)\n\n        for item in self._list_items_paginated(url, parent_path=parent_path):", "        url = self._build_children_url(site_id, item_id, drive_id)\n        self._seen = getattr(self, \"_seen\", set())\n        self._seen.add(item_id)\n\n        for item in self._list_items_paginated(url, parent_path=parent_path):", "C18-STATE"),
    M("after-exclusive", F, "if created_after and created_dt < created_after:", "if created_after and created_dt <= created_after:", "C18-CMP"),
    M("before-inclusive", F, "if modified_before and modified_dt >= modified_before:", "if modified_before and modified_dt > modified_before:", "C18-CMP"),
    M("modified-compares-created", F, "modified_dt = _parse_iso_datetime(file_meta.last_modified)", "modified_dt = _parse_iso_datetime(file_meta.created)", "C18-CMP"),
    M("pattern-on-name-only", F, "full_path = file_meta.get_full_path()", "full_path = file_meta.name", "C18-CMP"),
    M("empty-folders-skipped", F, "                if isinstance(item, dict) and \"folder\" in item:\n                    folders.append(item)", "                if isinstance(item, dict) and \"folder\" in item and item[\"folder\"].get(\"childCount\"):\n                    folders.append(item)", "C18-PART"),
    M("first-page-only", F, "            # Handle pagination\n            current_url = data.get(\"@odata.nextLink\")", "            # Handle pagination\n            current_url = None", "C18-PART"),
    M("wrong-parent-path", F, "                    parent_path=new_parent_path,\n", "                    parent_path=parent_path,\n", "C18-PART"),
    M("status-raise-inside-read-try", F, "            body = response.read()\n        except Exception as exc:", "            body = response.read()\n            if status is None or not (200 <= status < 300):\n                raise SharePointRequestError(\"bad\", status_code=status, body=None, url=request.full_url)\n        except Exception as exc:", "C18-ERR"),
    M("skip-empty-folders", F, "            folder_name = item.get(\"name\", \"\")\n", "            if not item.get(\"folder\", {}).get(\"childCount\"):\n                continue\n            folder_name = item.get(\"name\", \"\")\n", "C18-PART"),
    M("oserror-not-converted", F, "        except (OSError, http.client.HTTPException) as exc:\n            # Timeouts, resets and malformed answers while the status line and\n            # the headers are read are not wrapped by urlopen\n            raise SharePointRequestError(\n                f\"{request_kind} request failed due to network error: {exc}\",\n                status_code=None,\n                body=None,\n                url=request.full_url,\n            ) from exc\n", "", "C18-ERR"),
    M("httpexception-not-converted", F, "except (OSError, http.client.HTTPException) as exc:", "except OSError as exc:", "C18-ERR"),
    M("token-kept-after-401", F, "            if exc.code == 401:\n", "            if False:\n", "C18-CACHE"),
    M("token-dropped-on-500-only", F, "            if exc.code == 401:\n", "            if exc.code == 500:\n", "C18-CACHE"),
    M("naive-bound-compared", F, "created_after = _as_utc(self.created_after)", "created_after = self.created_after", "C18-CMP"),
    M("parsed-date-naive", F, "return _as_utc(datetime.fromisoformat(dt_string))", "return datetime.fromisoformat(dt_string)", "C18-CMP"),
    M("include-root-files-ignored", F, "            if not include_root_files and not file_meta.parent_path:\n                continue\n", "", "C18-CMP"),
]
TWINS = [
    T("folder-paths-skip-on-segment-prefix", "sharepoint2text/sharepoint_io/client.py", "            for folder_path in target_folders:\n", "            walked_paths: list[str] = []\n            for folder_path in target_folders:\n                norm_path = folder_path.strip(\"/\")\n                if any(norm_path == done or norm_path.startswith(done + \"/\") for done in walked_paths):\n                    continue\n                walked_paths.append(norm_path)\n"),
    T("urlerror-not-converted", F, "        except URLError as exc:\n            raise SharePointRequestError(\n                f\"{request_kind} request failed due to network error: {exc.reason}\",\n                status_code=None,\n                body=None,\n                url=request.full_url,\n            ) from exc\n", ""),
    T("token-dropped-on-401-or-403", F, "            if exc.code == 401:\n", "            if exc.code == 401 and self._access_token is not None:\n"),
    T("transport-caught-as-exception", F, "except (OSError, http.client.HTTPException) as exc:", "except Exception as exc:"),
    T("date-compare-flipped", F, "if created_after and created_dt < created_after:", "if created_after and created_after > created_dt:"),
    T("rename-dt-variable", F, "            created_dt = _parse_iso_datetime(file_meta.created)\n            if created_dt is None:\n                return False\n            if created_after and created_dt < created_after:\n                return False\n            if created_before and created_dt >= created_before:", "            c_dt = _parse_iso_datetime(file_meta.created)\n            if c_dt is None:\n                return False\n            if created_after and c_dt < created_after:\n                return False\n            if created_before and c_dt >= created_before:"),
    T("close-without-none-test", F, "            if response is not None:\n                try:\n                    response.close()\n                except Exception:\n                    pass\n", "            try:\n                response.close()\n            except Exception:\n                pass\n"),
    T("folder-id-guard-as-continue", F, "            if folder_id:\n                yield from self._walk_drive_items(\n                    site_id,\n                    folder_id,\n                    drive_id=drive_id,\n                    parent_path=new_parent_path,\n                )\n", "            if not folder_id:\n                continue\n            yield from self._walk_drive_items(\n                site_id,\n                folder_id,\n                drive_id=drive_id,\n                parent_path=new_parent_path,\n            )\n"),
]

# --- seeded changes kept under /verif/seeded (sub-agents saw only the property text); each must be reported by the named rule
import os as _os
from sa.selftest.harness import P as _P
_SEEDS = _os.path.join(_os.path.dirname(_os.path.dirname(_os.path.dirname(_os.path.abspath(__file__)))), "seeded")
SEEDED = [
    ("C18-1", "C18-PART"),
    ("C18-2", "C18-CMP"),
    ("C18-3", "C18-STATE"),
    ("C18-4", "C18-PROP"),
    ("C18-5", "C18-CMP"),
    ("C18-6", "C18-ERR"),
    ("C18-7", "C18-PART"),
    ("C18-8", "C18-PART"),
    ("C18-9", "C18-ERR"),
    ("C18-10", "C18-ERR"),
    ("C18-11", "C18-PART"),
    ("C18-12", "C18-CACHE"),
    ("C18-13", "C18-PART"),
    ("C18-14", "C18-CACHE"),
    ("C18-15", "C18-PART"),
]
MUTANTS = list(MUTANTS) + [_P("seed-" + sid, _os.path.join(_SEEDS, sid, "patch.diff"), rule) for sid, rule in SEEDED if _os.path.exists(_os.path.join(_SEEDS, sid, "patch.diff"))]
