from sa.selftest.harness import M, T

X = "sharepoint2text/parsing/extractors/"
D = X + "data_types.py"
EML = X + "mail/eml_email_extractor.py"
MBOX = X + "mail/mbox_email_extractor.py"
MSG = X + "mail/msg_email_extractor.py"

EM = "sharepoint2text/parsing/extractors/mail/eml_email_extractor.py"
MUTANTS = [
    M("mbox-attachments-not-passed", MBOX, "        attachments=get_attachments(message),\n", "", "C16-SIB"),
    M("mbox-html-body-not-passed", MBOX, "        body_html=body_html,\n        attachments=get_attachments(message),", "        attachments=get_attachments(message),", "C16-SIB"),
    M("eml-attachments-constant", EML, "        attachments=attachments,\n        metadata=metadata,", "        attachments=[],\n        metadata=metadata,", "C16-SIB"),
    M("msg-cc-dropped", MSG, "            to_cc=_parse_multi_recipients(msg.cc),\n", "", "C16-SIB"),
    M("eml-message-id-dropped", EML, "        message_id=mail.message_id or \"\",\n", "", "C16-SIB"),
    M("eml-content-id-parts-skipped", EML, "        filename = attachment.get(\"filename\") or \"attachment\"\n", "        if attachment.get(\"content-id\"):\n            continue\n        filename = attachment.get(\"filename\") or \"attachment\"\n", "C16-ATT"),
    M("mbox-inline-named-parts-skipped", MBOX, "        if not filename and \"attachment\" not in content_disposition:\n            continue\n", "        if \"attachment\" not in content_disposition:\n            continue\n", "C16-ATT"),
    M("mbox-attachment-bytes-still-encoded", MBOX, "        payload = part.get_payload(decode=True) or b\"\"\n        mime_type", "        payload = (part.get_payload() or \"\").encode(\"ascii\", \"replace\")\n        mime_type", "C16-ATT"),
    M("mbox-images-skipped", MBOX, "        payload = part.get_payload(decode=True) or b\"\"\n        mime_type = part.get_content_type() or \"application/octet-stream\"\n", "        payload = part.get_payload(decode=True) or b\"\"\n        mime_type = part.get_content_type() or \"application/octet-stream\"\n        if mime_type.startswith(\"image/\"):\n            continue\n", "C16-ATT"),
    M("msg-empty-attachments-skipped", MSG, "            data_stream = io.BytesIO(data)\n            data_stream.seek(0)\n            attachments.append(", "            if not data:\n                continue\n            data_stream = io.BytesIO(data)\n            data_stream.seek(0)\n            attachments.append(", "C16-ATT"),
    M("eml-binary-flag-ignored", EML, "        if is_binary:\n            if isinstance(payload, str):\n                data = base64.b64decode(payload)\n            else:\n                data = base64.b64decode(payload)\n        else:\n            if isinstance(payload, str):", "        if False:\n            data = b\"\"\n        else:\n            if isinstance(payload, str):", "C16-ATT"),
    M("addresses-decoded-before-split", MBOX, "    addresses = email.utils.getaddresses([addr_string])", "    addresses = email.utils.getaddresses([decode_header_value(addr_string)])", "C16-ORDER"),
    M("single-address-decoded-before-split", MBOX, "    name, address = email.utils.parseaddr(addr_string)", "    decoded = decode_header_value(addr_string)\n    name, address = email.utils.parseaddr(decoded)", "C16-ORDER"),
    M("separator-needs-lf-blank-line", MBOX, "MBOX_FROM_PATTERN = re.compile(rb\"^From \\S+[ \\t][^\\r\\n]*\\d{4}\\r?\\n\", re.MULTILINE)", "MBOX_FROM_PATTERN = re.compile(rb\"(?:\\A|(?<=\\n\\n))From \\S+[ \\t][^\\r\\n]*\\d{4}\\r?\\n\")", "C16-SEP"),
    M("separator-lf-only", MBOX, "MBOX_FROM_PATTERN = re.compile(rb\"^From \\S+[ \\t][^\\r\\n]*\\d{4}\\r?\\n\", re.MULTILINE)", "MBOX_FROM_PATTERN = re.compile(rb\"^From \\S+[ \\t][^\\r\\n]*\\d{4}\\n\", re.MULTILINE)", "C16-SEP"),
    M("separator-not-anchored", MBOX, "MBOX_FROM_PATTERN = re.compile(rb\"^From \\S+[ \\t][^\\r\\n]*\\d{4}\\r?\\n\", re.MULTILINE)", "MBOX_FROM_PATTERN = re.compile(rb\"From \\S+[ \\t][^\\r\\n]*\\d{4}\\r?\\n\", re.MULTILINE)", "C16-SEP"),
    M("separator-multiline-flag-dropped", MBOX, "MBOX_FROM_PATTERN = re.compile(rb\"^From \\S+[ \\t][^\\r\\n]*\\d{4}\\r?\\n\", re.MULTILINE)", "MBOX_FROM_PATTERN = re.compile(rb\"^From \\S+[ \\t][^\\r\\n]*\\d{4}\\r?\\n\")", "C16-SEP"),
    M("route-mime-only", D, "            try:\n                extractor = get_extractor(attachment.filename)\n            except ExtractionFileFormatNotSupportedError:\n                file_type = MIME_TYPE_MAPPING.get(attachment.mime_type)\n                if not file_type:", "            if True:\n                file_type = MIME_TYPE_MAPPING.get(attachment.mime_type)\n                if not file_type:", "C16-ROUTE"),
    M("route-no-rewind-after", D, "            finally:\n                attachment.data.seek(0)\n\n    def get_full_text(self) -> str:\n        return _join_unit_text(self.iterate_units())\n\n    def get_metadata(self) -> EmailMetadata:", "            finally:\n                pass\n\n    def get_full_text(self) -> str:\n        return _join_unit_text(self.iterate_units())\n\n    def get_metadata(self) -> EmailMetadata:", "C16-ROUTE"),
    M("route-failure-aborts", D, "            except Exception as exc:\n                logger.debug(\n                    \"Failed to extract attachment: %s (mime=%s) error=%s\",\n                    attachment.filename,\n                    attachment.mime_type,\n                    exc,\n                )\n", "            except Exception as exc:\n                logger.debug(\n                    \"Failed to extract attachment: %s (mime=%s) error=%s\",\n                    attachment.filename,\n                    attachment.mime_type,\n                    exc,\n                )\n                raise\n", "C16-ROUTE"),
    M("attachment-transcoded", EM, "        data_stream = io.BytesIO(data)\n", "        if mime_type.startswith(\"text/\"):\n            data = data.decode(\"latin-1\").encode(\"utf-8\")\n        data_stream = io.BytesIO(data)\n", "C16-BYTES"),
    M("attachment-gated-on-mime-alone", D, "            if not attachment.is_supported_mime_type and not is_supported_file(\n                attachment.filename or \"\"\n            ):", "            if not attachment.is_supported_mime_type:", "C16-ROUTE"),
]

TWINS = [
    T("attachment-gate-name-first", D, "            if not attachment.is_supported_mime_type and not is_supported_file(\n                attachment.filename or \"\"\n            ):", "            if not is_supported_file(attachment.filename or \"\") and not attachment.is_supported_mime_type:"),
    T("separator-optional-cr-as-class", MBOX, "MBOX_FROM_PATTERN = re.compile(rb\"^From \\S+[ \\t][^\\r\\n]*\\d{4}\\r?\\n\", re.MULTILINE)", "MBOX_FROM_PATTERN = re.compile(rb\"(?m)^From \\S+[ \\t][^\\r\\n]*\\d{4}(?:\\r\\n|\\n)\")"),
    T("separator-blank-line-aware-both-eols", MBOX, "MBOX_FROM_PATTERN = re.compile(rb\"^From \\S+[ \\t][^\\r\\n]*\\d{4}\\r?\\n\", re.MULTILINE)", "MBOX_FROM_PATTERN = re.compile(rb\"(?:\\A|(?<=\\n\\n)|(?<=\\n\\r\\n))From \\S+[ \\t][^\\r\\n]*\\d{4}\\r?\\n\")"),
    T("mbox-attachment-loop-names-swapped", MBOX, "        filename = part.get_filename()\n        content_disposition = str(part.get(\"Content-Disposition\", \"\"))\n", "        content_disposition = str(part.get(\"Content-Disposition\", \"\"))\n        filename = part.get_filename()\n"),
    T("addresses-name-decoded-in-loop-var", MBOX, "            result.append(EmailAddress(name=decode_header_value(name), address=addr))", "            decoded_name = decode_header_value(name)\n            result.append(EmailAddress(name=decoded_name, address=addr))"),
    T("attachment-default-name", EM, '        filename = attachment.get("filename") or "attachment"', '        filename = attachment.get("filename") or "unnamed"'),
]

# --- seeded changes kept under /verif/seeded (sub-agents saw only the property text); each must be reported by the named rule
import os as _os
from sa.selftest.harness import P as _P
_SEEDS = _os.path.join(_os.path.dirname(_os.path.dirname(_os.path.dirname(_os.path.abspath(__file__)))), "seeded")
SEEDED = [
    ("C16-1", "C16-SEP"),
    ("C16-2", "C16-ORDER"),
    ("C16-3", "C16-ATT"),
    ("C16-4", "C16-ORDER"),
    ("C16-5", "C16-ROUTE"),
    ("C16-6", "C16-BYTES"),
    ("C16-7", "C16-BYTES"),
    ("C16-8", "C16-SEP"),
    ("C16-9", "C16-BYTES"),
    ("C16-10", "C16-ATT"),
    ("C16-11", "C16-ORDER"),
    ("C16-12", "C16-SEP"),
    ("C16-13", "C16-ROUTE"),
    ("C16-14", "C16-POST"),
    ("C16-15", "C16-BYTES"),
]
MUTANTS = list(MUTANTS) + [_P("seed-" + sid, _os.path.join(_SEEDS, sid, "patch.diff"), rule) for sid, rule in SEEDED if _os.path.exists(_os.path.join(_SEEDS, sid, "patch.diff"))]
