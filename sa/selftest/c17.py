from sa.selftest.harness import M, T, Variant

H = "sharepoint2text/parsing/extractors/html_extractor.py"
EP = "sharepoint2text/parsing/extractors/epub_extractor.py"
MH = "sharepoint2text/parsing/extractors/mhtml_extractor.py"
MS = "sharepoint2text/parsing/extractors/mail/msg_email_extractor.py"

HT = "sharepoint2text/parsing/extractors/html_extractor.py"
MUTANTS = [
    M("html-every-start-tag-deepens", H, "        if self.skip_depth > 0:\n            if tag == self._skip_tag:\n                self.skip_depth += 1\n            return\n\n        if tag in REMOVE_TAGS:", "        if self.skip_depth > 0:\n            self.skip_depth += 1\n            return\n\n        if tag in REMOVE_TAGS:", "C17-SKIP"),
    M("html-any-end-tag-closes", H, "        if self.skip_depth > 0:\n            if tag == self._skip_tag:\n                self.skip_depth -= 1\n                if self.skip_depth == 0:\n                    self._skip_tag = None\n            return", "        if self.skip_depth > 0:\n            self.skip_depth -= 1\n            if self.skip_depth == 0:\n                self._skip_tag = None\n            return", "C17-SKIP"),
    M("html-void-removable-opens-skip", H, "            if tag not in _VOID_TAGS:\n                self.skip_depth = 1\n                self._skip_tag = tag\n            return\n\n        # A start tag may stand", "            self.skip_depth = 1\n            self._skip_tag = tag\n            return\n\n        # A start tag may stand", "C17-SKIP"),
    M("html-data-written-while-skipping", H, "    def handle_data(self, data: str):\n        if self.skip_depth > 0:\n            return\n\n        if self.last_closed is not None:", "    def handle_data(self, data: str):\n        if self.last_closed is not None:", "C17-N4"),
    M("html-comments-kept", H, "    def handle_comment(self, data: str):\n        # Ignore comments\n        pass", "    def handle_comment(self, data: str):\n        if self.stack:\n            self.stack[-1][\"text\"] += data", "C17-N4"),
    M("html-noscript-not-removed", H, "REMOVE_TAGS = ", "REMOVE_TAGS_ORIG = ", "C17-SKIP"),
    M("epub-every-start-tag-deepens", EP, "        if self.skip_depth > 0:\n            if tag == self._skip_tag:\n                self.skip_depth += 1\n            return\n\n        if tag in REMOVE_TAGS:", "        if self.skip_depth > 0:\n            self.skip_depth += 1\n            return\n\n        if tag in REMOVE_TAGS:", "C17-SKIP"),
    M("epub-cdata-kept-while-skipping", EP, "    def handle_data(self, data: str):", "    def unknown_decl(self, data: str):\n        if data.startswith(\"CDATA[\"):\n            self.text_parts.append(data[len(\"CDATA[\") :])\n\n    def handle_data(self, data: str):", "C17-N4"),
    M("mhtml-comments-stripped-by-regex", MH, "        html_buffer = io.BytesIO(html_content)", "        html_content = re.sub(rb\"<!--.*?-->\", b\"\", html_content, flags=re.DOTALL)\n        html_buffer = io.BytesIO(html_content)", "C17-N5"),
    M("parser-close-called", HT, "            rest = parser.rawdata\n", "            parser.close()\n            rest = parser.rawdata\n", "C17-EOF"),
    M("flush-unguarded", HT, "            if rest and \"<\" not in rest:\n", "            if rest:\n", "C17-EOF"),
    M("msg-html-hint-doubled-backslash", MS, "script)(\\s|/|>)\",", "script)(\\\\s|>)\",", "C17-N5"),
    M("msg-html-hint-no-self-closing", MS, "script)(\\s|/|>)\",", "script)(\\s|>)\",", "C17-N5"),
    M("html-noscript-as-raw-text", H, "    def __init__(self):\n        super().__init__(convert_charrefs=True)\n        # Root node\n", "    CDATA_CONTENT_ELEMENTS = (\"script\", \"style\", \"noscript\", \"iframe\")\n\n    def __init__(self):\n        super().__init__(convert_charrefs=True)\n        # Root node\n", "C17-TOK"),
    M("epub-cdata-mode-for-removed", EP, "            if tag not in _VOID_TAGS:\n                self.skip_depth = 1\n                self._skip_tag = tag\n            return\n\n        if tag == \"title\":", "            if tag not in _VOID_TAGS:\n                self.skip_depth = 1\n                self._skip_tag = tag\n                self.set_cdata_mode(tag)\n            return\n\n        if tag == \"title\":", "C17-TOK"),
    M("epub-br-before-skip-test", EP, "        tag = tag.lower()\n\n        if self.skip_depth > 0:\n            if tag == self._skip_tag:\n                self.skip_depth += 1\n            return\n", "        tag = tag.lower()\n\n        if tag == \"br\":\n            self.text_parts.append(\"\\n\")\n\n        if self.skip_depth > 0:\n            if tag == self._skip_tag:\n                self.skip_depth += 1\n            return\n", "C17-GUARD"),
    M("html-last-closed-reset-before-skip-test", H, "        node = {\"tag\": tag, \"attrs\": attrs_dict, \"children\": [], \"text\": \"\", \"tail\": \"\"}\n\n        if self.skip_depth > 0:", "        node = {\"tag\": tag, \"attrs\": attrs_dict, \"children\": [], \"text\": \"\", \"tail\": \"\"}\n        self.last_closed = None\n\n        if self.skip_depth > 0:", "C17-GUARD"),
]

TWINS = [
    T("epub-guard-after-local-only", EP, "    def handle_data(self, data: str):\n        if self.skip_depth > 0:\n            return\n", "    def handle_data(self, data: str):\n        chunk = data\n        if self.skip_depth > 0:\n            return\n"),
    T("html-sniff-window-4k", "sharepoint2text/parsing/extractors/html_extractor.py", "            head = _RE_COMMENT_BYTES.sub(b\"\", content[:8192])\n", "            window = content[:4096]\n            head = _RE_COMMENT_BYTES.sub(b\"\", window)\n"),
    T("msg-html-hint-as-class", MS, "script)(\\s|/|>)\",", "script)[\\s/>]\","),
    T("html-skip-test-reordered", H, "        if self.skip_depth > 0:\n            if tag == self._skip_tag:\n                self.skip_depth += 1\n            return\n\n        if tag in REMOVE_TAGS:", "        if self.skip_depth > 0:\n            if self._skip_tag == tag:\n                self.skip_depth = self.skip_depth + 1\n            return\n\n        if tag in REMOVE_TAGS:"),
    T("html-comment-handler-documented", H, "    def handle_comment(self, data: str):\n        # Ignore comments\n        pass", "    def handle_comment(self, data: str):\n        \"\"\"Comments never reach the tree.\"\"\"\n        return None"),
    T("flush-guard-nested", HT, "            if rest and \"<\" not in rest:\n                parser.handle_data(unescape(rest))\n", "            if rest:\n                if \"<\" not in rest:\n                    parser.handle_data(unescape(rest))\n"),
    T("remove-branch-reordered", HT, "                self.skip_depth = 1\n                self._skip_tag = tag\n", "                self._skip_tag = tag\n                self.skip_depth = 1\n"),
]

# --- seeded changes kept under /verif/seeded (sub-agents saw only the property text); each must be reported by the named rule
import os as _os
from sa.selftest.harness import P as _P
_SEEDS = _os.path.join(_os.path.dirname(_os.path.dirname(_os.path.dirname(_os.path.abspath(__file__)))), "seeded")
SEEDED = [
    ("C17-1", "C17-N4"),
    ("C17-3", "C17-N5"),
    ("C17-4", "C17-SKIP"),
    ("C17-5", "C17-SKIP"),
    ("C17-6", "C17-EOF"),
    ("C17-7", "C17-N4"),
    ("C17-8", "C17-FRESH"),
    ("C17-9", "C17-TREE"),
    ("C17-10", "C17-N5"),
    ("C17-11", "C17-N4"),
    ("C17-12", "C17-N5"),
    ("C17-13", "C17-N5"),
    ("C17-14", "C17-TOK"),
    ("C17-15", "C17-GUARD"),
]
MUTANTS = list(MUTANTS) + [_P("seed-" + sid, _os.path.join(_SEEDS, sid, "patch.diff"), rule) for sid, rule in SEEDED if _os.path.exists(_os.path.join(_SEEDS, sid, "patch.diff"))]
