from sa.selftest.harness import M, T

A = "sharepoint2text/parsing/extractors/archive_extractor.py"
S = "sharepoint2text/parsing/extractors/util/sevenzip.py"
MUTANTS = [
    M("wrong-bytes-for-name", A, "                    file_data = zf.read(info)\n", "                    file_data = zf.read(files_to_process[0][0])\n", "C10-LABEL"),
    M("path-label-dropped", A, '        full_path = f"{archive_path}!/{filename}" if archive_path else filename', "        full_path = archive_path if archive_path else filename", "C10-LABEL"),
    M("extractor-by-archive-name", A, "        extractor = _get_file_extractor_cached(basename)", "        extractor = _get_file_extractor_cached(archive_path or basename)", "C10-LABEL"),
    M("members-sorted", A, "            for member in tf.getmembers():", "            for member in sorted(tf.getmembers(), key=lambda m: m.name):", "C10-ORDER"),
    M("worklist-reversed", A, "            # Process files in batch for better performance\n", "            files_to_process.reverse()\n", "C10-ORDER"),
    M("zip-catch-all-removed", A, "                except Exception as e:\n                    # A corrupt member must not break the rest of the archive\n                    logger.warning(\"Failed to extract %s from ZIP: %s\", filename, e)\n                    logger.debug(\n                        \"ZIP extraction error details for %s: %s\",\n                        filename,\n                        str(e),\n                        exc_info=True,\n                    )\n                    continue\n", "", "C10-SIB"),
    M("tar-catch-all-reraises", A, "                    logger.warning(\"Failed to extract %s from TAR: %s\", filename, e)\n", "                    logger.warning(\"Failed to extract %s from TAR: %s\", filename, e)\n                    raise\n", "C10-SIB"),
    M("folder-position-loop-invariant", S, "                pack_pos = first_pack_pos + sum(self._pack_sizes[:folder_idx])\n                pack_sizes = [self._pack_sizes[folder_idx]]\n            else:\n                pack_pos = first_pack_pos\n                pack_sizes = self._pack_sizes\n", "                pass\n            pack_pos = first_pack_pos\n            pack_sizes = self._pack_sizes\n", "C10-FOLDER"),
    M("detector-type-unhandled", A, '    (b"\\x1f\\x8b", "tar.gz", 2),  # gzip', '    (b"\\x1f\\x8b", "gzip", 2),  # gzip', "C10-DISPATCH"),
    M("signature-length", A, '    (b"7z\\xbc\\xaf\\x27\\x1c", "7z", 6),  # 7z format', '    (b"7z\\xbc\\xaf\\x27\\x1c", "7z", 5),  # 7z format', "C10-DISPATCH"),
    M("skip-dotted-dirs", A, 'if basename.startswith(".") or filename.startswith("__MACOSX/"):', 'if basename.startswith(".") or filename.startswith("__MACOSX/") or "/." in filename:', "C10-EXACT"),
    M("size-test-ge", A, "if member.size > _config.max_memory_size:", "if member.size >= _config.max_memory_size:", "C10-EXACT"),
    M("lzma2-dict-size", S, "dict_size = (2 | (prop_byte & 1)) << (prop_byte // 2 + 11)", "dict_size = 1 << (prop_byte // 2 + 12)", "C10-CODEC"),
    M("coders-forward-order", S, "for coder_id, properties in reversed(folder.coders):", "for coder_id, properties in folder.coders:", "C10-CODEC"),
    M("empty-member-dropped", A, "        # Check file size before processing\n", "        if not file_data:\n            return\n        # Check file size before processing\n", "C10-STEP"),
    M("extract-only-when-extension", A, "        for content in extractor(file_bytes, path=full_path):\n            # A member name is not a path of the host: label the result from\n            # the name itself, whatever the working directory contains\n            if extractor is not read_archive:\n                content.get_metadata().populate_from_path(full_path, resolve=False)\n            yield content\n", "        if \".\" in basename:\n            for content in extractor(file_bytes, path=full_path):\n                if extractor is not read_archive:\n                    content.get_metadata().populate_from_path(full_path, resolve=False)\n                yield content\n", "C10-STEP"),
    M("uint32-big-endian", S, 'struct.unpack("<I"', 'struct.unpack(">I"', "C10-ENDIAN"),
    M("empty-stream-consumes-size", S, "            if is_dir or empty_streams[i]:\n", "            if is_dir:\n", "C10-FOLDER"),
    M("kemptyfile-skipped-again", S, "                marks = iter(self._read_boolean_vector(sum(empty_streams)))\n                empty_files = [\n                    is_empty and next(marks, False) for is_empty in empty_streams\n                ]\n", "                pass\n", "C10-KIND"),
    M("kemptyfile-polarity", S, "            is_dir = (empty_streams[i] and not empty_files[i]) or (", "            is_dir = (empty_streams[i] and empty_files[i]) or (", "C10-KIND"),
    M("empty-files-not-created", S, "        for file_idx in self._empty_file_indexes:\n", "        for file_idx in []:\n", "C10-KIND"),
    M("empty-file-takes-folder-slot", S, "                file_info.is_directory\n                or empty_streams[i]\n                or folder_idx >= len(self._folders)\n", "                file_info.is_directory\n                or folder_idx >= len(self._folders)\n", "C10-FOLDER"),
    __import__("sa.selftest.harness", fromlist=["Variant"]).Variant("7z-members-cut-outside-folder-handler", [(S, "                # A stream that ends early decodes without error: the members\n                # that no longer fit are detected here\n                self._extract_files_from_folder(path, folder_idx, decompressed)\n            except Bad7zFile as e:", "            except Bad7zFile as e:"), (S, "                continue\n\n            extracted_folders += 1\n", "                continue\n\n            self._extract_files_from_folder(path, folder_idx, decompressed)\n            extracted_folders += 1\n")], "C10-SIB"),
    M("member-label-resolved-on-host", A, "            if extractor is not read_archive:\n                content.get_metadata().populate_from_path(full_path, resolve=False)\n", "", "C10-LABEL"),
    M("member-dropped-when-unlabelled", A, "            if extractor is not read_archive:\n                content.get_metadata().populate_from_path(full_path, resolve=False)\n            yield content\n", "            if extractor is not read_archive:\n                content.get_metadata().populate_from_path(full_path, resolve=False)\n                yield content\n", "C10-LABEL"),
]
TWINS = [
    T("dict-size-equivalent-form", S, "dict_size = (2 | (prop_byte & 1)) << (prop_byte // 2 + 11)", "dict_size = (2 + (prop_byte & 1)) * (1 << (prop_byte // 2 + 11))"),
    T("basename-inline", A, "                filename = member.name\n                basename = os.path.basename(filename)\n", "                filename = member.name\n                basename = os.path.basename(filename)\n                logger.debug(\"member %s\", filename)\n"),
    T("uint8-without-prefix", S, 'struct.unpack("<B"', 'struct.unpack("B"'),
    T("is-dir-split", S, "            is_dir = (empty_streams[i] and not empty_files[i]) or (\n                attributes[i] & 0x10\n            ) != 0\n", "            has_dir_attr = (attributes[i] & 0x10) != 0\n            no_data_dir = empty_streams[i] and not empty_files[i]\n            is_dir = no_data_dir or has_dir_attr\n"),
]

# --- seeded changes kept under /verif/seeded (sub-agents saw only the property text); each must be reported by the named rule
import os as _os
from sa.selftest.harness import P as _P
_SEEDS = _os.path.join(_os.path.dirname(_os.path.dirname(_os.path.dirname(_os.path.abspath(__file__)))), "seeded")
SEEDED = [
    ("C10-1", "C10-EXACT"),
    ("C10-2", "C10-CODEC"),
    ("C10-5", "C10-EXACT"),
    ("C10-4", "C10-FOLDER"),
    ("C10-6", "C10-ENDIAN"),
    ("C10-7", "C10-STEP"),
    ("C10-8", "C10-DISPATCH"),
    ("C10-9", "C10-CODEC"),
    ("C10-10", "C10-LABEL"),
    ("C10-11", "C10-ENDIAN"),
    ("C10-12", "C10-FOLDER"),
    ("C10-13", "C10-SIB"),
    ("C10-14", "C10-LABEL"),
    ("C10-15", "C10-TABLES"),
]
MUTANTS = list(MUTANTS) + [_P("seed-" + sid, _os.path.join(_SEEDS, sid, "patch.diff"), rule) for sid, rule in SEEDED if _os.path.exists(_os.path.join(_SEEDS, sid, "patch.diff"))]
