from sa.selftest.harness import M, T

F = "sharepoint2text/parsing/extractors/pdf/_pypdf_aes_fallback.py"
MUTANTS = [
    M("sbox-entry", F, "    0x63,\n    0x7C,\n    0x77,", "    0x63,\n    0x7C,\n    0x76,", "C20-SBOX"),
    M("mix-coefficient", F, "state[i + 1] = a0 ^ _MUL2[a1] ^ _MUL3[a2] ^ a3", "state[i + 1] = a0 ^ _MUL3[a1] ^ _MUL2[a2] ^ a3", "C20-MIX"),
    M("mul-table-binding", F, "_MUL9 = _build_mul_table(9)", "_MUL9 = _build_mul_table(13)", "C20-MIX"),
    M("shift-rows-direction", F, "row_bytes = row_bytes[row:] + row_bytes[:row]", "row_bytes = row_bytes[-row:] + row_bytes[:-row]", "C20-MIX"),
    M("round-loop-bound", F, "    for r in range(1, nr):\n        _sub_bytes(state)", "    for r in range(1, nr + 1):\n        _sub_bytes(state)", "C20-ROUND"),
    M("round-order", F, "        _mix_columns(state)\n        _add_round_key(state, round_keys[r])", "        _add_round_key(state, round_keys[r])\n        _mix_columns(state)", "C20-ROUND"),
    M("key-guard-192", F, "elif nk > 6 and i % nk == 4:", "elif nk >= 6 and i % nk == 4:", "C20-KEY"),
    M("xtime-poly", F, "((a << 1) ^ 0x1B) & 0xFF", "((a << 1) ^ 0x1D) & 0xFF", "C20-KEY"),
    M("rcon-start", F, "    rcon[1] = 0x01\n    for i in range(2, max_rounds + 1):", "    rcon[1] = 0x02\n    for i in range(2, max_rounds + 1):", "C20-KEY"),
    M("nr", F, "nr = nk + 6", "nr = nk + 5", "C20-KEY"),
    M("cbc-iv-guard-dropped", F, "def aes_cbc_decrypt(key: bytes, iv: bytes, data: bytes) -> bytes:\n    if len(iv) != 16:\n        raise ValueError(\"AES CBC requires 16-byte IV\")\n", "def aes_cbc_decrypt(key: bytes, iv: bytes, data: bytes) -> bytes:\n", "C20-LEN"),
    M("early-return-before-key", F, "        raise ValueError(\"AES ECB requires data length multiple of 16\")\n    round_keys = _get_round_keys(key)\n    data_view = memoryview(data)\n    out = bytearray(len(data_view))\n    offset = 0\n    for block in _chunks(data_view, 16):\n        out[offset : offset + 16] = _aes_encrypt_block", "        raise ValueError(\"AES ECB requires data length multiple of 16\")\n    if not data:\n        return b\"\"\n    round_keys = _get_round_keys(key)\n    data_view = memoryview(data)\n    out = bytearray(len(data_view))\n    offset = 0\n    for block in _chunks(data_view, 16):\n        out[offset : offset + 16] = _aes_encrypt_block", "C20-LEN"),
    M("iv-default-arg", F, "    def _cryptaes_encrypt(self: object, data: bytes) -> bytes:\n        iv = secrets.token_bytes(16)\n", "    def _cryptaes_encrypt(self: object, data: bytes, iv: bytes = secrets.token_bytes(16)) -> bytes:\n", "C20-WRAP"),
    M("unpad-full-block-rejected", F, "if padding < 1 or padding > block_size:", "if padding < 1 or padding >= block_size:", "C20-WRAP"),
    M("unpad-strips-run", F, "    if data[-padding:] != bytes([padding]) * padding:\n        raise ValueError(\"Invalid PKCS#7 padding\")\n    return data[:-padding]", "    stripped = data.rstrip(data[-1:])\n    if len(data) - len(stripped) < padding:\n        raise ValueError(\"Invalid PKCS#7 padding\")\n    return stripped", "C20-WRAP"),
    M("patch-missing-binding", F, "    enc.aes_ecb_decrypt = aes_ecb_decrypt\n", "", "C20-PATCH"),
    M("patch-cross-binding", F, "    providers.aes_cbc_decrypt = aes_cbc_decrypt\n", "    providers.aes_cbc_decrypt = aes_ecb_decrypt\n", "C20-PATCH"),
    M("shift-rows-gather-rebinds-parameter", F, "def _shift_rows(state: list[int]) -> None:\n    for row in range(1, 4):\n        row_bytes = [state[row + 4 * col] for col in range(4)]\n        row_bytes = row_bytes[row:] + row_bytes[:row]\n        for col in range(4):\n            state[row + 4 * col] = row_bytes[col]\n", "_SR_SOURCE = tuple((i + 4 * (i % 4)) % 16 for i in range(16))\n\n\ndef _shift_rows(state: list[int]) -> None:\n    state = [state[source] for source in _SR_SOURCE]\n", "C20-MIX"),
    M("shift-rows-gather-inverse-table", F, "def _shift_rows(state: list[int]) -> None:\n    for row in range(1, 4):\n        row_bytes = [state[row + 4 * col] for col in range(4)]\n        row_bytes = row_bytes[row:] + row_bytes[:row]\n        for col in range(4):\n            state[row + 4 * col] = row_bytes[col]\n", "_SR_SOURCE = tuple((i - 4 * (i % 4)) % 16 for i in range(16))\n\n\ndef _shift_rows(state: list[int]) -> None:\n    state[:] = [state[source] for source in _SR_SOURCE]\n", "C20-MIX"),
    M("cached-schedule-reversed-in-place", F, "    round_keys = _get_round_keys(key)\n    data_view = memoryview(data)\n    out = bytearray(len(data_view))\n    offset = 0\n    for block in _chunks(data_view, 16):\n        out[offset : offset + 16] = _aes_decrypt_block(block, round_keys)", "    round_keys = _get_round_keys(key)\n    round_keys.reverse()\n    data_view = memoryview(data)\n    out = bytearray(len(data_view))\n    offset = 0\n    for block in _chunks(data_view, 16):\n        out[offset : offset + 16] = _aes_decrypt_block(block, round_keys)", "C20-KEY"),
]
TWINS = [
    T("schedule-copied-before-reversing", F, "    round_keys = _get_round_keys(key)\n    data_view = memoryview(data)\n    out = bytearray(len(data_view))\n    offset = 0\n    for block in _chunks(data_view, 16):\n        out[offset : offset + 16] = _aes_decrypt_block(block, round_keys)", "    round_keys = _get_round_keys(key)\n    schedule_copy = list(round_keys)\n    schedule_copy.reverse()\n    schedule_copy.reverse()\n    data_view = memoryview(data)\n    out = bytearray(len(data_view))\n    offset = 0\n    for block in _chunks(data_view, 16):\n        out[offset : offset + 16] = _aes_decrypt_block(block, round_keys)"),
    T("shift-rows-as-one-gather", F, "def _shift_rows(state: list[int]) -> None:\n    for row in range(1, 4):\n        row_bytes = [state[row + 4 * col] for col in range(4)]\n        row_bytes = row_bytes[row:] + row_bytes[:row]\n        for col in range(4):\n            state[row + 4 * col] = row_bytes[col]\n", "_SR_SOURCE = tuple((i + 4 * (i % 4)) % 16 for i in range(16))\n\n\ndef _shift_rows(state: list[int]) -> None:\n    state[:] = [state[source] for source in _SR_SOURCE]\n"),
    T("mix-columns-in-place-xtime-form", "sharepoint2text/parsing/extractors/pdf/_pypdf_aes_fallback.py", "    for col in range(4):\n        i = 4 * col\n        a0, a1, a2, a3 = state[i : i + 4]\n        state[i + 0] = _MUL2[a0] ^ _MUL3[a1] ^ a2 ^ a3\n        state[i + 1] = a0 ^ _MUL2[a1] ^ _MUL3[a2] ^ a3\n        state[i + 2] = a0 ^ a1 ^ _MUL2[a2] ^ _MUL3[a3]\n        state[i + 3] = _MUL3[a0] ^ a1 ^ a2 ^ _MUL2[a3]\n", "    for i in (0, 4, 8, 12):\n        first = state[i]\n        t = state[i] ^ state[i + 1] ^ state[i + 2] ^ state[i + 3]\n        state[i] ^= t ^ _MUL2[state[i] ^ state[i + 1]]\n        state[i + 1] ^= t ^ _MUL2[state[i + 1] ^ state[i + 2]]\n        state[i + 2] ^= t ^ _MUL2[state[i + 2] ^ state[i + 3]]\n        state[i + 3] ^= t ^ _MUL2[state[i + 3] ^ first]\n"),
    T("unpad-lower-bound-zero-is-equivalent", F, "if padding < 1 or padding > block_size:", "if padding < 0 or padding > block_size:"),
    T("rename-local-in-xtime", F, "def _xtime(a: int) -> int:\n    a &= 0xFF\n    return ((a << 1) ^ 0x1B) & 0xFF if (a & 0x80) else (a << 1) & 0xFF", "def _xtime(value: int) -> int:\n    value &= 0xFF\n    return ((value << 1) ^ 0x1B) & 0xFF if (value & 0x80) else (value << 1) & 0xFF"),
    T("subbytes-shiftrows-swapped", F, "    for r in range(1, nr):\n        _sub_bytes(state)\n        _shift_rows(state)", "    for r in range(1, nr):\n        _shift_rows(state)\n        _sub_bytes(state)"),
    T("hex-vs-decimal-constant", F, "    rcon[1] = 0x01\n    for i in range(2, max_rounds + 1):", "    rcon[1] = 1\n    for i in range(2, max_rounds + 1):"),
    T("guard-order-swapped", F, "    if len(iv) != 16:\n        raise ValueError(\"AES CBC requires 16-byte IV\")\n    if len(data) % 16 != 0:\n        raise ValueError(\"AES CBC requires data length multiple of 16\")\n    round_keys = _get_round_keys(key)\n    data_view = memoryview(data)\n    out = bytearray(len(data_view))\n    prev = iv\n    offset = 0\n    for block in _chunks(data_view, 16):\n        xored", "    if len(data) % 16 != 0:\n        raise ValueError(\"AES CBC requires data length multiple of 16\")\n    if len(iv) != 16:\n        raise ValueError(\"AES CBC requires 16-byte IV\")\n    round_keys = _get_round_keys(key)\n    data_view = memoryview(data)\n    out = bytearray(len(data_view))\n    prev = iv\n    offset = 0\n    for block in _chunks(data_view, 16):\n        xored"),
]

# --- seeded changes kept under /verif/seeded (sub-agents saw only the property text); each must be reported by the named rule
import os as _os
from sa.selftest.harness import P as _P
_SEEDS = _os.path.join(_os.path.dirname(_os.path.dirname(_os.path.dirname(_os.path.abspath(__file__)))), "seeded")
SEEDED = [
    ("C20-1", "C20-KEY"),
    ("C20-2", "C20-WRAP"),
    ("C20-3", "C20-LEN"),
    ("C20-4", "C20-MODE"),
    ("C20-5", "C20-WRAP"),
    ("C20-7", "C20-WRAP"),
    ("C20-8", "C20-KEY"),
    ("C20-9", "C20-WRAP"),
    ("C20-10", "C20-LEN"),
    ("C20-11", "C20-WRAP"),
    ("C20-13", "C20-LEN"),
    ("C20-12", "C20-MIX"),
    ("C20-14", "C20-KEY"),
    ("C20-15", "C20-MIX"),
]
MUTANTS = list(MUTANTS) + [_P("seed-" + sid, _os.path.join(_SEEDS, sid, "patch.diff"), rule) for sid, rule in SEEDED if _os.path.exists(_os.path.join(_SEEDS, sid, "patch.diff"))]
