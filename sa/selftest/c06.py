from sa.selftest.harness import M, T

X = "sharepoint2text/parsing/extractors/"
D = X + "data_types.py"
MUTANTS = [
    M("docx-styles-list-of-set", X + "ms_modern/docx_extractor.py", "styles = sorted({para.style for para in paragraphs if para.style})", "styles = list({para.style for para in paragraphs if para.style})", "C06-ORDER"),
    M("odt-styles-list-of-set", X + "open_office/odt_extractor.py", "    return sorted(styles)\n", "    return list(styles)\n", "C06-ORDER"),
    M("namelist-iteration-into-list", X + "util/zip_context.py", "    def exists(self, path: str) -> bool:\n        return path in self._namelist", "    def names(self) -> list:\n        return [n for n in self._namelist]\n\n    def exists(self, path: str) -> bool:\n        return path in self._namelist", "C06-ORDER"),
    M("timestamp-in-metadata", X + "plain_extractor.py", "        yield PlainTextContent(content=text, metadata=metadata)", "        metadata.detected_encoding = str(time.time())\n        yield PlainTextContent(content=text, metadata=metadata)", "C06-NONDET"),
    M("id-in-result", X + "html_extractor.py", "        cache_key = (id(node), tag)\n        if cache_key in self._node_cache:", "        cache_key = (id(node), tag)\n        node[\"uid\"] = id(node)\n        if cache_key in self._node_cache:", "C06-NONDET"),
    M("observer-caches-on-self", D, "    def get_full_text(self) -> str:\n        return _join_unit_text(self.iterate_units())\n\n    def get_metadata(self) -> PdfMetadata:", "    def get_full_text(self) -> str:\n        self._cached = _join_unit_text(self.iterate_units())\n        return self._cached\n\n    def get_metadata(self) -> PdfMetadata:", "C06-PURE"),
    M("observer-mutates-image", D, "                    # Copies carry the unit number; the stored images stay untouched\n                    images=[replace(image, unit_name=1) for image in self.images],", "                    images=[setattr(image, \"unit_name\", 1) or image for image in self.images],", "C06-PURE"),
    M("observer-aliases-field", D, "        \"\"\"All text from this slide combined.\"\"\"\n        parts = []\n        if self.title:\n            parts.append(self.title)\n        parts.extend(self.body_text)\n        parts.extend(self.other_text)\n        return \"\\n\".join(parts)\n\n\n@dataclass\nclass OdpContent", "        \"\"\"All text from this slide combined.\"\"\"\n        parts = self.body_text\n        parts.extend(self.other_text)\n        return \"\\n\".join(parts)\n\n\n@dataclass\nclass OdpContent", "C06-PURE"),
    M("observer-sorts-field-in-place", D, "    def iterate_images(self) -> typing.Generator[ImageInterface, None, None]:\n        for page in self.pages:", "    def iterate_images(self) -> typing.Generator[ImageInterface, None, None]:\n        self.pages.sort(key=lambda p: len(p.text))\n        for page in self.pages:", "C06-PURE"),
    M("stream-truncated", X + "plain_extractor.py", "        content = file_like.read()\n", "        content = file_like.read()\n        file_like.truncate(0)\n", "C06-INPUT"),
    M("stream-closed-in-helper", X + "util/encryption.py", "def is_ooxml_encrypted(file_like: io.BytesIO) -> bool:\n    file_like.seek(0)", "def is_ooxml_encrypted(file_like: io.BytesIO) -> bool:\n    file_like.flush()\n    file_like.seek(0)", "C06-INPUT"),
    M("stream-opened-for-append", X + "archive_extractor.py", '        with zipfile.ZipFile(file_like, "r") as zf:\n            # Single pass', '        with zipfile.ZipFile(file_like, "a") as zf:\n            # Single pass', "C06-INPUT"),
    M("encoder-no-rewind", X + "serialization.py", "    position = buffer.tell()\n    buffer.seek(0)\n", "    position = buffer.tell()\n", "C06-STREAM"),
    M("get-bytes-returns-stored-stream", D, "    def get_bytes(self) -> io.BytesIO:\n        if self.data is None:\n            return io.BytesIO()\n        # A fresh stream per call: closing or writing to the returned stream\n        # must not change what the result holds\n        return io.BytesIO(self.data.getvalue())\n", "    def get_bytes(self) -> io.BytesIO:\n        if self.data is None:\n            return io.BytesIO()\n        self.data.seek(0)\n        return self.data\n", "C06-PURE"),
    M("odf-content-type-from-host-db", X + "open_office/_shared.py", "        or _MIME_TYPES.guess_type(path)[0]\n", "        or mimetypes.guess_type(path)[0]\n", "C06-HOST"),
    M("epub-mimetypes-with-host-files", X + "epub_extractor.py", "_MIME_TYPES = mimetypes.MimeTypes()\n", "_MIME_TYPES = mimetypes.MimeTypes(mimetypes.knownfiles)\n", "C06-HOST"),
]
TWINS = [
    T("get-bytes-copy-via-read", D, "    def get_bytes(self) -> io.BytesIO:\n        if self.data is None:\n            return io.BytesIO()\n        # A fresh stream per call: closing or writing to the returned stream\n        # must not change what the result holds\n        return io.BytesIO(self.data.getvalue())\n", "    def get_bytes(self) -> io.BytesIO:\n        if self.data is None:\n            return io.BytesIO()\n        copy = io.BytesIO(self.data.getvalue())\n        return copy\n"),
    T("sorted-via-variable", X + "open_office/odt_extractor.py", "    return sorted(styles)\n", "    ordered = sorted(styles)\n    return ordered\n"),
    T("observer-builds-fresh-list", D, "        \"\"\"All text from this slide combined.\"\"\"\n        parts = []\n        if self.title:\n            parts.append(self.title)\n        parts.extend(self.body_text)\n        parts.extend(self.other_text)\n        return \"\\n\".join(parts)\n\n\n@dataclass\nclass OdpContent", "        \"\"\"All text from this slide combined.\"\"\"\n        parts = list(self.body_text)\n        if self.title:\n            parts.insert(0, self.title)\n        parts.extend(self.other_text)\n        return \"\\n\".join(parts)\n\n\n@dataclass\nclass OdpContent"),
]

# --- seeded changes kept under /verif/seeded (sub-agents saw only the property text); each must be reported by the named rule
import os as _os
from sa.selftest.harness import P as _P
_SEEDS = _os.path.join(_os.path.dirname(_os.path.dirname(_os.path.dirname(_os.path.abspath(__file__)))), "seeded")
SEEDED = [
    ("C06-1", "C06-ORDER"),
    ("C06-2", "C06-STREAM"),
    ("C06-3", "C06-INPUT"),
    ("C06-4", "C06-ORDER"),
    ("C06-5", "C06-PURE"),
    ("C06-6", "C06-ORDER"),
    ("C06-7", "C06-DEFAULT"),
    ("C06-8", "C06-NONDET"),
    ("C06-9", "C06-PURE"),
    ("C06-10", "C06-ORDER"),
    ("C06-11", "C06-PURE"),
    ("C06-13", "C06-PURE"),
    ("C06-14", "C06-ORDER"),
    ("C06-15", "C06-PURE"),
]
MUTANTS = list(MUTANTS) + [_P("seed-" + sid, _os.path.join(_SEEDS, sid, "patch.diff"), rule) for sid, rule in SEEDED if _os.path.exists(_os.path.join(_SEEDS, sid, "patch.diff"))]
