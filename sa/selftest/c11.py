from sa.selftest.harness import M, T

Z = "sharepoint2text/parsing/extractors/util/zip_bomb.py"
E = "sharepoint2text/parsing/extractors/util/encryption.py"
ZC = "sharepoint2text/parsing/extractors/util/zip_context.py"

MUTANTS = [
    M("entry-count-inclusive", Z, "    if len(infos) > limits.max_entries:", "    if len(infos) >= limits.max_entries:", "C11-PRED"),
    M("single-size-inclusive", Z, "        if file_size > limits.max_single_uncompressed_bytes:", "        if file_size >= limits.max_single_uncompressed_bytes:", "C11-PRED"),
    M("entry-ratio-clause-dropped", Z, "            ratio = file_size / compressed_size\n            if ratio > limits.max_entry_compression_ratio:\n                raise ExtractionZipBombError(\n                    f\"ZIP entry compression ratio too high ({ratio:.1f} > {limits.max_entry_compression_ratio})\"\n                    + (f\" [{source}]\" if source else \"\")\n                )\n", "", "C11-PRED"),
    M("zero-compressed-size-accepted", Z, "        if file_size > 0:\n            if compressed_size <= 0:\n                raise ExtractionZipBombError(\n                    \"ZIP entry has zero compressed size but non-zero uncompressed size\"\n                    + (f\" [{source}]\" if source else \"\")\n                )\n            ratio", "        if file_size > 0 and compressed_size > 0:\n            ratio", "C11-PRED"),
    M("total-size-against-single-limit", Z, "        if total_uncompressed > limits.max_total_uncompressed_bytes:", "        if total_uncompressed > limits.max_single_uncompressed_bytes:", "C11-PRED"),
    M("directories-counted", Z, "        if _is_directory(info):\n            continue\n", "", "C11-PRED"),
    M("probe-opens-zip-directly", E, "    with open_zipfile(file_like, source=\"is_odf_encrypted\") as zf:", "    with zipfile.ZipFile(file_like, \"r\") as zf:", "C11-OWN"),
    M("handle-returned-before-validation", Z, "    zf = zipfile.ZipFile(file_like, \"r\")\n    try:\n        validate_zipfile(zf, limits=limits, source=source)\n    except Exception:\n        zf.close()\n        raise\n    return zf", "    zf = zipfile.ZipFile(file_like, \"r\")\n    return zf", "C11-ORDER"),
    M("validation-failure-swallowed", Z, "    except Exception:\n        zf.close()\n        raise\n    return zf", "    except Exception:\n        zf.close()\n    return zf", "C11-ORDER"),
    M("position-not-restored", Z, "    finally:\n        file_like.seek(original_pos)", "    finally:\n        pass", "C11-POS"),
    M("position-restored-only-on-success", Z, "    try:\n        file_like.seek(0)\n        with zipfile.ZipFile(file_like, \"r\") as zf:\n            validate_zipfile(zf, limits=limits, source=source)\n    finally:\n        file_like.seek(original_pos)", "    file_like.seek(0)\n    with zipfile.ZipFile(file_like, \"r\") as zf:\n        validate_zipfile(zf, limits=limits, source=source)\n    file_like.seek(original_pos)", "C11-POS"),
]

TWINS = [
    T("entry-count-flipped-operands", Z, "    if len(infos) > limits.max_entries:", "    if limits.max_entries < len(infos):"),
    T("validation-error-named", Z, "    except Exception:\n        zf.close()\n        raise\n    return zf", "    except Exception as exc:\n        zf.close()\n        raise exc\n    return zf"),
]

# --- seeded changes kept under /verif/seeded (sub-agents saw only the property text); each must be reported by the named rule
import os as _os
from sa.selftest.harness import P as _P
_SEEDS = _os.path.join(_os.path.dirname(_os.path.dirname(_os.path.dirname(_os.path.abspath(__file__)))), "seeded")
SEEDED = [
    ("C11-1", "C11-PRED"),
    ("C11-2", "C11-POS"),
    ("C11-3", "C11-OWN"),
    ("C11-4", "C11-PRED"),
    ("C11-5", "C11-OWN"),
    ("C11-6", "C11-DIR"),
    ("C11-7", "C11-PROP"),
    ("C11-8", "C11-PRED"),
    ("C11-9", "C11-ORDER"),
    ("C11-10", "C11-PRED"),
    ("C11-11", "C11-OWN"),
    ("C11-12", "C11-OWN"),
    ("C11-13", "C11-ORDER"),
    ("C11-14", "C11-PRED"),
    ("C11-15", "C11-OWN"),
]
MUTANTS = list(MUTANTS) + [_P("seed-" + sid, _os.path.join(_SEEDS, sid, "patch.diff"), rule) for sid, rule in SEEDED if _os.path.exists(_os.path.join(_SEEDS, sid, "patch.diff"))]
