from sa.selftest.harness import M, T

X = "sharepoint2text/parsing/extractors/"
P = X + "pdf/pdf_extractor.py"
MUTANTS = [
    M("new-module-level-cache", X + "html_extractor.py", "# Precompiled regexes (hot paths).", "_TITLE_CACHE: dict = {}\n\n\ndef _remember_title(key, value):\n    _TITLE_CACHE[key] = value\n\n\n# Precompiled regexes (hot paths).", "C15-GLOBAL"),
    M("global-counter", X + "plain_extractor.py", "logger = logging.getLogger(__name__)\n", "logger = logging.getLogger(__name__)\n_CALLS = 0\n\n\ndef _count():\n    global _CALLS\n    _CALLS += 1\n", "C15-GLOBAL"),
    M("patch-without-lock", P, "    with _PYPDF_PATCH_LOCK:\n        # Store originals and apply patches", "    if True:\n        # Store originals and apply patches", "C15-PATCH"),
    M("patch-restore-not-in-finally", P, "            yield\n        finally:\n            # Restore all originals\n            for module, func_name, original in originals:\n                setattr(module, func_name, original)", "            yield\n            for module, func_name, original in originals:\n                setattr(module, func_name, original)\n        finally:\n            pass", "C15-PATCH"),
    M("font-cache-key-narrowed", P, "    cache_key = (font_data, tuple(glyph_ids))", "    cache_key = font_data", "C15-KEY"),
    __import__("sa.selftest.harness", fromlist=["Variant"]).Variant("shared-empty-metadata", [(X + "open_office/_shared.py", "    metadata = OpenDocumentMetadata()\n    if meta_root is None:\n        return metadata", "    if meta_root is None:\n        return _EMPTY\n    metadata = OpenDocumentMetadata()"), (X + "open_office/_shared.py", "def extract_odf_metadata(", "_EMPTY = OpenDocumentMetadata()\n\n\ndef extract_odf_metadata(")], "C15-SHARED"),
    M("ctx-close-not-in-finally", X + "open_office/odg_extractor.py", "            images = _extract_images(ctx, drawing)\n        finally:\n            ctx.close()", "            images = _extract_images(ctx, drawing)\n            ctx.close()\n        finally:\n            pass", "C15-RES"),
    M("workbook-never-closed", X + "ms_modern/xlsx_extractor.py", "        finally:\n            wb.close()\n\n        # Dates absent", "        finally:\n            pass\n\n        # Dates absent", "C15-RES"),
    M("ole-not-with", X + "util/encryption.py", "        with olefile.OleFileIO(file_like) as ole:\n            encrypted = _has_ole_encryption_stream(ole)", "        ole = olefile.OleFileIO(file_like)\n        encrypted = _has_ole_encryption_stream(ole)", "C15-RES"),
    M("mkdtemp", X + "archive_extractor.py", "            with tempfile.TemporaryDirectory() as temp_dir:\n                try:\n                    szf.extractall(path=temp_dir)", "            temp_dir = tempfile.mkdtemp()\n            if True:\n                try:\n                    szf.extractall(path=temp_dir)", "C15-RES"),
]
TWINS = [
    T("lock-renamed", P, "_PYPDF_PATCH_LOCK = threading.RLock()", "_PYPDF_PATCH_LOCK = threading.Lock()"),
    T("cache-key-built-inline", P, "    cache_key = (font_data, tuple(glyph_ids))", "    cache_key = (font_data, tuple(sorted(glyph_ids)))"),
]

# --- seeded changes kept under /verif/seeded (sub-agents saw only the property text); each must be reported by the named rule
import os as _os
from sa.selftest.harness import P as _P
_SEEDS = _os.path.join(_os.path.dirname(_os.path.dirname(_os.path.dirname(_os.path.abspath(__file__)))), "seeded")
SEEDED = [
    ("C15-1", "C15-PATCH"),
    ("C15-2", "C15-RES"),
    ("C15-3", "C15-SHARED"),
    ("C15-4", "C15-PATCH"),
    ("C15-5", "C15-RES"),
    ("C15-6", "C15-HOLD"),
    ("C15-7", "C15-SETTERS"),
    ("C15-8", "C15-GLOBAL"),
    ("C15-9", "C15-KEY"),
    ("C15-10", "C15-SETTERS"),
    ("C15-11", "C15-SETTERS"),
    ("C15-12", "C15-GLOBAL"),
    ("C15-13", "C15-GLOBAL"),
    ("C15-14", "C15-GLOBAL"),
    ("C15-15", "C15-SHARED"),
]
MUTANTS = list(MUTANTS) + [_P("seed-" + sid, _os.path.join(_SEEDS, sid, "patch.diff"), rule) for sid, rule in SEEDED if _os.path.exists(_os.path.join(_SEEDS, sid, "patch.diff"))]
