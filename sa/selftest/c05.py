from sa.selftest.harness import M, T, Variant

X = "sharepoint2text/parsing/extractors/"
S = X + "serialization.py"
D = X + "data_types.py"
XLSF = "sharepoint2text/parsing/extractors/ms_legacy/xls_extractor.py"
MUTANTS = [
    M("set-typed-field", D, "    styles: List[RtfStyle] = field(default_factory=list)", "    styles: set[str] = field(default_factory=set)", "C05-GRAMMAR"),
    M("datetime-field", D, "class EmailMetadata(FileMetadataInterface):\n", "class EmailMetadata(FileMetadataInterface):\n    received_at: Optional[datetime.datetime] = None\n", "C05-GRAMMAR"),
    M("timedelta-passthrough", X + "ms_modern/xlsx_extractor.py", "    if isinstance(cell_value, datetime.timedelta):\n        # Duration cells ([h]:mm:ss) have no JSON representation either\n        return str(cell_value)\n", "", "C05-ANY"),
    M("date-types-narrowed", X + "ms_modern/xlsx_extractor.py", "_DATETIME_TYPES = (datetime.datetime, datetime.date, datetime.time)", "_DATETIME_TYPES = (datetime.datetime, datetime.date)", "C05-ANY"),
    M("markers-before-mapping", S, "    if origin is dict and isinstance(value, dict):\n        args = typing.get_args(expected_type)\n        value_type = args[1] if len(args) > 1 else typing.Any\n        return {k: _deserialize_value(v, value_type) for k, v in value.items()}\n\n", "", "C05-KEYS"),
    M("marker-vocabulary-drift", S, '        return {"_bytes": _bytes_to_base64(value)}', '        return {"_b64": _bytes_to_base64(value)}', "C05-KEYS"),
    M("flag-not-passed-down-lists", S, "        return [\n            _serialize_for_json(item, include_binary=include_binary) for item in value\n        ]", "        return [_serialize_for_json(item, include_binary=True) for item in value]", "C05-BIN"),
    M("flag-nulls-strings-too", S, "    if is_dataclass(value) and not isinstance(value, type):", "    if isinstance(value, str) and not include_binary and len(value) > 10000:\n        return None\n    if is_dataclass(value) and not isinstance(value, type):", "C05-BIN"),
    M("to-json-custom", D, "        return EmailUnitMetadata(unit_number=1, body_type=self.body_type)\n\n    def to_json(self) -> dict:\n        return serialize_extraction(self)", "        return EmailUnitMetadata(unit_number=1, body_type=self.body_type)\n\n    def to_json(self) -> dict:\n        return {\"text\": self.text}", "C05-SIB"),
    M("cli-unit-to-json", "sharepoint2text/cli.py", "    return [\n        [\n            serialize_extraction(unit, include_binary=include_binary)\n            for unit in result.iterate_units()\n        ]\n        for result in results\n    ]", "    return [[unit.to_json() for unit in result.iterate_units()] for result in results]", "C05-SIB"),
    M("cli-single-result-wrapped", "sharepoint2text/cli.py", "    if len(results) == 1:\n        return serialize_extraction(results[0], include_binary=include_binary)", "    if len(results) == 0:\n        return serialize_extraction(results[0], include_binary=include_binary)", "C05-SIB"),
    M("bytesio-no-rewind", S, "    position = buffer.tell()\n    buffer.seek(0)\n", "    position = buffer.tell()\n", "C05-POS"),
]
TWINS = [
    Variant("xlsx-headers-through-str-helper", [("sharepoint2text/parsing/extractors/ms_modern/xlsx_extractor.py", "    headers = [\n        (\n            f\"Unnamed: {i}\"\n            if val is None or (isinstance(val, str) and not val.strip())\n            else str(val)\n        )\n        for i, val in enumerate(rows[0])\n    ]\n", "    headers = [_header_text(i, val) for i, val in enumerate(rows[0])]\n"), ("sharepoint2text/parsing/extractors/ms_modern/xlsx_extractor.py", "def _read_sheet_data(", "def _header_text(i: int, val: Any) -> str:\n    if val is None or (isinstance(val, str) and not val.strip()):\n        return f\"Unnamed: {i}\"\n    return str(val)\n\n\ndef _read_sheet_data(")], None),
    T("rename-local", S, "    position = buffer.tell()\n    buffer.seek(0)\n    encoded = base64.b64encode(buffer.read()).decode(\"utf-8\")\n    buffer.seek(position)\n    return encoded", "    pos = buffer.tell()\n    buffer.seek(0)\n    out = base64.b64encode(buffer.read()).decode(\"utf-8\")\n    buffer.seek(pos)\n    return out"),
    T("optional-spelling", D, "    styles: List[RtfStyle] = field(default_factory=list)", "    styles: list[RtfStyle] = field(default_factory=list)"),
    T("row-key-explicit-str", XLSF, "                header = (\n                    headers[col_idx] if col_idx < len(headers) else f\"col_{col_idx}\"\n                )\n", "                header = str(headers[col_idx]) if col_idx < len(headers) else f\"col_{col_idx}\"\n"),
]

# --- seeded changes kept under /verif/seeded (sub-agents saw only the property text); each must be reported by the named rule
import os as _os
from sa.selftest.harness import P as _P
_SEEDS = _os.path.join(_os.path.dirname(_os.path.dirname(_os.path.dirname(_os.path.abspath(__file__)))), "seeded")
SEEDED = [
    ("C05-1", "C05-POS"),
    ("C05-3", "C05-SIB"),
    ("C05-4", "C05-ANY"),
    ("C05-5", "C05-SIB"),
    ("C05-6", "C05-ORDER"),
    ("C05-7", "C05-SIB"),
    ("C05-8", "C05-GRAMMAR"),
    ("C05-9", "C05-KEYS"),
    ("C05-10", "C05-GRAMMAR"),
    ("C05-11", "C05-KEYS"),
    ("C05-12", "C05-ANY"),
    ("C05-13", "C05-BIN"),
    ("C05-14", "C05-POST"),
    ("C05-15", "C05-SIB"),
]
MUTANTS = list(MUTANTS) + [_P("seed-" + sid, _os.path.join(_SEEDS, sid, "patch.diff"), rule) for sid, rule in SEEDED if _os.path.exists(_os.path.join(_SEEDS, sid, "patch.diff"))]
