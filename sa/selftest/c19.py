from sa.selftest.harness import M, T, Variant

F = "sharepoint2text/parsing/extractors/util/omml_to_latex.py"
OM = "sharepoint2text/parsing/extractors/util/omml_to_latex.py"
MUTANTS = [
    M("nary-get-without-default", F, 'chr_elem.get(f"{M_NS}val", "\\u222b")', 'chr_elem.get(f"{M_NS}val")', "C19-NULL"),
    M("delimiter-none", F, 'beg_chr.get(f"{M_NS}val", "(")', 'beg_chr.get(f"{M_NS}val")', "C19-NULL"),
    M("text-none", F, 'text = elem.text or ""', "text = elem.text", "C19-NULL"),
    M("frac-operand-twice", F, 'return f"\\\\frac{{{num_text}}}{{{den_text}}}"', 'return f"\\\\frac{{{num_text}}}{{{num_text}}}"', "C19-LIN"),
    M("subsup-order", F, 'return f"{base_text}_{{{sub_text}}}^{{{sup_text}}}"', 'return f"{sup_text}_{{{sub_text}}}^{{{base_text}}}"', "C19-LIN"),
    M("matrix-descendant-rows", F, 'for mr in elem.findall(f"{M_NS}mr"):', 'for mr in elem.iter(f"{M_NS}mr"):', "C19-LIN"),
    M("delimiter-descendant-operands", F, 'e_elements = elem.findall(f"{M_NS}e")', 'e_elements = elem.findall(f".//{M_NS}e")', "C19-LIN"),
    M("func-drops-content", F, 'return f"{latex_fname}{{{content_text}}}"', 'return f"{latex_fname}"', "C19-LIN"),
    M("bar-unbalanced", F, 'return f"\\\\overline{{{content_text}}}"', 'return f"\\\\overline{{{content_text}"', "C19-BAL"),
    M("no-drain-at-end", F, '    parts.append("}" * len(pending_sqrt_close))\n', "", "C19-BAL"),
    M("pop-unguarded-index", F, "if pending_sqrt_close and pending_sqrt_close[-1] in converted:", "if pending_sqrt_close[-1] in converted:", "C19-TOTAL"),
    M("recursion-on-self", F, "            den_text = process_element(den)", "            den_text = process_element(elem)", "C19-REC"),
    M("consume-wrong-slice", F, "outside = converted[idx + 1 :]", "outside = converted[idx:]", "C19-LIN"),
    M("run-text-nfkc", OM, '            text = elem.text or ""\n', '            import unicodedata\n            text = unicodedata.normalize("NFKC", elem.text or "")\n', "C19-LIN"),
    M("delimiter-chars-from-subtree", F, 'elem.find(f"{M_NS}dPr/{M_NS}begChr")', 'elem.find(f".//{M_NS}begChr")', "C19-LIN"),
    M("accent-char-from-subtree", F, 'elem.find(f"{M_NS}accPr/{M_NS}chr")', 'elem.find(f".//{M_NS}chr")', "C19-LIN"),
    M("nary-char-by-iter", F, 'chr_elem = elem.find(f"{M_NS}naryPr/{M_NS}chr")', 'chr_elem = next(elem.iter(f"{M_NS}chr"), None)', "C19-LIN"),
    M("nary-default-sum", F, '                else "\\u222b"\n', '                else "\\u2211"\n', "C19-LIN"),
    M("delimiter-default-bracket", F, 'if end_chr is not None else ")"', 'if end_chr is not None else "]"', "C19-LIN"),
    M("docx-first-omath-only", "sharepoint2text/parsing/extractors/ms_modern/docx_extractor.py", "            for omath in elem.findall(M_OMATH):\n                latex = omml_to_latex(omath)\n                if latex.strip():\n                    parts.append(f\"$${latex}$$\")\n", "            omath = elem.find(M_OMATH)\n            if omath is not None:\n                latex = omml_to_latex(omath)\n                if latex.strip():\n                    parts.append(f\"$${latex}$$\")\n", "C19-LIN"),
    M("pptx-first-omath-only", "sharepoint2text/parsing/extractors/ms_modern/pptx_extractor.py", "        for omath in omath_para.findall(M_OMATH):\n            omath_in_para.add(id(omath))\n            latex = omml_to_latex(omath)\n            if latex.strip():\n                formulas.append((latex, True))\n", "        omath = omath_para.find(M_OMATH)\n        if omath is not None:\n            omath_in_para.add(id(omath))\n            latex = omml_to_latex(omath)\n            if latex.strip():\n                formulas.append((latex, True))\n", "C19-LIN"),
    Variant("template-helper-drops-command-for-empty-argument", [(F, "def omml_to_latex(omath_element: ET.Element | None) -> str:\n", "def _command(command: str, argument: str) -> str:\n    if not argument.strip():\n        return \"\"\n    return f\"{command}{{{argument}}}\"\n\ndef omml_to_latex(omath_element: ET.Element | None) -> str:\n"), (F, "            return f\"{latex_fname}{{{content_text}}}\"\n", "            return _command(latex_fname, content_text)\n")], "C19-LIN"),
    Variant("template-helper-unbalanced", [(F, "def omml_to_latex(omath_element: ET.Element | None) -> str:\n", "def _command(command: str, argument: str) -> str:\n    return f\"{command}{{{argument}\"\n\ndef omml_to_latex(omath_element: ET.Element | None) -> str:\n"), (F, "            return f\"\\\\overline{{{content_text}}}\"\n", "            return _command(\"\\\\overline\", content_text)\n")], "C19-BAL"),
    M("skip-list-names-argument-element", F, '        "rPr",\n        "fPr",', '        "rPr",\n        "fName",\n        "fPr",', "C19-LIN"),
    M("only-math-namespace-converted", F, '        tag = elem.tag.split("}")[-1]\n', '        if not elem.tag.startswith(M_NS):\n            return ""\n        tag = elem.tag.split("}")[-1]\n', "C19-LIN"),
]
TWINS = [
    T("non-element-nodes-skipped", F, '        tag = elem.tag.split("}")[-1]\n', '        if not isinstance(elem.tag, str):\n            return ""\n        tag = elem.tag.split("}")[-1]\n'),
    T("skip-list-one-more-property", F, '        "rPr",\n        "fPr",', '        "rPr",\n        "naryPr",\n        "fPr",'),
    Variant("template-helper-linear", [(F, "def omml_to_latex(omath_element: ET.Element | None) -> str:\n", "def _command(command: str, argument: str) -> str:\n    return f\"{command}{{{argument}}}\"\n\ndef omml_to_latex(omath_element: ET.Element | None) -> str:\n"), (F, "            return f\"\\\\overline{{{content_text}}}\"\n", "            return _command(\"\\\\overline\", content_text)\n")], None),
    T("omml-default-under-is-none-local", "sharepoint2text/parsing/extractors/util/omml_to_latex.py", "            left = beg_chr.get(f\"{M_NS}val\", \"(\") if beg_chr is not None else \"(\"\n", "            left = \"(\"\n            if beg_chr is not None:\n                left = beg_chr.get(f\"{M_NS}val\", \"(\")\n"),
    T("delimiter-chars-via-own-dpr", F, '            beg_chr = elem.find(f"{M_NS}dPr/{M_NS}begChr")\n            end_chr = elem.find(f"{M_NS}dPr/{M_NS}endChr")\n', '            dpr = elem.find(f"{M_NS}dPr")\n            beg_chr = dpr.find(f"{M_NS}begChr") if dpr is not None else None\n            end_chr = dpr.find(f"{M_NS}endChr") if dpr is not None else None\n'),
    T("rename-operand", F, '            base = elem.find(f"{M_NS}e")\n            sup = elem.find(f"{M_NS}sup")\n            base_text = process_element(base)\n            sup_text = process_element(sup)\n            return f"{base_text}^{{{sup_text}}}"', '            b = elem.find(f"{M_NS}e")\n            s = elem.find(f"{M_NS}sup")\n            bt = process_element(b)\n            st = process_element(s)\n            return f"{bt}^{{{st}}}"'),
    T("concat-instead-of-fstring", F, 'return f"\\\\overline{{{content_text}}}"', 'return "\\\\overline{" + content_text + "}"'),
    T("inline-find", F, '            content = elem.find(f"{M_NS}e")\n            content_text = process_element(content)\n            return f"\\\\overline{{{content_text}}}"', '            content_text = process_element(elem.find(f"{M_NS}e"))\n            return f"\\\\overline{{{content_text}}}"'),
]

# --- seeded changes kept under /verif/seeded (sub-agents saw only the property text); each must be reported by the named rule
import os as _os
from sa.selftest.harness import P as _P
_SEEDS = _os.path.join(_os.path.dirname(_os.path.dirname(_os.path.dirname(_os.path.abspath(__file__)))), "seeded")
SEEDED = [
    ("C19-1", "C19-LIN"),
    ("C19-2", "C19-BAL"),
    ("C19-3", "C19-TOTAL"),
    ("C19-4", "C19-NULL"),
    ("C19-5", "C19-LIN"),
    ("C19-6", "C19-LIN"),
    ("C19-7", "C19-REC"),
    ("C19-8", "C19-LIN"),
    ("C19-9", "C19-LIN"),
    ("C19-10", "C19-LIN"),
    ("C19-11", "C19-TOTAL"),
    ("C19-12", "C19-LIN"),
    ("C19-13", "C19-LIN"),
    ("C19-14", "C19-LIN"),
    ("C19-15", "C19-LIN"),
]
MUTANTS = list(MUTANTS) + [_P("seed-" + sid, _os.path.join(_SEEDS, sid, "patch.diff"), rule) for sid, rule in SEEDED if _os.path.exists(_os.path.join(_SEEDS, sid, "patch.diff"))]
