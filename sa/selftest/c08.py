from sa.selftest.harness import M, T, Variant

X = "sharepoint2text/parsing/extractors/"
EP = "sharepoint2text/parsing/extractors/epub_extractor.py"
EN = "sharepoint2text/parsing/extractors/util/encryption.py"
MUTANTS = [
    M("docx-detector-dropped", X + "ms_modern/docx_extractor.py", "        if is_ooxml_encrypted(file_like):\n            raise ExtractionFileEncryptedError(", "        if False and is_ooxml_encrypted(file_like):\n            raise ExtractionFileEncryptedError(", "C08-DET", "read_docx"),
    M("ods-detector-after-yield-path", X + "open_office/ods_extractor.py", "        if is_odf_encrypted(file_like):\n            raise ExtractionFileEncryptedError(\"ODS is encrypted or password-protected\")", "        if path and is_odf_encrypted(file_like):\n            raise ExtractionFileEncryptedError(\"ODS is encrypted or password-protected\")", "C08-DET", "read_ods"),
    M("xls-detector-wrong-error", X + "ms_legacy/xls_extractor.py", "        if is_xls_encrypted(file_like):\n            raise ExtractionFileEncryptedError(\"XLS is encrypted or password-protected\")", "        if is_xls_encrypted(file_like):\n            raise LegacyMicrosoftParsingError(\"XLS is encrypted or password-protected\")", "C08-DET", "read_xls"),
    M("pdf-decrypt-result-ignored", X + "pdf/pdf_extractor.py", "            if decrypt_result == 0:\n                raise ExtractionFileEncryptedError(", "            if decrypt_result is None:\n                raise ExtractionFileEncryptedError(", "C08-DET", "read_pdf"),
    M("zip-flag-after-skip-filter", X + "archive_extractor.py", "                # Check encryption (bit 0 of flag_bits)\n                if info.flag_bits & 0x1:\n                    raise ExtractionFileEncryptedError(\n                        \"Encrypted/password-protected ZIP archives are not supported\"\n                    )\n\n                filename = info.filename\n                basename = os.path.basename(filename)\n\n                # Fast filtering\n                if _should_skip_file(filename, basename):\n                    continue\n", "                filename = info.filename\n                basename = os.path.basename(filename)\n\n                # Fast filtering\n                if _should_skip_file(filename, basename):\n                    continue\n\n                if info.flag_bits & 0x1:\n                    raise ExtractionFileEncryptedError(\n                        \"Encrypted/password-protected ZIP archives are not supported\"\n                    )\n", "C08-DET"),
    M("7z-password-check-after-extract", X + "archive_extractor.py", "            if szf.needs_password():\n                raise ExtractionFileEncryptedError(\n                    \"Encrypted/password-protected 7z archives are not supported\"\n                )\n", "            if archive_path and szf.needs_password():\n                raise ExtractionFileEncryptedError(\n                    \"Encrypted/password-protected 7z archives are not supported\"\n                )\n", "C08-DET"),
    M("zip-over-broad-handler", X + "archive_extractor.py", "                except NotImplementedError as e:\n                    # Unsupported compression method or ZIP feature: skip this member\n                    logger.warning(\"Failed to extract %s from ZIP: %s\", filename, e)\n                    continue\n", "", "C08-OVER"),
    M("encrypted-on-bad-zip", X + "ms_modern/pptx_extractor.py", "        if is_ooxml_encrypted(file_like):", "        if not zipfile_ok(file_like):\n            raise ExtractionFileEncryptedError(\"PPTX unreadable\")\n        if is_ooxml_encrypted(file_like):", "C08-OVER"),
    M("fib-mask-widened", X + "ms_legacy/doc_extractor.py", "FIB_ENCRYPTED_FLAG = 0x0100", "FIB_ENCRYPTED_FLAG = 0x8100", "C08-CONST"),
    M("zip-mask", X + "archive_extractor.py", "if info.flag_bits & 0x1:", "if info.flag_bits & 0x9:", "C08-CONST"),
    M("filepass-id", X + "util/encryption.py", "if record_id == 0x002F:", "if record_id == 0x002E:", "C08-CONST"),
    M("ole-stream-name", X + "util/encryption.py", '("EncryptionInfo", "EncryptedPackage", "DataSpaces")', '("EncryptionInfo", "EncryptedPackage")', "C08-CONST"),
    M("aes-binding-dropped", X + "pdf/_pypdf_aes_fallback.py", "    enc.aes_cbc_decrypt = aes_cbc_decrypt\n", "", "C08-PATCH"),
    M("epub-any-entry-is-drm", EP, "            if any(not _is_font_obfuscation(e) for e in encrypted):", "            if encrypted:", "C08-CONST"),
    M("epub-all-instead-of-any", EP, "            if any(not _is_font_obfuscation(e) for e in encrypted):", "            if encrypted and all(not _is_font_obfuscation(e) for e in encrypted):", "C08-CONST"),
    M("epub-aes-counts-as-obfuscation", EP, '        "http://ns.adobe.com/pdf/enc#RC",\n', '        "http://ns.adobe.com/pdf/enc#RC",\n        "http://www.w3.org/2001/04/xmlenc#aes256-cbc",\n', "C08-CONST"),
    M("xls-writeprot-record", EN, "        if record_id == 0x002F:  # FILEPASS\n", "        if record_id in (0x002F, 0x0086):  # FILEPASS\n", "C08-CONST"),
    M("7z-aes-header-generic-error", "sharepoint2text/parsing/extractors/util/sevenzip.py", "            raise Encrypted7zFile(\"Encrypted archives are not supported\")", "            raise Bad7zFile(\"Encrypted archives are not supported\")", "C08-OVER"),
    M("7z-encrypted-handler-after-generic", "sharepoint2text/parsing/extractors/archive_extractor.py", "    except Encrypted7zFile as e:\n        # With encrypted file names already the header cannot be read\n        raise ExtractionFileEncryptedError(\n            \"Encrypted/password-protected 7z archives are not supported\"\n        ) from e\n    except Bad7zFile as e:\n        raise ExtractionFailedError(f\"Invalid 7z archive: {e}\", cause=e) from e\n", "    except Bad7zFile as e:\n        raise ExtractionFailedError(f\"Invalid 7z archive: {e}\", cause=e) from e\n    except Encrypted7zFile as e:\n        raise ExtractionFileEncryptedError(\n            \"Encrypted/password-protected 7z archives are not supported\"\n        ) from e\n", "C08-OVER"),
    M("7z-encrypted-class-also-for-unsupported", "sharepoint2text/parsing/extractors/util/sevenzip.py", "        raise Bad7zFile(f\"Unsupported compression method: {coder_id.hex()}\")", "        raise Encrypted7zFile(f\"Unsupported compression method: {coder_id.hex()}\")", "C08-OVER"),
]
TWINS = [
    T("pdf-fallback-under-local-alias", "sharepoint2text/parsing/extractors/pdf/pdf_extractor.py", "    if reader.is_encrypted:\n        # AES-128 (V4) files open without AES", "    encrypted = reader.is_encrypted\n    if encrypted:\n        # AES-128 (V4) files open without AES"),
    T("detector-result-in-variable", X + "ms_legacy/ppt_extractor.py", "        if is_ppt_encrypted(file_like):\n            raise ExtractionFileEncryptedError(\"PPT is encrypted or password-protected\")", "        if is_ppt_encrypted(file_like):\n            logger.debug(\"encrypted ppt\")\n            raise ExtractionFileEncryptedError(\"PPT is encrypted or password-protected\")"),
    T("hex-vs-decimal-mask", X + "archive_extractor.py", "if info.flag_bits & 0x1:", "if info.flag_bits & 1:"),
    T("epub-not-all-form", EP, "            if any(not _is_font_obfuscation(e) for e in encrypted):", "            if not all(_is_font_obfuscation(e) for e in encrypted):"),
    T("epub-nonempty-conjunct", EP, "            if any(not _is_font_obfuscation(e) for e in encrypted):", "            if encrypted and any(not _is_font_obfuscation(e) for e in encrypted):"),
]

# --- seeded changes kept under /verif/seeded (sub-agents saw only the property text); each must be reported by the named rule
import os as _os
from sa.selftest.harness import P as _P
_SEEDS = _os.path.join(_os.path.dirname(_os.path.dirname(_os.path.dirname(_os.path.abspath(__file__)))), "seeded")
SEEDED = [
    ("C08-1", "C08-DET"),
    ("C08-2", "C08-CONST"),
    ("C08-3", "C08-PATCH"),
    ("C08-4", "C08-CONST"),
    ("C08-5", "C08-DET"),
    ("C08-6", "C08-CONST"),
    ("C08-7", "C08-CONST"),
    ("C08-8", "C08-CONST"),
    ("C08-9", "C08-SAME"),
    ("C08-10", "C08-CONST"),
    ("C08-11", "C08-DET"),
    ("C08-12", "C08-OVER"),
    ("C08-13", "C08-PATCH"),
    ("C08-14", "C08-DET"),
    ("C08-15", "C08-CONST"),
]
MUTANTS = list(MUTANTS) + [_P("seed-" + sid, _os.path.join(_SEEDS, sid, "patch.diff"), rule) for sid, rule in SEEDED if _os.path.exists(_os.path.join(_SEEDS, sid, "patch.diff"))]
