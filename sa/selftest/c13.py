from sa.selftest.harness import M, T, Variant

X = "sharepoint2text/parsing/extractors/"
D = X + "data_types.py"
DOCX = X + "ms_modern/docx_extractor.py"
ODT = X + "open_office/odt_extractor.py"
ODP = X + "open_office/odp_extractor.py"
PPTX = X + "ms_modern/pptx_extractor.py"
XLSX = X + "ms_modern/xlsx_extractor.py"
EPUB = X + "epub_extractor.py"

PPTXF = "sharepoint2text/parsing/extractors/ms_modern/pptx_extractor.py"
ODTF = "sharepoint2text/parsing/extractors/open_office/odt_extractor.py"
ODSF = "sharepoint2text/parsing/extractors/open_office/ods_extractor.py"
MUTANTS = [
    M("docx-rows-direct-children", DOCX, "            for tr in _iter_wrapped(tbl, (W_TR,)):\n", "            for tr in tbl.findall(W_TR):\n", "C13-WALK", "lost"),
    M("docx-rows-all-descendants", DOCX, "            for tr in _iter_wrapped(tbl, (W_TR,)):\n", "            for tr in tbl.iter(W_TR):\n", "C13-WALK", "duplicated"),
    M("docx-cells-all-descendants", DOCX, "                for tc in _iter_wrapped(tr, (W_TC,)):\n                    cell_paragraphs", "                for tc in tr.iter(W_TC):\n                    cell_paragraphs", "C13-WALK", "duplicated"),
    M("docx-cell-paragraphs-direct-children", DOCX, "                        for p in _iter_wrapped(tc, (W_P, W_TBL))\n                        if p.tag == W_P\n", "                        for p in tc.findall(W_P)\n", "C13-WALK", "lost"),
    M("docx-cell-paragraphs-all-descendants", DOCX, "                        for p in _iter_wrapped(tc, (W_P, W_TBL))\n                        if p.tag == W_P\n", "                        for p in tc.iter(W_P)\n", "C13-WALK"),
    M("docx-nested-tables-not-reported", DOCX, "        for tbl in child.iter(W_TBL):\n            table_data", "        for tbl in [child]:\n            table_data", "C13-WALK"),
    M("docx-tables-in-content-controls-skipped", DOCX, "    for child in _iter_wrapped(body, (W_P, W_TBL)):\n        if child.tag == W_P:\n            current_paragraph_index += 1\n            continue\n", "    for child in list(body):\n        if child.tag == W_P:\n            current_paragraph_index += 1\n            continue\n        if child.tag != W_TBL:\n            continue\n", "C13-WALK", "lost"),
    M("odt-rows-all-descendants", ODT, "        for row in _iter_table_rows(table):", "        for row in table.iter(_TABLE_ROW_TAG):", "C13-WALK", "duplicated"),
    M("odt-rows-direct-children", ODT, "        for row in _iter_table_rows(table):", "        for row in table.findall(_TABLE_ROW_TAG):", "C13-WALK", "lost"),
    M("odt-cell-paragraphs-all-descendants", ODT, "                    _get_text_recursive(p) for p in _iter_cell_paragraphs(cell)", "                    _get_text_recursive(p) for p in cell.iter(_TEXT_P_TAG)", "C13-WALK"),
    M("odt-cell-iterator-enters-paragraphs", ODT, "        if child.tag in (_TEXT_P_TAG, _TEXT_H_TAG):\n            yield child\n        else:\n            yield from _iter_cell_paragraphs(child)", "        if child.tag in (_TEXT_P_TAG, _TEXT_H_TAG):\n            yield child\n        yield from _iter_cell_paragraphs(child)", "C13-WALK"),
    M("odt-only-top-level-tables", ODT, "    for table in body.iter(_TABLE_TABLE_TAG):\n        table_data", "    for table in body.findall(_TABLE_TABLE_TAG):\n        table_data", "C13-WALK", "lost"),
    M("odp-header-rows-dropped", ODP, "    rows.extend(table_elem.findall(\"table:table-header-rows/table:table-row\", NS))\n", "", "C13-WALK", "lost"),
    M("odp-cells-covered-only", ODP, "            if cell.tag != _TABLE_CELL_TAG:\n                continue\n            cell_texts = [_get_text_recursive(p) for p in _iter_paragraphs(cell)]", "            if cell.tag != _TABLE_COVERED_CELL_TAG:\n                continue\n            cell_texts = [_get_text_recursive(p) for p in _iter_paragraphs(cell)]", "C13-WALK", "lost"),
    M("pptx-first-cell-only", PPTX, "        for tc in tr.findall(A_TC):\n            tx_body = tc.find(A_TXBODY)", "        for tc in [tr.find(A_TC)]:\n            tx_body = tc.find(A_TXBODY)", "C13-WALK"),
    M("pptx-rows-all-descendants-of-frame", PPTX, "    for tr in tbl.findall(A_TR):\n        row_data: list[str] = []", "    for tr in tbl.findall(A_TR) + tbl.findall(A_TR):\n        row_data: list[str] = []", "C13-WALK"),
    M("html-nested-tables-not-recorded", X + "html_extractor.py", "        for nested in self._nested_tables(table_node):\n            self._append_table(nested)\n", "", "C13-WALK", "lost"),
    M("html-header-cells-dropped", X + "html_extractor.py", "                if child.get(\"tag\") in (\"th\", \"td\"):\n                    cell_text = self._get_node_text(child).strip()", "                if child.get(\"tag\") == \"td\":\n                    cell_text = self._get_node_text(child).strip()", "C13-WALK", "lost"),
    M("pptx-merged-cells-skipped", PPTX, "        for tc in tr.findall(A_TC):\n            tx_body = tc.find(A_TXBODY)", "        for tc in tr.findall(A_TC):\n            if tc.get(\"hMerge\") in (\"1\", \"true\"):\n                continue\n            tx_body = tc.find(A_TXBODY)", "C13-WALK", "cell skipped"),
    M("xlsx-rows-from-record-values", XLSX, "        all_rows.append([_get_cell_value(val) for val in row])", "        all_rows.append(list(record.values()))", "C13-KEY"),
    M("xlsx-emptiness-by-truthiness", XLSX, "    return val is not None and (not isinstance(val, str) or val.strip() != \"\")", "    if isinstance(val, str):\n        return bool(val.strip())\n    return bool(val)", "C13-TRIM"),
    M("xlsx-blank-strings-are-data", XLSX, "    return val is not None and (not isinstance(val, str) or val.strip() != \"\")", "    return val is not None and val != \"\"", "C13-TRIM"),
    M("epub-non-linear-skipped", EPUB, "        for itemref in spine_elem.findall(\"opf:itemref\", NS):\n            idref = itemref.get(\"idref\", \"\")\n            if idref:", "        for itemref in spine_elem.findall(\"opf:itemref\", NS):\n            idref = itemref.get(\"idref\", \"\")\n            if idref and itemref.get(\"linear\", \"yes\") != \"no\":", "C13-SPINE"),
    M("epub-skip-by-continue", EPUB, "        for itemref in spine_elem.findall(\"opf:itemref\", NS):\n            idref = itemref.get(\"idref\", \"\")\n            if idref:", "        for itemref in spine_elem.findall(\"opf:itemref\", NS):\n            idref = itemref.get(\"idref\", \"\")\n            if itemref.get(\"linear\") == \"no\":\n                continue\n            if idref:", "C13-SPINE"),
    M("xlsx-table-from-record-dicts", D, "    def get_table(self) -> list[list[typing.Any]]:\n        return self.data\n\n    def get_dim(self) -> TableDim:\n        rows = len(self.data)\n        columns = max((len(row) for row in self.data), default=0)\n        return TableDim(rows=rows, columns=columns)\n\n\n@dataclass\nclass XlsxContent", "    records: Dict[str, typing.Any] = field(default_factory=dict)\n\n    def get_table(self) -> list[list[typing.Any]]:\n        return [list(self.records.keys())] + [list(self.records.values())]\n\n    def get_dim(self) -> TableDim:\n        rows = len(self.data)\n        columns = max((len(row) for row in self.data), default=0)\n        return TableDim(rows=rows, columns=columns)\n\n\n@dataclass\nclass XlsxContent", "C13-KEY"),
    M("ods-rows-direct-children-only", ODSF, "    for row in _iter_sheet_rows(table):", "    for row in table.findall(\"table:table-row\", NS):", "C13-ODS"),
    M("ods-covered-cells-skipped", ODSF, "            if cell.tag not in (_TABLE_CELL_TAG, _TABLE_COVERED_CELL_TAG):\n                continue", "            if cell.tag != _TABLE_CELL_TAG:\n                continue", "C13-ODS"),
    M("docx-gridspan-not-padded", "sharepoint2text/parsing/extractors/ms_modern/docx_extractor.py", "                    span = _grid_count(tc.find(W_TCPR), W_GRIDSPAN)\n                    row_data.extend([\"\"] * max(0, span - 1))\n", "", "C13-GRID"),
    M("docx-gridbefore-ignored", "sharepoint2text/parsing/extractors/ms_modern/docx_extractor.py", "                row_data: list[str] = [\"\"] * _grid_count(tr.find(W_TRPR), W_GRIDBEFORE)\n", "                row_data: list[str] = []\n", "C13-GRID"),
    M("xlsx-rows-clipped-to-dimension", "sharepoint2text/parsing/extractors/ms_modern/xlsx_extractor.py", "    if hasattr(ws, \"reset_dimensions\"):\n        ws.reset_dimensions()\n", "", "C13-GRID"),
    M("xlsx-reset-after-read", "sharepoint2text/parsing/extractors/ms_modern/xlsx_extractor.py", "    if hasattr(ws, \"reset_dimensions\"):\n        ws.reset_dimensions()\n    rows = list(ws.iter_rows(values_only=True))\n", "    rows = list(ws.iter_rows(values_only=True))\n    if hasattr(ws, \"reset_dimensions\"):\n        ws.reset_dimensions()\n", "C13-GRID"),
    M("odt-blank-tails-dropped", ODTF, "        if child.tail:\n            parts.append(child.tail)\n", "        if child.tail and not child.tail.isspace():\n            parts.append(child.tail)\n", "C13-TAIL"),
    M("odf-shared-tail-needs-content", X + "open_office/_shared.py", "        tail = child.tail\n        if tail:\n            parts.append(tail)\n", "        tail = child.tail\n        if tail and tail != \" \":\n            parts.append(tail)\n", "C13-TAIL"),
    M("html-endtag-closes-whatever-is-open", X + "html_extractor.py", "        index = self._open_index((tag,), tag)\n        if index is not None:\n            self.last_closed = self.stack[index]\n            del self.stack[index:]\n", "        if len(self.stack) > 1:\n            self.last_closed = self.stack.pop()\n", "C13-STACK"),
    M("html-td-does-not-close-th", X + "html_extractor.py", "    \"td\": frozenset({\"td\", \"th\"}),\n", "    \"td\": frozenset({\"td\"}),\n", "C13-STACK"),
    M("html-no-implied-end-tags", X + "html_extractor.py", "        implied = _IMPLIED_END_TAGS.get(tag)\n        if implied:\n            index = self._open_index(implied, tag)\n            if index is not None:\n                del self.stack[index:]\n", "", "C13-STACK"),
]

TWINS = [
    T("html-endtag-guard-leaves", X + "html_extractor.py", "        index = self._open_index((tag,), tag)\n        if index is not None:\n            self.last_closed = self.stack[index]\n            del self.stack[index:]\n", "        index = self._open_index((tag,), tag)\n        if index is None:\n            return\n        self.last_closed = self.stack[index]\n        del self.stack[index:]\n"),
    T("html-implied-end-tags-by-subscript", X + "html_extractor.py", "        implied = _IMPLIED_END_TAGS.get(tag)\n        if implied:\n", "        implied = _IMPLIED_END_TAGS[tag] if tag in _IMPLIED_END_TAGS else None\n        if implied:\n"),
    T("odf-shared-tail-is-not-none-and-nonempty", X + "open_office/_shared.py", "        tail = child.tail\n        if tail:\n            parts.append(tail)\n", "        tail = child.tail\n        if tail is not None and tail:\n            parts.append(tail)\n"),
    T("docx-grid-count-by-findall", "sharepoint2text/parsing/extractors/ms_modern/docx_extractor.py", "    elem = properties.find(tag)\n    if elem is None:\n        return 0\n", "    found = properties.findall(tag)\n    if not found:\n        return 0\n    elem = found[0]\n"),
    T("xlsx-reset-unconditional", "sharepoint2text/parsing/extractors/ms_modern/xlsx_extractor.py", "    if hasattr(ws, \"reset_dimensions\"):\n        ws.reset_dimensions()\n", "    ws.reset_dimensions()\n"),
    T("xlsx-emptiness-spelled-out", XLSX, "    return val is not None and (not isinstance(val, str) or val.strip() != \"\")", "    if val is None:\n        return False\n    if isinstance(val, str):\n        return val.strip() != \"\"\n    return True"),
    T("docx-cell-comprehension-as-loop", DOCX, "                    cell_paragraphs = [\n                        _extract_paragraph_content(p, include_formulas=False)\n                        for p in _iter_wrapped(tc, (W_P, W_TBL))\n                        if p.tag == W_P\n                    ]", "                    cell_paragraphs = []\n                    for p in _iter_wrapped(tc, (W_P, W_TBL)):\n                        if p.tag == W_P:\n                            cell_paragraphs.append(_extract_paragraph_content(p, include_formulas=False))"),
    T("odt-row-iterator-not-equal-form", ODT, "        if child.tag == _TABLE_ROW_TAG:\n            yield child\n        else:\n            yield from _iter_table_rows(child)", "        if child.tag != _TABLE_ROW_TAG:\n            yield from _iter_table_rows(child)\n        else:\n            yield child"),
    T("epub-idref-test-explicit", EPUB, "        for itemref in spine_elem.findall(\"opf:itemref\", NS):\n            idref = itemref.get(\"idref\", \"\")\n            if idref:", "        for itemref in spine_elem.findall(\"opf:itemref\", NS):\n            idref = itemref.get(\"idref\", \"\")\n            if idref != \"\":"),
    T("pptx-cells-by-child-loop-and-tag-test", PPTXF, "        for tc in tr.findall(A_TC):\n            tx_body = tc.find(A_TXBODY)\n", "        for tc in tr:\n            if tc.tag != A_TC:\n                continue\n            tx_body = tc.find(A_TXBODY)\n"),
    T("pptx-rows-by-child-loop-and-tag-test", PPTXF, "    for tr in tbl.findall(A_TR):\n        row_data: list[str] = []\n", "    for tr in tbl:\n        if tr.tag != A_TR:\n            continue\n        row_data: list[str] = []\n"),
    T("odt-covered-cell-branch-after-cell-test", ODTF, "                if cell.tag == _TABLE_COVERED_CELL_TAG:\n                    row_data.append(\"\")\n                    continue\n                if cell.tag != _TABLE_CELL_TAG:\n                    continue\n", "                if cell.tag not in (_TABLE_CELL_TAG, _TABLE_COVERED_CELL_TAG):\n                    continue\n                if cell.tag == _TABLE_COVERED_CELL_TAG:\n                    row_data.append(\"\")\n                    continue\n"),
]

# --- seeded changes kept under /verif/seeded (sub-agents saw only the property text); each must be reported by the named rule
import os as _os
from sa.selftest.harness import P as _P
_SEEDS = _os.path.join(_os.path.dirname(_os.path.dirname(_os.path.dirname(_os.path.abspath(__file__)))), "seeded")
SEEDED = [
    ("C13-1", "C13-TRIM"),
    ("C13-2", "C13-WALK"),
    ("C13-3", "C13-SPINE"),
    ("C13-4", "C13-WALK"),
    ("C13-5", "C13-KEY"),
    ("C13-7", "C13-DIM"),
    ("C13-8", "C13-TRIM"),
    ("C13-9", "C13-GRID"),
    ("C13-11", "C13-ROWS"),
    ("C13-12", "C13-GRID"),
    ("C13-13", "C13-ODS"),
    ("C13-14", "C13-TAIL"),
    ("C13-15", "C13-STACK"),
    ("C13-10", "C13-CHUNK"),
]
MUTANTS = list(MUTANTS) + [_P("seed-" + sid, _os.path.join(_SEEDS, sid, "patch.diff"), rule) for sid, rule in SEEDED if _os.path.exists(_os.path.join(_SEEDS, sid, "patch.diff"))]
