from sa.selftest.harness import M, T

X = "sharepoint2text/parsing/extractors/"
D = X + "data_types.py"
MB = "sharepoint2text/parsing/extractors/mail/mbox_email_extractor.py"
XL = "sharepoint2text/parsing/extractors/ms_modern/xlsx_extractor.py"
MUTANTS = [
    M("pdf-enumerate-start-0", D, "        for page_number, page in enumerate(self.pages, start=1):\n            yield PdfUnit(", "        for page_number, page in enumerate(self.pages, start=0):\n            yield PdfUnit(", "C03-NUM"),
    M("xlsx-units-filtered", D, "        for sheet_index, sheet in enumerate(self.sheets, start=1):\n            yield XlsxUnit(", "        for sheet_index, sheet in enumerate([s for s in self.sheets if s.data], start=1):\n            yield XlsxUnit(", "C03-NUM"),
    M("pptx-unit-number-constant", D, "            yield PptxUnit(\n                slide_number=slide.slide_number,", "            yield PptxUnit(\n                slide_number=1,", "C03-NUM"),
    M("ods-skip-empty-sheets", D, "        for sheet_index, sheet in enumerate(self.sheets, start=1):\n            yield OdsUnit(", "        for sheet_index, sheet in enumerate(self.sheets, start=1):\n            if not sheet.data:\n                continue\n            yield OdsUnit(", "C03-NUM"),
    M("unit-metadata-wrong-field", D, "    def get_metadata(self) -> PptUnitMetadata:\n        return PptUnitMetadata(unit_number=self.slide_number)", "    def get_metadata(self) -> PptUnitMetadata:\n        return PptUnitMetadata(unit_number=1)", "C03-NUM"),
    M("pdf-full-text-from-field", D, "    def get_full_text(self) -> str:\n        return _join_unit_text(self.iterate_units())\n\n    def get_metadata(self) -> PdfMetadata:", "    def get_full_text(self) -> str:\n        return \"\\n\".join(p.text for p in self.pages)\n\n    def get_metadata(self) -> PdfMetadata:", "C03-JOIN"),
    M("pptx-flag-not-passed", D, "        return _join_unit_text(\n            self.iterate_units(include_image_captions=include_image_captions)\n        )", "        return _join_unit_text(self.iterate_units())", "C03-JOIN"),
    M("join-helper-space", D, 'return ("\\n".join(unit.get_text() for unit in units)).strip()', 'return (" ".join(unit.get_text() for unit in units)).strip()', "C03-JOIN"),
    M("pdf-page-skipped-on-error", X + "pdf/pdf_extractor.py", "            images = [] if skip_images else _extract_image_bytes(page, page_num)\n", "            try:\n                images = [] if skip_images else _extract_image_bytes(page, page_num)\n            except Exception:\n                continue\n", "C03-FILL"),
    M("xls-empty-sheet-dropped", X + "ms_legacy/xls_extractor.py", "        if sheet.nrows == 0:\n            sheets.append(XlsSheet(name=sheet.name, data=[], text=\"\"))\n            continue", "        if sheet.nrows == 0:\n            continue", "C03-FILL"),
    M("pptx-slide-index-from-zero", X + "ms_modern/pptx_extractor.py", "            for slide_index, slide_path in enumerate(slide_paths, start=1):", "            for slide_index, slide_path in enumerate(slide_paths):", "C03-NUM"),
    M("epub-count-only-kept-chapters", X + "epub_extractor.py", "                chapter_number += 1\n                chapter, image_counter, _ = _extract_chapter(", "                chapter, image_counter, _ = _extract_chapter(", "C03-NUM"),
    M("ppt-fallback-slide-one", X + "ms_legacy/ppt_extractor.py", "slide = PptSlideContent(slide_number=len(content.slides) + 1)", "slide = PptSlideContent(slide_number=1)", "C03-NUM"),
    M("rtf-empty-pages-dropped", X + "ms_legacy/rtf_extractor.py", "            # Keep empty pages too: the position in the list is the page number\n            self.pages.append(page_text)", "            if page_text:\n                self.pages.append(page_text)", "C03-FILT"),
    M("mbox-skip-empty-subject", MB, "            m = parse_email_message(message)\n", "            m = parse_email_message(message)\n            if not m.subject:\n                continue\n", "C03-FILL"),
    M("xlsx-visible-sheets-only", XL, "            metadata = _extract_metadata_from_workbook(wb)\n            sheet_names = list(wb.sheetnames)\n", "            metadata = _extract_metadata_from_workbook(wb)\n            sheet_names = [n for n in wb.sheetnames if wb[n].sheet_state == \"visible\"]\n", "C03-FILL"),
    M("xlsx-chart-sheet-unguarded", "sharepoint2text/parsing/extractors/ms_modern/xlsx_extractor.py", "        if not hasattr(ws, \"iter_rows\"):\n", "        if False:\n", "C03-KIND"),
    M("odt-flush-drops-preamble", "sharepoint2text/parsing/extractors/data_types.py", "            if not (text or current_tables):\n                current_lines = []\n                current_tables = []\n                return\n\n            unit_heading_path = list(base_heading_path)", "            if not (text or current_tables) or not current_heading_path:\n                current_lines = []\n                current_tables = []\n                return\n\n            unit_heading_path = list(base_heading_path)", "C03-PART"),
]
MUTANTS.append(M("odp-second-title-in-no-unit", X + "open_office/odp_extractor.py", "                if not found_title and (\n                    \"Title\" in style_name or style_name == \"TitleText\"\n                ):\n                    slide.title = text\n                    found_title = True\n                elif", "                if \"Title\" in style_name or style_name == \"TitleText\":\n                    if not found_title:\n                        slide.title = text\n                        found_title = True\n                elif", "C03-COVER"))
TWINS = [
    T("docx-heading-level-also-from-style-prefix", "sharepoint2text/parsing/extractors/data_types.py", "            match = heading_re.match(style.strip())\n            if not match:\n                return None\n", "            match = heading_re.match(style.strip())\n            if not match:\n                if style.lower().startswith(\"titel\"):\n                    return 1\n                return None\n"),
    T("xlsx-chart-sheet-by-isinstance", "sharepoint2text/parsing/extractors/ms_modern/xlsx_extractor.py", "        if not hasattr(ws, \"iter_rows\"):\n", "        if isinstance(ws, Chartsheet):\n"),
    T("join-inlined", D, "    def get_full_text(self) -> str:\n        return _join_unit_text(self.iterate_units())\n\n    def get_metadata(self) -> PdfMetadata:", "    def get_full_text(self) -> str:\n        return (\"\\n\".join(unit.get_text() for unit in self.iterate_units())).strip()\n\n    def get_metadata(self) -> PdfMetadata:"),
    T("enumerate-positional-start", D, "        for page_number, page in enumerate(self.pages, start=1):\n            yield PdfUnit(", "        for page_number, page in enumerate(self.pages, 1):\n            yield PdfUnit("),
]

# --- seeded changes kept under /verif/seeded (sub-agents saw only the property text); each must be reported by the named rule
import os as _os
from sa.selftest.harness import P as _P
_SEEDS = _os.path.join(_os.path.dirname(_os.path.dirname(_os.path.dirname(_os.path.abspath(__file__)))), "seeded")
SEEDED = [
    ("C03-1", "C03-FILL"),
    ("C03-2", "C03-COVER"),
    ("C03-3", "C03-JOIN"),
    ("C03-4", "C03-FILL"),
    ("C03-5", "C03-JOIN"),
    ("C03-6", "C03-FILL"),
    ("C03-7", "C03-FILL"),
    ("C03-8", "C03-SEP"),
    ("C03-9", "C03-NUM"),
    ("C03-10", "C03-SEP"),
    ("C03-12", "C03-REF"),
    ("C03-13", "C03-FILL"),
    ("C03-14", "C03-SPINE"),
    ("C03-15", "C03-FILL"),
]
MUTANTS = list(MUTANTS) + [_P("seed-" + sid, _os.path.join(_SEEDS, sid, "patch.diff"), rule) for sid, rule in SEEDED if _os.path.exists(_os.path.join(_SEEDS, sid, "patch.diff"))]
