"""Self-test of the checker: mutants must be reported (naming the rule), silent twins must stay quiet.

A variant is an in-memory overlay of one or more repository files (text replacement that must match
exactly once, then ``compile()`` must succeed); nothing is written to disk and no repository code runs.
"""
from __future__ import annotations

import importlib
import os
from concurrent.futures import ProcessPoolExecutor
from dataclasses import dataclass, field

from sa.engine.context import Ctx
from sa.engine.loader import AnalysisError


@dataclass
class Variant:
    name: str
    edits: list[tuple[str, str, str]]  # (rel file, old text, new text)
    expect: str | None = None  # rule id that must fire (mutants); None for twins
    expect_in: str | None = None  # optional substring of function/construct the report must name


def _parse_patch(text: str):
    """git unified diff -> {file: [(old block, new block)]} (exact text blocks, applied by unique match)."""
    files: dict[str, list[tuple]] = {}
    cur = None
    old: list[str] = []
    new: list[str] = []
    start = [None]

    def flush():
        nonlocal old, new
        if cur is not None and (old or new):
            files.setdefault(cur, []).append(("".join(old), "".join(new), start[0]))
        old, new = [], []

    for line in text.splitlines(keepends=True):
        if line.startswith("diff --git"):
            flush()
            cur = None
        elif line.startswith("+++ "):
            pth = line[4:].strip()
            cur = pth[2:] if pth.startswith("b/") else pth
        elif line.startswith("--- ") or line.startswith("index ") or line.startswith("new file") or line.startswith("deleted file"):
            continue
        elif line.startswith("@@"):
            flush()
            import re as _re
            mm = _re.match(r"@@ -(\d+)", line)
            start[0] = int(mm.group(1)) if mm else None
        elif cur is not None:
            if line.startswith("+"):
                new.append(line[1:])
            elif line.startswith("-"):
                old.append(line[1:])
            elif line.startswith(" "):
                old.append(line[1:])
                new.append(line[1:])
            elif line.startswith("\\"):
                continue
    flush()
    return files


def P(name, patch_path, expect, expect_in=None):
    """A seeded change kept under /verif/seeded as a mutant: every hunk becomes one exact-text edit."""
    with open(patch_path, "r", encoding="utf-8") as fh:
        files = _parse_patch(fh.read())
    edits = [(rel, o, n, ln) for rel, hunks in files.items() for (o, n, ln) in hunks]
    return Variant(name, edits, expect, expect_in)


def M(name, file, old, new, expect, expect_in=None):
    return Variant(name, [(file, old, new)], expect, expect_in)


def T(name, file, old, new):
    return Variant(name, [(file, old, new)], None)


def _overlay(root: str, v: Variant):
    overlay = {}
    for edit in v.edits:
        rel, old, new = edit[0], edit[1], edit[2]
        hint = edit[3] if len(edit) > 3 else None
        path = os.path.join(root, rel)
        if rel in overlay:
            src = overlay[rel]
        elif os.path.exists(path):
            with open(path, "r", encoding="utf-8") as fh:
                src = fh.read()
        else:
            src = ""
        if old == "" and not src:
            overlay[rel] = new
            continue
        if src.count(old) != 1:
            if hint is None or src.count(old) == 0:
                return None
            # several identical blocks: take the one that starts nearest to the line the patch names
            best, pos = None, -1
            while True:
                pos = src.find(old, pos + 1)
                if pos < 0:
                    break
                ln = src.count("\n", 0, pos) + 1
                if best is None or abs(ln - hint) < abs(best[0] - hint):
                    best = (ln, pos)
            src = src[:best[1]] + new + src[best[1] + len(old):]
        else:
            src = src.replace(old, new)
        try:
            compile(src, rel, "exec", dont_inherit=True)
        except SyntaxError as exc:
            raise AnalysisError(f"variant {v.name} does not compile: {exc}")
        overlay[rel] = src
    return overlay


def _keys(prop, root, overlay):
    from sa.run import run_rules

    ctx = Ctx(root, overlay=overlay)
    reps = run_rules(prop, ctx, raise_on_error=False)
    found = [(f.rule, f.file, f.function, f.construct) for r in reps for f in r.findings]
    if ctx.analysis_errors and not found and overlay is not None:
        raise AnalysisError("; ".join(ctx.analysis_errors))
    if ctx.analysis_errors and overlay is None:
        raise AnalysisError("; ".join(ctx.analysis_errors))
    return [(f.rule, f.file, f.function, f.construct) for r in reps for f in r.findings]


def _one(args):
    prop, root, v, base = args
    try:
        if isinstance(v, tuple) and v[0] == "global":
            from sa.selftest.globaltwins import overlays
            ov = overlays(root)[v[1]]
            try:
                ks = _keys(prop, root, ov)
            except AnalysisError as exc:
                return (v[1], "error", str(exc))
            except Exception as exc:
                return (v[1], "error", f"internal error {type(exc).__name__}: {exc}")
            return (v[1], "ok", [k for k in ks if k not in base] + [("missing",) + tuple(k) for k in base if k not in ks])
        ov = _overlay(root, v)
        if ov is None:
            return (v.name, "inapplicable", None)
        try:
            ks = _keys(prop, root, ov)
        except AnalysisError as exc:
            # an analysis error on a mutant counts as "noticed" (fail-closed), on a twin as noisy
            return (v.name, "error", str(exc))
        except Exception as exc:
            return (v.name, "error", f"internal error {type(exc).__name__}: {exc}")
        new = [k for k in ks if k not in base]
        return (v.name, "ok", new)
    except AnalysisError as exc:
        return (v.name, "broken", str(exc))


def run_selftest(prop: str, root: str) -> dict:
    try:
        mod = importlib.import_module(f"sa.selftest.{prop.lower()}")
    except ModuleNotFoundError:
        return {"mutants": 0, "caught": 0, "twins": 0, "quiet": 0, "missed": [], "noisy": [], "inapplicable": [], "details": []}
    mutants: list[Variant] = getattr(mod, "MUTANTS", [])
    twins: list[Variant] = list(getattr(mod, "TWINS", []))
    # the behaviour-preserving refactorings written by sub-agents (twins8/, DESIGN 12.11): the three of this property and every one that
    # made a check of this property fail when it was first run. Kept as silent twins; one whose text no longer matches the tree is
    # counted as inapplicable, not as a failure.
    try:
        import json

        t8 = os.path.join(os.path.dirname(os.path.dirname(os.path.dirname(os.path.abspath(__file__)))), "twins8")
        with open(os.path.join(t8, "INDEX.json"), "r", encoding="utf-8") as fh:
            for tid in json.load(fh).get(prop, []):
                pth = os.path.join(t8, tid, "patch.diff")
                if os.path.exists(pth):
                    twins.append(P("twins8-" + tid, pth, None))
    except (OSError, ValueError):
        pass
    base = _keys(prop, root, None)
    base_triples = {(k[0], k[1], k[2]) for k in base}
    gtw = [("global", "whole-tree-unparse"), ("global", "whole-tree-local-rename"), ("global", "whole-tree-debug-log"), ("global", "whole-tree-no-annotations"), ("global", "whole-tree-return-temp"), ("global", "whole-tree-if-inverted"), ("global", "whole-tree-else-after-exit")]
    jobs = [(prop, root, v, base) for v in mutants + twins] + [(prop, root, g, base) for g in gtw]
    with ProcessPoolExecutor(max_workers=min(16, max(1, len(jobs)))) as ex:
        results = list(ex.map(_one, jobs))
    res = {r[0]: r for r in results}
    out = {"mutants": 0, "caught": 0, "twins": 0, "quiet": 0, "missed": [], "noisy": [], "inapplicable": [], "details": []}
    for v in mutants:
        _, status, payload = res[v.name]
        if status == "inapplicable":
            out["inapplicable"].append(v.name)
            continue
        if status == "broken":
            raise AnalysisError(payload)
        out["mutants"] += 1
        if status == "error":
            out["caught"] += 1
            out["details"].append({"mutant": v.name, "reported": "ANALYSIS-ERROR: " + payload[:200]})
            continue
        hit = [k for k in payload if k[0] == v.expect and (v.expect_in is None or v.expect_in in k[2] or v.expect_in in k[3])]
        if hit:
            out["caught"] += 1
            out["details"].append({"mutant": v.name, "reported": "|".join(hit[0])[:300]})
        else:
            out["missed"].append(v.name)
            out["details"].append({"mutant": v.name, "reported": None, "other_new": ["|".join(k)[:200] for k in payload][:3]})
    for g in gtw:
        _, status, payload = res[g[1]]
        out["twins"] += 1
        if status == "error":
            out["noisy"].append(g[1] + " (ANALYSIS-ERROR: " + payload[:200] + ")")
        elif payload:
            out["noisy"].append(g[1] + ": " + "; ".join("|".join(map(str, k))[:120] for k in payload[:3]))
        else:
            out["quiet"] += 1
    for v in twins:
        _, status, payload = res[v.name]
        if status == "inapplicable":
            out["inapplicable"].append(v.name)
            continue
        if status == "broken":
            raise AnalysisError(payload)
        out["twins"] += 1
        if status == "error":
            out["noisy"].append(v.name + " (ANALYSIS-ERROR: " + payload[:160] + ")")
            continue
        # a twin may re-word the construct of an existing finding, but must not create a finding at a new site
        really_new = [k for k in payload if (k[0], k[1], k[2]) not in base_triples]
        if really_new:
            out["noisy"].append(v.name + ": " + "|".join(really_new[0])[:200])
        else:
            out["quiet"] += 1
    return out
