from sa.selftest.harness import M, T, Variant

X = "sharepoint2text/parsing/extractors/"
D = X + "data_types.py"
SH = "sharepoint2text/parsing/extractors/open_office/_shared.py"
MUTANTS = [
    M("unit-without-get-tables", D, "    def get_tables(self) -> list[TableData]:\n        return []\n\n    def get_metadata(self) -> PptUnitMetadata:", "    def get_metadata(self) -> PptUnitMetadata:", "C04-IFACE"),
    M("caption-optional-returned", D, "    def get_caption(self) -> str:\n        return self.caption.strip()\n\n    def get_description(self) -> str:\n        return \"\"\n\n    def get_metadata(self) -> ImageMetadata:\n        return ImageMetadata(\n            image_number=self.image_number,", "    def get_caption(self) -> str:\n        return None\n\n    def get_description(self) -> str:\n        return \"\"\n\n    def get_metadata(self) -> ImageMetadata:\n        return ImageMetadata(\n            image_number=self.image_number,", "C04-STR"),
    M("odt-caption-none", X + "open_office/odt_extractor.py", "        caption = title_elem.text if title_elem is not None and title_elem.text else \"\"\n        if not caption and name:", "        caption = title_elem.text if title_elem is not None else \"\"\n        if not caption and name and False:", "C04-STR"),
    M("rtf-normaliser-dropped", X + "ms_legacy/rtf_extractor.py", "        return _combine_surrogates(\"\".join(result))", "        return \"\".join(result)", "C04-CHR"),
    M("rtf-simple-normaliser-dropped", X + "ms_legacy/rtf_extractor.py", "        result = _combine_surrogates(\n            _replace_unicode_escapes(result, int(uc_match.group(1)) if uc_match else 1)\n        )", "        result = _replace_unicode_escapes(result, int(uc_match.group(1)) if uc_match else 1)", "C04-CHR"),
    M("decode-surrogateescape", X + "plain_extractor.py", '    return content.decode("utf-8", errors="replace"), "utf-8"', '    return content.decode("utf-8", errors="surrogateescape"), "utf-8"', "C04-CHR"),
    M("size-not-len-of-payload", X + "ms_modern/xlsx_extractor.py", "                                size_bytes=len(image_bytes),", "                                size_bytes=len(image_bytes) + 0 if width else 0,", "C04-BYTES"),
    M("get-dim-first-row", D, "        rows = len(self.data)\n        columns = max((len(row) for row in self.data), default=0)\n        return TableDim(rows=rows, columns=columns)\n\n\n@dataclass\nclass XlsxContent", "        rows = len(self.data)\n        columns = len(self.data[0]) if self.data else 0\n        return TableDim(rows=rows, columns=columns)\n\n\n@dataclass\nclass XlsxContent", "C04-DIM"),
    M("error-record-unnumbered", X + "open_office/odt_extractor.py", "                        error=str(e),\n                        image_index=image_counter,\n                    )\n                )\n\n    # Then, find simple images", "                        error=str(e),\n                    )\n                )\n\n    # Then, find simple images", "C04-NUMPOS"),
    M("populate-after-yield-path", X + "open_office/odg_extractor.py", "        metadata.populate_from_path(path)\n        yield OdgContent(", "        if images:\n            metadata.populate_from_path(path)\n        yield OdgContent(", "C04-META"),
    M("populate-none-guard-dropped", D, "        if path is None:\n            return\n        p = Path(path)", "        p = Path(path or \"\")", "C04-META"),
    M("element-truth-test", SH, "    if creator is not None and creator.text:", "    if creator and creator.text:", "C04-TRUTH"),
    M("xls-metadata-utf8-strict", "sharepoint2text/parsing/extractors/ms_legacy/xls_extractor.py", "            author=decode_ole_string(meta.author, codepage),", "            author=meta.author.decode(\"utf-8\") if meta.author else \"\",", "C04-PROP"),
    M("doc-metadata-fixed-cp1252", "sharepoint2text/parsing/extractors/ms_legacy/doc_extractor.py", "                return decode_ole_string(val, codepage)", "                return decode_ole_string(val, 1252)", "C04-PROP"),
    M("ole-decoder-strict", "sharepoint2text/parsing/extractors/util/ole_metadata.py", "        return value.decode(ole_codec(codepage), errors=\"replace\")", "        return value.decode(ole_codec(codepage))", "C04-PROP"),
    M("odf-first-keyword-only", "sharepoint2text/parsing/extractors/open_office/_shared.py", "    keywords = [k.text for k in meta_elem.findall(\"meta:keyword\", ns) if k.text]\n    if keywords:\n        metadata.keywords = \", \".join(keywords)\n", "    keywords = meta_elem.find(\"meta:keyword\", ns)\n    if keywords is not None and keywords.text:\n        metadata.keywords = keywords.text\n", "C04-PROP"),
    M("epub-first-creator-only", "sharepoint2text/parsing/extractors/epub_extractor.py", "        self._metadata.creator = get_dc_all(\"creator\")", "        self._metadata.creator = get_dc(\"creator\")", "C04-PROP"),
]
TWINS = [
    Variant("rtf-sanitiser-fast-path-by-regex", [("sharepoint2text/parsing/extractors/ms_legacy/rtf_extractor.py", "    if not any(\"\\ud800\" <= ch <= \"\\udfff\" for ch in text):\n        return text\n", "    if not _RE_ANY_SURROGATE.search(text):\n        return text\n"), ("sharepoint2text/parsing/extractors/ms_legacy/rtf_extractor.py", "_RE_MULTI_SPACE = re.compile(r\"[ \\t]+\")\n", "_RE_MULTI_SPACE = re.compile(r\"[ \\t]+\")\n_RE_ANY_SURROGATE = re.compile(\"[\\ud800-\\udfff]\")\n")], None),
    T("ppt-metadata-codepage-local", "sharepoint2text/parsing/extractors/ms_legacy/ppt_extractor.py", "                    codepage_doc if field in doc_summary_fields else codepage,", "                    (codepage_doc if field in doc_summary_fields else codepage),"),
    T("caption-or-empty", X + "open_office/odt_extractor.py", "        caption = title_elem.text if title_elem is not None and title_elem.text else \"\"\n        if not caption and name:", "        caption = (title_elem.text if title_elem is not None else None) or \"\"\n        if not caption and name:"),
]

# --- seeded changes kept under /verif/seeded (sub-agents saw only the property text); each must be reported by the named rule
import os as _os
from sa.selftest.harness import P as _P
_SEEDS = _os.path.join(_os.path.dirname(_os.path.dirname(_os.path.dirname(_os.path.abspath(__file__)))), "seeded")
SEEDED = [
    ("C04-1", "C04-DIM"),
    ("C04-2", "C04-BYTES"),
    ("C04-3", "C04-STR"),
    ("C04-4", "C04-STR"),
    ("C04-6", "C04-META"),
    ("C04-7", "C04-CHR"),
    ("C04-8", "C04-TRUTH"),
    ("C04-9", "C04-DIM"),
    ("C04-10", "C04-SAME"),
    ("C04-11", "C04-CHR"),
    ("C04-12", "C04-CHR"),
    ("C04-13", "C04-CHR"),
    ("C04-14", "C04-CHR"),
    ("C04-15", "C04-CHR"),
]
MUTANTS = list(MUTANTS) + [_P("seed-" + sid, _os.path.join(_SEEDS, sid, "patch.diff"), rule) for sid, rule in SEEDED if _os.path.exists(_os.path.join(_SEEDS, sid, "patch.diff"))]
