"""C06 — extraction is a deterministic, side-effect-free function of its input."""
from __future__ import annotations

import ast
import re

from sa.engine.callgraph import calls_in, resolve_call
from sa.engine.context import Ctx
from sa.engine.loader import AnalysisError, FuncInfo, dotted, norm, short, walk_own, anorm
from sa.engine.report import Finding, RuleReport
from sa.rules.common import DT, X, extractor_entries

EXPLANATION = (
    "Equality of results across processes is a runtime statement and is not decided. Decided necessary conditions: (ORDER) no "
    "value whose order comes from iterating a set (hash-seed dependent for str) is consumed order-sensitively: list(S), "
    "tuple(S), comprehensions and joins over S, next(iter(S)), S.pop(), or a `for x in S` whose body appends / yields / "
    "concatenates / returns a non-constant; sorted(), membership, len, any/all, min/max/sum and set algebra are "
    "order-free. (NONDET) clocks, random sources, uuid, id(), hash(), os.getpid are used only for logging, identity sets and "
    "the AES encrypt wrapper. (PURE) observer methods of every result dataclass (protocol methods, iterators, to_json, "
    "properties) write nothing reachable from self: no attribute / subscript store, del, augmented assignment or mutating "
    "method call on self, its fields, elements obtained by iterating them, or aliases of those (stream rewinds excepted). "
    "(INPUT) the caller's stream parameter of each extractor, followed through every callee parameter it is passed to, "
    "is only read / sought / handed to read-only openers; never written, truncated or closed."
    " (HOST) no value looked up in a host-wide database (module-level mimetypes functions, locale, platform, working directory, environment) is used for anything but logging; mimetypes.MimeTypes() without arguments is the private, built-in table. The router's MIME fallback is an open known finding (pinned by test_is_supported)."
)
NOT_DECIDED = ["determinism of third-party parsers and of their object reprs (e.g. values defaulted to the wall clock inside openpyxl, memory addresses in pypdf reprs) — outside the analysed source",
               "Path.resolve() host dependence of file metadata for real paths (archive members are labelled lexically, C09-LABEL)"]
TRUSTED = ["iteration order of a set of str depends on PYTHONHASHSEED; dict preserves insertion order", "zipfile.ZipFile(..., 'r'), olefile.OleFileIO, PdfReader, tarfile.open(mode='r:*'), MsOxMessage, load_workbook do not modify the stream they read"]
FLOORS = {"C06-HOST": 2, "C06-STREAM": 1, "C06-ORDER": 5, "C06-NONDET": 3, "C06-PURE": 150, "C06-INPUT": 60}

ORDER_FREE_CALLS = {"sorted", "len", "any", "all", "min", "max", "sum", "set", "frozenset", "bool", "isinstance"}


# ----------------------------------------------------------------------------------------------- ORDER
class _Sets:
    def __init__(self, ctx: Ctx, fi: FuncInfo):
        self.ctx, self.fi = ctx, fi
        self.names = set()
        self.attrs = set()
        m = fi.module
        # parameters annotated as sets
        f = fi
        while f is not None:
            for a in f.node.args.args + f.node.args.kwonlyargs:
                if a.annotation is not None and norm(a.annotation).split("[")[0].split(".")[-1].lower() in ("set", "frozenset", "abstractset"):
                    self.names.add(a.arg)
            f = f.parent
        changed = True
        while changed:
            changed = False
            f = fi
            while f is not None:
                for n in walk_own(f.node):
                    if isinstance(n, (ast.Assign, ast.AnnAssign)) and getattr(n, "value", None) is not None:
                        tg = n.targets if isinstance(n, ast.Assign) else [n.target]
                        if self.is_set(n.value):
                            for t in tg:
                                if isinstance(t, ast.Name) and t.id not in self.names:
                                    self.names.add(t.id)
                                    changed = True
                        if isinstance(n, ast.AnnAssign) and norm(n.annotation).split("[")[0].split(".")[-1].lower() in ("set", "frozenset") and isinstance(n.target, ast.Name) and n.target.id not in self.names:
                            self.names.add(n.target.id)
                            changed = True
                f = f.parent

    def is_set(self, e) -> bool:
        if isinstance(e, (ast.Set, ast.SetComp)):
            return True
        if isinstance(e, ast.Call):
            d = dotted(e.func) or ""
            if d in ("set", "frozenset"):
                return True
            if isinstance(e.func, ast.Attribute) and e.func.attr in ("union", "intersection", "difference", "symmetric_difference", "copy") and self.is_set(e.func.value):
                return True
            if isinstance(e.func, ast.Attribute) and e.func.attr == "keys":
                return False
            return False
        if isinstance(e, ast.BinOp) and isinstance(e.op, (ast.BitOr, ast.BitAnd, ast.Sub, ast.BitXor)):
            return self.is_set(e.left) or self.is_set(e.right)
        if isinstance(e, ast.Name):
            if e.id in self.names:
                return True
            v = self.ctx.folder.const(self.fi.module, e.id)
            return isinstance(v, (set, frozenset)) and e.id not in {a.arg for a in self.fi.node.args.args}
        if isinstance(e, ast.Attribute):
            d = dotted(e) or ""
            if d in _set_attrs(self.ctx, self.fi):
                return True
            # <object>.<attr> where the object's class (parameter annotation, constructor call, with-target) declares a set-valued
            # property / attribute of that name
            from sa.engine.callgraph import class_of_expr
            try:
                ci = class_of_expr(self.ctx.p, self.fi, e.value)
            except Exception:
                ci = None
            if ci is not None:
                for c in self.ctx.p.mro(ci):
                    m = c.methods.get(e.attr)
                    if m is not None and any((dotted(dd) or "").split(".")[-1] in ("property", "cached_property") for dd in m.node.decorator_list):
                        ann = norm(m.node.returns).split("[")[0].split(".")[-1].lower() if m.node.returns is not None else ""
                        if ann in ("set", "frozenset", "abstractset"):
                            return True
                        rets = [r for r in walk_own(m.node) if isinstance(r, ast.Return) and r.value is not None]
                        fake = type("F", (), {"cls": c})()
                        if rets and all((dotted(r.value) or "") in _set_attrs(self.ctx, fake) for r in rets):
                            return True
            return False
        return False


_SET_ATTR_CACHE: dict[int, set[str]] = {}


def _set_attrs(ctx: Ctx, fi: FuncInfo) -> set[str]:
    """`self.x` attributes of the enclosing class family that are assigned sets, plus properties returning them."""
    if fi.cls is None:
        return set()
    key = id(fi.cls)
    if key in _SET_ATTR_CACHE:
        return _SET_ATTR_CACHE[key]
    out = set()
    for c in ctx.p.mro(fi.cls):
        for m in c.methods.values():
            for n in walk_own(m.node):
                if isinstance(n, ast.Assign) and isinstance(n.value, ast.Call) and (dotted(n.value.func) or "") in ("set", "frozenset"):
                    for t in n.targets:
                        if isinstance(t, ast.Attribute) and isinstance(t.value, ast.Name) and t.value.id == "self":
                            out.add(f"self.{t.attr}")
        for name, m in c.methods.items():
            if any((dotted(d) or "") == "property" for d in m.node.decorator_list):
                rets = [r for r in walk_own(m.node) if isinstance(r, ast.Return) and r.value is not None]
                if rets and all((dotted(r.value) or "") in out for r in rets):
                    out.add(f"self.{name}")
    _SET_ATTR_CACHE[key] = out
    return out


def _loop_body_order_free(body) -> str | None:
    """None if the loop body cannot expose the iteration order; else a description of the offending statement."""
    for st in body:
        for n in ast.walk(st):
            if isinstance(n, (ast.Yield, ast.YieldFrom)):
                return "yields inside the loop"
            if isinstance(n, ast.Call) and isinstance(n.func, ast.Attribute) and n.func.attr in ("append", "extend", "insert", "write", "appendleft"):
                return f"`{short(n, 50)}` records elements in iteration order"
            if isinstance(n, ast.AugAssign) and isinstance(n.op, ast.Add) and not (isinstance(n.value, ast.Constant) and isinstance(n.value.value, (int, float))):
                return f"`{short(n, 50)}` accumulates in iteration order"
            if isinstance(n, ast.Return) and n.value is not None and not isinstance(n.value, ast.Constant):
                return f"`{short(n, 50)}` returns the first matching element (which one is first depends on the order)"
            if isinstance(n, ast.Break):
                return "`break` makes the visited prefix order dependent"
    return None


def rule_order(ctx: Ctx) -> RuleReport:
    rep = RuleReport("C06-ORDER", "iteration order of sets never reaches a result")
    n_sets = 0
    for fi in ctx.p.all_functions():
        ss = _Sets(ctx, fi)
        for n in walk_own(fi.node):
            # list(S) / tuple(S) / "".join(S) / next(iter(S)) / enumerate(S)
            if isinstance(n, ast.Call):
                d = dotted(n.func) or ""
                if d in ("list", "tuple", "enumerate", "iter", "reversed") and n.args and ss.is_set(n.args[0]):
                    n_sets += 1
                    rep.unit(fi.key)
                    rep.fail(Finding("C06-ORDER", fi.module.rel, fi.qual, short(n), f"`{short(n, 60)}` fixes the hash-seed dependent iteration order of a set into a sequence", line=n.lineno))
                elif isinstance(n.func, ast.Attribute) and n.func.attr == "join" and n.args and ss.is_set(n.args[0]):
                    n_sets += 1
                    rep.fail(Finding("C06-ORDER", fi.module.rel, fi.qual, short(n), "a set is joined into text in hash-seed dependent order", line=n.lineno))
                elif isinstance(n.func, ast.Attribute) and n.func.attr == "pop" and not n.args and ss.is_set(n.func.value):
                    n_sets += 1
                    rep.fail(Finding("C06-ORDER", fi.module.rel, fi.qual, short(n), "set.pop() returns a hash-seed dependent element", line=n.lineno))
                elif d in ORDER_FREE_CALLS and n.args and ss.is_set(n.args[0]):
                    n_sets += 1
                    rep.ok({"site": f"{fi.qual}: {short(n, 50)}", "order_free": d})
            if isinstance(n, (ast.ListComp, ast.GeneratorExp, ast.DictComp)):
                for g in n.generators:
                    if ss.is_set(g.iter):
                        n_sets += 1
                        # a generator consumed by an order-free reducer is fine
                        rep.unit(fi.key)
                        if isinstance(n, ast.GeneratorExp) and _consumed_order_free(fi.node, n):
                            rep.ok({"site": f"{fi.qual}: {short(n, 50)}", "consumer": "order-free reducer"})
                        elif isinstance(n, ast.DictComp) and _local_dict_order_free(fi, n):
                            # the same as a loop over the set that stores into a dictionary nobody iterates
                            rep.ok({"site": f"{fi.qual}: {short(n, 50)}", "consumer": "dictionary used by key / as **keywords only"})
                        else:
                            rep.fail(Finding("C06-ORDER", fi.module.rel, fi.qual, short(n), f"comprehension over a set produces its elements in hash-seed dependent order", line=n.lineno))
            if isinstance(n, ast.For) and ss.is_set(n.iter):
                n_sets += 1
                rep.unit(fi.key)
                why = _loop_body_order_free(n.body)
                if why is None:
                    rep.ok({"site": f"{fi.qual}: for {norm(n.target)} in {short(n.iter, 30)}", "body": "order-free (lookups / constant returns / dict stores)"})
                    # dict stores: the dict must not be iterated anywhere in the module
                    for st in ast.walk(ast.Module(body=n.body, type_ignores=[])):
                        if isinstance(st, ast.Assign) and isinstance(st.targets[0], ast.Subscript):
                            dname = dotted(st.targets[0].value)
                            if dname and _dict_iterated(fi, dname):
                                rep.fail(Finding("C06-ORDER", fi.module.rel, fi.qual, norm(st), f"`{dname}` is filled in set-iteration order and iterated elsewhere: its insertion order is hash-seed dependent", line=st.lineno))
                else:
                    rep.fail(Finding("C06-ORDER", fi.module.rel, fi.qual, f"for {norm(n.target)} in {short(n.iter, 40)}", f"loop over a set: {why}", line=n.lineno))
    if n_sets < 5:
        raise AnalysisError(f"C06-ORDER: only {n_sets} uses of set-valued iterables recognised (recogniser broken)")
    return rep


def _local_dict_order_free(fi: FuncInfo, comp: ast.DictComp) -> bool:
    """the dictionary built by the comprehension is bound to a local that is only looked up by key, tested for membership, measured or
    unpacked as keyword arguments: its insertion order reaches nothing"""
    tgt = next((a.targets[0].id for a in walk_own(fi.node) if isinstance(a, ast.Assign) and a.value is comp and len(a.targets) == 1 and isinstance(a.targets[0], ast.Name)), None)
    if tgt is None:
        return False
    if sum(1 for a in walk_own(fi.node) if isinstance(a, ast.Name) and a.id == tgt and isinstance(a.ctx, ast.Store)) != 1:
        return False
    for n in ast.walk(fi.node):
        for ch in ast.iter_child_nodes(n):
            if isinstance(ch, ast.Name) and ch.id == tgt and isinstance(ch.ctx, ast.Load):
                ok = (isinstance(n, ast.keyword) and n.arg is None) or (isinstance(n, ast.Subscript) and n.value is ch) or (isinstance(n, ast.Compare) and ch in n.comparators and all(isinstance(o, (ast.In, ast.NotIn)) for o in n.ops)) \
                    or (isinstance(n, ast.Call) and isinstance(n.func, ast.Name) and n.func.id in ("len", "bool") and ch in n.args) or (isinstance(n, ast.Attribute) and n.attr in ("get", "__contains__", "__getitem__"))
                if not ok:
                    return False
    return True


def _consumed_order_free(fn, gen) -> bool:
    for n in ast.walk(fn):
        if isinstance(n, ast.Call) and any(a is gen for a in n.args):
            d = dotted(n.func) or ""
            return d in ORDER_FREE_CALLS
    return False


def _dict_iterated(fi: FuncInfo, dname: str) -> bool:
    attr = dname.split(".")[-1]
    scope = list(fi.module.functions.values())
    for f in scope:
        for n in walk_own(f.node):
            it = None
            if isinstance(n, (ast.For, ast.comprehension)):
                it = n.iter
            elif isinstance(n, ast.Call) and (dotted(n.func) or "") in ("list", "tuple", "sorted") and n.args:
                it = n.args[0]
            if it is None:
                continue
            txt = norm(it)
            if txt in (dname, f"{dname}.items()", f"{dname}.values()", f"{dname}.keys()") or txt.endswith(f".{attr}") or f".{attr}." in txt and txt.endswith(("items()", "values()", "keys()")):
                if (dotted(n.func) if isinstance(n, ast.Call) else "") == "sorted":
                    continue
                return True
    return False


# ----------------------------------------------------------------------------------------------- NONDET
NONDET = ("time.time", "time.perf_counter", "time.monotonic", "time.time_ns", "datetime.now", "datetime.utcnow", "datetime.today", "date.today",
          "datetime.datetime.now", "datetime.datetime.utcnow", "datetime.date.today", "os.getpid", "uuid.uuid4", "uuid.uuid1", "os.urandom")
NONDET_PREFIX = ("random.", "secrets.")


def rule_nondet(ctx: Ctx) -> RuleReport:
    rep = RuleReport("C06-NONDET", "clocks, random sources, id() and hash() never flow into results")
    n = 0
    for fi in ctx.p.all_functions():
        if fi.module.rel.startswith("sharepoint2text/sharepoint_io/") or fi.module.rel == "sharepoint2text/cli.py":
            continue
        for c in calls_in(fi):
            d = dotted(c.func) or ""
            t = resolve_call(ctx.p, fi, c)
            ext = t.external or d
            is_nd = d in NONDET or ext in NONDET or d.startswith(NONDET_PREFIX) or ext.startswith(NONDET_PREFIX) or d in ("id", "hash")
            if not is_nd:
                continue
            n += 1
            rep.unit(fi.key)
            use = _use_of(fi.node, c)
            if use in ("log", "identity", "timing"):
                rep.ok({"site": f"{fi.qual}: {short(c, 40)}", "use": use})
            elif d.startswith("secrets.") and fi.qual.endswith("_cryptaes_encrypt"):
                rep.ok({"site": fi.qual, "use": "IV of the AES *encrypt* wrapper (not on the extraction path)"})
            else:
                rep.fail(Finding("C06-NONDET", fi.module.rel, fi.qual, short(c), f"`{short(c, 50)}` yields a value that differs between runs and is not confined to logging / identity bookkeeping", line=c.lineno))
    if n < 3:
        raise AnalysisError(f"C06-NONDET: only {n} nondeterministic sources found (floor 3: perf_counter in read_archive, id() sets, secrets in the AES wrapper)")
    return rep


def _use_of(fn, call) -> str:
    """How the value of `call` is used: 'log', 'identity', 'timing', or 'other'."""
    parent = None
    for n in ast.walk(fn):
        for c in ast.iter_child_nodes(n):
            if c is call:
                parent = n
    d = dotted(call.func) or ""
    # direct argument of a logger call
    cur, chain = call, []
    for _ in range(6):
        p = None
        for n in ast.walk(fn):
            if any(c is cur for c in ast.iter_child_nodes(n)):
                p = n
        if p is None:
            break
        chain.append(p)
        cur = p
    if any(isinstance(p, ast.Call) and (dotted(p.func) or "").startswith("logger.") for p in chain):
        return "log"
    if d == "id":
        # id(x) in seen / seen.add(id(x)) / d[id(x)]
        for p in chain[:2]:
            if isinstance(p, ast.Compare) and any(isinstance(o, (ast.In, ast.NotIn)) for o in p.ops):
                return "identity"
            if isinstance(p, ast.Call) and isinstance(p.func, ast.Attribute) and p.func.attr in ("add", "discard", "remove", "get", "setdefault"):
                return "identity"
            if isinstance(p, ast.Subscript):
                return "identity"
        # S.update(id(e) for e in ...) / S = {id(e) for e in ...}: a set of identities, used for membership tests only
        for k, p in enumerate(chain[:3]):
            if isinstance(p, (ast.GeneratorExp, ast.SetComp)) and p.elt is (chain[k - 1] if k else call):
                holder = chain[k + 1] if k + 1 < len(chain) else None
                set_name = None
                if isinstance(p, ast.GeneratorExp) and isinstance(holder, ast.Call) and isinstance(holder.func, ast.Attribute) and holder.func.attr == "update" and isinstance(holder.func.value, ast.Name):
                    set_name = holder.func.value.id
                elif isinstance(p, ast.SetComp) and isinstance(holder, ast.Assign) and isinstance(holder.targets[0], ast.Name):
                    set_name = holder.targets[0].id
                if set_name is not None:
                    loads = [u for u in ast.walk(fn) if isinstance(u, ast.Name) and u.id == set_name and isinstance(u.ctx, ast.Load)]
                    member_only = all(any((isinstance(n, ast.Compare) and any(x is u for x in n.comparators) and any(isinstance(o, (ast.In, ast.NotIn)) for o in n.ops))
                                          or (isinstance(n, ast.Call) and isinstance(n.func, ast.Attribute) and n.func.value is u and n.func.attr in ("update", "add", "discard", "clear"))
                                          for n in ast.walk(fn)) for u in loads)
                    if member_only:
                        return "identity"
        # assigned (possibly inside a tuple key) to a name that is only used that way
        asg = None
        for p in chain[:3]:
            if isinstance(p, ast.Assign) and isinstance(p.targets[0], ast.Name):
                asg = p
                break
            if not isinstance(p, (ast.Tuple,)):
                break
        if asg is not None:
            nm = asg.targets[0].id
            uses = [u for u in ast.walk(fn) if isinstance(u, ast.Name) and u.id == nm and isinstance(u.ctx, ast.Load)]
            ok = True
            for u in uses:
                good = False
                for n in ast.walk(fn):
                    if isinstance(n, ast.Compare) and any(x is u for x in ast.walk(n)) and any(isinstance(o, (ast.In, ast.NotIn)) for o in n.ops):
                        good = True
                    if isinstance(n, ast.Call) and isinstance(n.func, ast.Attribute) and n.func.attr in ("add", "discard") and any(a is u for a in n.args):
                        good = True
                    if isinstance(n, ast.Subscript) and n.slice is u:
                        good = True
                ok = ok and good
            if uses and ok:
                return "identity"
        return "other"
    if chain and isinstance(chain[0], (ast.Assign, ast.BinOp)):
        # start = perf_counter(); total = perf_counter() - start  -> only logged
        tgt = None
        for p in chain:
            if isinstance(p, ast.Assign) and isinstance(p.targets[0], ast.Name):
                tgt = p.targets[0].id
                break
        if tgt:
            uses = [u for u in ast.walk(fn) if isinstance(u, ast.Name) and u.id == tgt and isinstance(u.ctx, ast.Load)]
            def in_log_or_timing(u):
                for n in ast.walk(fn):
                    if isinstance(n, ast.Call) and (dotted(n.func) or "").startswith("logger.") and any(x is u for x in ast.walk(n)):
                        return True
                    if isinstance(n, ast.Assign) and any(x is u for x in ast.walk(n.value)) and isinstance(n.targets[0], ast.Name):
                        t2 = n.targets[0].id
                        u2 = [w for w in ast.walk(fn) if isinstance(w, ast.Name) and w.id == t2 and isinstance(w.ctx, ast.Load)]
                        return all(any(isinstance(q, ast.Call) and (dotted(q.func) or "").startswith("logger.") and any(x is w for x in ast.walk(q)) for q in ast.walk(fn)) for w in u2)
                return False
            if uses and all(in_log_or_timing(u) for u in uses):
                return "timing"
    return "other"


# ----------------------------------------------------------------------------------------------- PURE
MUTATORS = {"append", "extend", "insert", "pop", "remove", "clear", "sort", "reverse", "update", "setdefault", "add", "discard", "write", "truncate", "popitem", "appendleft", "popleft", "writelines"}
NON_OBSERVERS = {"__init__", "__post_init__", "populate_from_path", "__setattr__"}


def _self_reach_names(fn: ast.AST) -> set[str]:
    """Local names that (may) denote self, a field of self, or an element of a field of self."""
    reach = {"self"}

    def is_reach(e) -> bool:
        if isinstance(e, ast.IfExp):
            return is_reach(e.body) or is_reach(e.orelse)
        if isinstance(e, ast.BoolOp):
            return any(is_reach(v) for v in e.values)
        if isinstance(e, ast.NamedExpr):
            return is_reach(e.value)
        while isinstance(e, (ast.Attribute, ast.Subscript)):
            e = e.value
        if isinstance(e, ast.Name):
            return e.id in reach
        if isinstance(e, ast.Call):
            # self.x.get(k), next(iter(self.x)), reversed(self.x), enumerate(self.x) keep reachability; list()/sorted()/dict() make a fresh container of reachable elements
            if isinstance(e.func, ast.Attribute) and e.func.attr in ("get", "values", "items", "keys", "__getitem__"):
                return is_reach(e.func.value)
            if isinstance(e.func, ast.Name) and e.func.id in ("reversed", "enumerate", "iter", "next", "zip") and e.args:
                return any(is_reach(a) for a in e.args)
        return False

    changed = True
    while changed:
        changed = False
        for n in walk_own(fn):
            tgt = None
            if isinstance(n, ast.Assign) and is_reach(n.value) and not isinstance(n.value, ast.Call):
                tgt = n.targets
            elif isinstance(n, ast.Assign) and isinstance(n.value, ast.Call) and is_reach(n.value):
                tgt = n.targets
            elif isinstance(n, (ast.For, ast.comprehension)):
                it = n.iter
                elem_reach = is_reach(it)
                if isinstance(it, ast.Call) and isinstance(it.func, ast.Name) and it.func.id in ("list", "sorted", "tuple", "reversed", "enumerate") and it.args and is_reach(it.args[0]):
                    elem_reach = True  # fresh container, same elements
                if elem_reach:
                    tgt = [n.target]
            elif isinstance(n, ast.NamedExpr) and is_reach(n.value):
                tgt = [n.target]
            if tgt:
                for t in tgt:
                    for x in ast.walk(t):
                        if isinstance(x, ast.Name) and x.id not in reach and isinstance(t, (ast.Name, ast.Tuple, ast.List)):
                            reach.add(x.id)
                            changed = True
    return reach


def _fresh_copy_names(fn: ast.AST) -> set[str]:
    """Names bound to fresh containers/objects (constructor calls, displays, list()/dict()/sorted() copies, comprehensions)."""
    fresh = set()
    for n in walk_own(fn):
        if isinstance(n, ast.Assign) and len(n.targets) == 1 and isinstance(n.targets[0], ast.Name):
            v = n.value
            if isinstance(v, (ast.List, ast.Dict, ast.Set, ast.ListComp, ast.DictComp, ast.SetComp, ast.Tuple)):
                fresh.add(n.targets[0].id)
            elif isinstance(v, ast.BinOp) and isinstance(v.op, ast.Add) and (isinstance(v.left, (ast.List, ast.Tuple)) or isinstance(v.right, (ast.List, ast.Tuple))):
                fresh.add(n.targets[0].id)
            elif isinstance(v, ast.Call) and isinstance(v.func, ast.Name) and (v.func.id in ("list", "dict", "set", "sorted", "tuple", "replace") or v.func.id[:1].isupper()):
                fresh.add(n.targets[0].id)
    return fresh


def rule_pure(ctx: Ctx) -> RuleReport:
    rep = RuleReport("C06-PURE", "observer methods of result dataclasses write nothing reachable from self")
    m = ctx.p.module(DT)
    n_methods = 0
    for c in m.classes.values():
        if not c.is_dataclass and "Protocol" not in [b.split(".")[-1] for b in c.bases]:
            continue
        for name, fi in c.methods.items():
            if name in NON_OBSERVERS or any((dotted(d) or "").endswith(".setter") for d in fi.node.decorator_list):
                continue
            n_methods += 1
            rep.unit(fi.key)
            reach = _self_reach_names(fi.node)
            fresh = _fresh_copy_names(fi.node)
            # a name is treated as reachable only if it was never rebound to a fresh object
            bad = []

            def base_name(e):
                while isinstance(e, (ast.Attribute, ast.Subscript)):
                    e = e.value
                return e.id if isinstance(e, ast.Name) else None

            def is_reach_expr(e, container_only=False):
                b = base_name(e)
                if b is None or b not in reach:
                    return False
                if b != "self" and b in fresh and isinstance(e, ast.Name):
                    return False  # the name itself is a fresh container (its elements may still be shared)
                return True

            for n in walk_own(fi.node):
                if isinstance(n, (ast.Assign, ast.AugAssign, ast.AnnAssign)):
                    for t in (n.targets if isinstance(n, ast.Assign) else [n.target]):
                        for tt in ([t] if not isinstance(t, (ast.Tuple, ast.List)) else t.elts):
                            if isinstance(tt, (ast.Attribute, ast.Subscript)) and is_reach_expr(tt.value if isinstance(tt, ast.Attribute) else tt.value):
                                bad.append((n, f"`{short(n, 60)}` stores into an object that belongs to the result"))
                elif isinstance(n, ast.Delete):
                    for t in n.targets:
                        if isinstance(t, (ast.Attribute, ast.Subscript)) and is_reach_expr(t.value):
                            bad.append((n, f"`{short(n, 60)}` deletes from an object that belongs to the result"))
                elif isinstance(n, ast.Call) and isinstance(n.func, ast.Name) and n.func.id in ("setattr", "delattr") and n.args and is_reach_expr(n.args[0]):
                    bad.append((n, f"`{short(n, 60)}` rebinds an attribute of an object that belongs to the result"))
                elif isinstance(n, ast.Call) and isinstance(n.func, ast.Attribute) and n.func.attr in MUTATORS:
                    recv = n.func.value
                    if is_reach_expr(recv):
                        b = base_name(recv)
                        if isinstance(recv, ast.Name) and recv.id in fresh:
                            continue
                        if n.func.attr == "seek":
                            continue
                        bad.append((n, f"`{short(n, 60)}` mutates a container that belongs to the result"))
            # an observer never hands out a stored stream: the consumer's ordinary stream handling (with-block, close(),
            # write) would change -- or end -- what the result holds
            stream_fields = {st.target.id for st in c.node.body if isinstance(st, ast.AnnAssign) and isinstance(st.target, ast.Name) and re.search(r"BytesIO|BinaryIO|\bIO\[|StringIO", norm(st.annotation))}
            if stream_fields:
                alias = {n.targets[0].id: n.value for n in walk_own(fi.node) if isinstance(n, ast.Assign) and len(n.targets) == 1 and isinstance(n.targets[0], ast.Name)}
                for r in [n for n in walk_own(fi.node) if isinstance(n, ast.Return) and n.value is not None]:
                    for v in (r.value.elts if isinstance(r.value, ast.Tuple) else [r.value]):
                        if isinstance(v, ast.Name) and v.id in alias:
                            v = alias[v.id]
                        if isinstance(v, ast.Attribute) and isinstance(v.value, ast.Name) and v.value.id == "self" and v.attr in stream_fields:
                            bad.append((r, f"`{short(r, 40)}` hands out the stream stored in the result (self.{v.attr}): when the caller closes it (`with img.{name}() as fh:`) or writes to it, every later {name}() / to_json() of the same result fails or differs"))
            if bad:
                for node, msg in bad:
                    rep.fail(Finding("C06-PURE", DT, fi.qual, short(node, 120), f"observer {fi.qual} is not side-effect free: {msg}; a later observation or to_json() of the same result differs", line=node.lineno))
            else:
                rep.ok({"observer": fi.qual, "writes_to_self": 0})
    # __post_init__ may rebind a field of the new object (`self.x = self.x.strip()`), but must not change, in place, a container it was
    # handed: observers build view objects (TableData, units) around the result's own lists, and a constructor that edits those lists
    # edits the result -- the next to_json() differs
    for c in m.classes.values():
        pi = c.methods.get("__post_init__")
        if pi is None:
            continue
        rep.unit(pi.key)
        reach = _self_reach_names(pi.node)
        fresh = _fresh_copy_names(pi.node)
        bad_pi = []
        for n in walk_own(pi.node):
            if isinstance(n, (ast.Assign, ast.AugAssign)):
                for t in (n.targets if isinstance(n, ast.Assign) else [n.target]):
                    if isinstance(t, ast.Subscript):
                        b = t.value
                        while isinstance(b, (ast.Attribute, ast.Subscript)):
                            b = b.value
                        if isinstance(b, ast.Name) and b.id in reach and not (b.id in fresh and b.id != "self"):
                            bad_pi.append((n, f"`{short(n, 50)}` stores into a container the object was constructed with"))
            elif isinstance(n, ast.Call) and isinstance(n.func, ast.Attribute) and n.func.attr in MUTATORS:
                b = n.func.value
                while isinstance(b, (ast.Attribute, ast.Subscript)):
                    b = b.value
                if isinstance(b, ast.Name) and b.id in reach and not (b.id in fresh and b.id != "self") and not (isinstance(n.func.value, ast.Name) and n.func.value.id == "dict"):
                    bad_pi.append((n, f"`{short(n, 50)}` mutates a container the object was constructed with"))
        if bad_pi:
            for node, msg in bad_pi:
                rep.fail(Finding("C06-PURE", DT, pi.qual, short(node, 120), f"{c.name}.__post_init__ edits its argument in place: {msg}; observers build {c.name} objects around the result's own lists, so reading the result changes it", line=node.lineno))
        else:
            rep.ok({"post_init": pi.qual, "in_place_edits": 0})
    if n_methods < 150:
        raise AnalysisError(f"C06-PURE: only {n_methods} observer methods found (floor 150)")
    return rep


# ----------------------------------------------------------------------------------------------- INPUT
READ_ONLY_METHODS = {"read", "seek", "tell", "getvalue", "getbuffer", "readline", "readlines", "readable", "seekable", "read1", "readinto", "peek"}
WRITE_METHODS = {"write", "truncate", "writelines", "close", "flush", "detach"}
READ_ONLY_OPENERS = {"zipfile.ZipFile", "zipfile.is_zipfile", "olefile.OleFileIO", "olefile.isOleFile", "OleFileIO", "pypdf.PdfReader", "PdfReader", "tarfile.open", "MsOxMessage", "msg_parser.MsOxMessage",
                     "openpyxl.load_workbook", "load_workbook", "xlrd.open_workbook", "io.BytesIO", "io.BufferedReader", "io.TextIOWrapper", "mailparser.parse_from_bytes", "hasattr", "isinstance", "len", "id", "type"}


def rule_input(ctx: Ctx) -> RuleReport:
    rep = RuleReport("C06-INPUT", "the caller's input stream is never written, truncated or closed")
    entries = list(extractor_entries(ctx).values())
    # (function key) -> set of parameter names that alias the caller's stream
    stream_params: dict[str, set[str]] = {}
    work = []
    for e in entries:
        p0 = e.node.args.args[0].arg
        stream_params.setdefault(e.key, set()).add(p0)
        work.append(e)
    funcs = {f.key: f for f in ctx.p.all_functions()}
    seen_pairs = set()
    n_uses = 0
    while work:
        fi = work.pop()
        names = set(stream_params.get(fi.key, ()))
        # local aliases (x = file_like; self.file_like = file_like is tracked as attribute alias)
        attr_alias = set()
        changed = True
        while changed:
            changed = False
            for n in walk_own(fi.node):
                if isinstance(n, ast.Assign) and isinstance(n.value, ast.Name) and n.value.id in names:
                    for t in n.targets:
                        if isinstance(t, ast.Name) and t.id not in names:
                            names.add(t.id)
                            changed = True
                        if isinstance(t, ast.Attribute) and isinstance(t.value, ast.Name) and t.value.id == "self" and f"self.{t.attr}" not in attr_alias:
                            attr_alias.add(f"self.{t.attr}")
                            changed = True
        if attr_alias and fi.cls is not None:
            # every method of the class sees the stream through that attribute
            for c in ctx.p.all_classes():
                if fi.cls in ctx.p.mro(c):
                    for mth in c.methods.values():
                        key = (mth.key, tuple(sorted(attr_alias)))
                        if key not in seen_pairs:
                            seen_pairs.add(key)
                            _check_stream_uses(ctx, rep, mth, set(), attr_alias)
        n_uses += _check_stream_uses(ctx, rep, fi, names, attr_alias)
        # propagate to callees
        for c in calls_in(fi):
            t = resolve_call(ctx.p, fi, c)
            callees = list(t.funcs)
            if t.klass is not None:
                init = ctx.p.find_method(t.klass, "__init__")
                if init is not None:
                    callees.append(init)
            for g in callees:
                params = [a.arg for a in g.node.args.args]
                off = 1 if params and params[0] in ("self", "cls") and (isinstance(c.func, ast.Attribute) or g.name == "__init__") else 0
                for i, a in enumerate(c.args):
                    if isinstance(a, ast.Name) and a.id in names and i + off < len(params):
                        p = params[i + off]
                        if p not in stream_params.setdefault(g.key, set()):
                            stream_params[g.key].add(p)
                            work.append(g)
                for k in c.keywords:
                    if isinstance(k.value, ast.Name) and k.value.id in names and k.arg in params:
                        if k.arg not in stream_params.setdefault(g.key, set()):
                            stream_params[g.key].add(k.arg)
                            work.append(g)
    if n_uses < 60:
        raise AnalysisError(f"C06-INPUT: only {n_uses} uses of the caller's stream found (floor 60)")
    return rep


def _check_stream_uses(ctx, rep, fi, names, attr_alias) -> int:
    n = 0
    # `with stream:` / `with closing(stream):` closes it on exit
    for w in walk_own(fi.node):
        if isinstance(w, (ast.With, ast.AsyncWith)):
            for it in w.items:
                e = it.context_expr
                if isinstance(e, ast.Call) and (dotted(e.func) or "").split(".")[-1] == "closing" and e.args:
                    e = e.args[0]
                if (isinstance(e, ast.Name) and e.id in names) or (dotted(e) or "") in attr_alias:
                    n += 1
                    rep.unit(fi.key)
                    rep.fail(Finding("C06-INPUT", fi.module.rel, fi.qual, "with " + anorm(it.context_expr, fi.node), f"`with {short(it.context_expr, 40)}:` closes the caller's input stream when the block ends: the caller (and iterate_supported_attachments' rewind) can no longer use it", line=w.lineno))
    for c in calls_in(fi):
        # method call on the stream
        if isinstance(c.func, ast.Attribute):
            recv = c.func.value
            is_stream = (isinstance(recv, ast.Name) and recv.id in names) or (dotted(recv) or "") in attr_alias
            if is_stream:
                n += 1
                rep.unit(fi.key)
                if c.func.attr in WRITE_METHODS:
                    rep.fail(Finding("C06-INPUT", fi.module.rel, fi.qual, short(c), f"`{short(c, 50)}` changes the caller's input stream", line=c.lineno))
                elif c.func.attr in READ_ONLY_METHODS:
                    rep.ok({"use": f"{fi.qual}: {short(c, 40)}", "read_only": True})
                else:
                    rep.fail(Finding("C06-INPUT", fi.module.rel, fi.qual, short(c), f"`{short(c, 50)}` is not a known read-only operation on the caller's stream", line=c.lineno))
        # stream handed to an external callee
        args = list(c.args) + [k.value for k in c.keywords]
        if any((isinstance(a, ast.Name) and a.id in names) or (dotted(a) or "") in attr_alias for a in args):
            t = resolve_call(ctx.p, fi, c)
            if not t.funcs and t.klass is None:
                n += 1
                ext = t.external or dotted(c.func) or ""
                mode = [k.value for k in c.keywords if k.arg == "mode"] + ([c.args[1]] if len(c.args) > 1 and ext.endswith("ZipFile") else [])
                wmode = any(isinstance(mv, ast.Constant) and isinstance(mv.value, str) and any(ch in mv.value for ch in "wax+") for mv in mode)
                if ext in READ_ONLY_OPENERS or ext.split(".")[-1] in {x.split(".")[-1] for x in READ_ONLY_OPENERS}:
                    if wmode:
                        rep.fail(Finding("C06-INPUT", fi.module.rel, fi.qual, short(c), "the caller's stream is opened in a writing mode", line=c.lineno))
                    else:
                        rep.ok({"use": f"{fi.qual}: {short(c, 50)}", "opener": ext})
                elif ext.startswith("logger.") or ext in ("print",):
                    rep.ok()
                else:
                    rep.fail(Finding("C06-INPUT", fi.module.rel, fi.qual, short(c), f"the caller's stream is handed to `{ext}`, which is not in the list of read-only openers", line=c.lineno))
    return n


def rule_stream(ctx: Ctx) -> RuleReport:
    """Serialising a result is an observation too: the payload encoder must rewind, read everything and restore the position."""
    from sa.rules.c05 import rule_pos

    rep = rule_pos(ctx)
    rep.rule = "C06-STREAM"
    rep.description = "to_json() of a result does not depend on where a consumer left the payload streams (rewind / restore in the BytesIO encoder)"
    for f in rep.findings:
        f.rule = "C06-STREAM"
    return rep


MUTATORS = {"append", "extend", "insert", "add", "update", "setdefault", "pop", "popitem", "clear", "remove", "discard", "sort", "reverse", "appendleft"}


def rule_default(ctx: Ctx) -> RuleReport:
    """A mutable default argument is created once per process: a function that writes into it carries state from one call (one
    extraction) into the next."""
    rep = RuleReport("C06-DEFAULT", "no function writes into a mutable default argument (state shared by all calls in the process)")
    n = 0
    for fi in ctx.p.all_functions():
        if "/tests/" in fi.module.rel:
            continue
        a = fi.node.args
        params = a.posonlyargs + a.args + a.kwonlyargs
        defaults = [None] * (len(a.posonlyargs + a.args) - len(a.defaults)) + list(a.defaults) + list(a.kw_defaults)
        for prm, d in zip(params, defaults):
            if d is None:
                continue
            mutable = isinstance(d, (ast.Dict, ast.List, ast.Set, ast.ListComp, ast.DictComp, ast.SetComp)) or (isinstance(d, ast.Call) and (dotted(d.func) or "") in ("dict", "list", "set", "bytearray", "collections.defaultdict", "defaultdict", "OrderedDict", "collections.OrderedDict", "deque", "collections.deque"))
            if not mutable:
                continue
            n += 1
            nm = prm.arg
            rebound = any(isinstance(x, ast.Assign) and any(isinstance(t, ast.Name) and t.id == nm for t in x.targets) for x in walk_own(fi.node))
            writes = []
            for x in walk_own(fi.node):
                if isinstance(x, (ast.Assign, ast.AugAssign)):
                    for t in (x.targets if isinstance(x, ast.Assign) else [x.target]):
                        if isinstance(t, ast.Subscript) and isinstance(t.value, ast.Name) and t.value.id == nm:
                            writes.append(x)
                elif isinstance(x, ast.Call) and isinstance(x.func, ast.Attribute) and x.func.attr in MUTATORS and isinstance(x.func.value, ast.Name) and x.func.value.id == nm:
                    writes.append(x)
                elif isinstance(x, ast.Call) and any(isinstance(arg, ast.Name) and arg.id == nm for arg in list(x.args) + [k.value for k in x.keywords]) and resolve_call(ctx.p, fi, x).funcs:
                    writes.append(x)  # handed on to project code that may keep / fill it
            rep.unit(fi.key)
            if writes and not rebound:
                rep.fail(Finding("C06-DEFAULT", fi.module.rel, fi.qual, f"{nm}={norm(d)}: {short(writes[0], 60)}",
                                 f"parameter `{nm}` defaults to one shared `{norm(d)}` object and the function writes into it (`{short(writes[0], 50)}`): what one extraction stores there is seen by every later one in the process", line=writes[0].lineno))
            else:
                rep.ok({"fn": fi.qual, "mutable_default": f"{nm}={norm(d)}", "written": False})
    rep.info.append(f"{n} mutable default arguments in the package")
    if n == 0:
        # nothing to judge today: keep one positive self-check so that the recogniser is exercised on every run
        probe = ast.parse("def f(x, cache={}):\n    cache[x] = 1\n").body[0]
        ok = any(isinstance(t, ast.Subscript) for st in probe.body for t in getattr(st, "targets", []))
        rep.ok({"recogniser_probe": "def f(x, cache={}): cache[x] = 1 -> recognised", "ok": ok})
    return rep


# ----------------------------------------------------------------------------------------------- HOST
HOST_DATABASES = {
    "mimetypes.guess_type": "the MIME database of the host (/etc/mime.types, the Windows registry)",
    "mimetypes.guess_extension": "the MIME database of the host",
    "mimetypes.guess_all_extensions": "the MIME database of the host",
    "mimetypes.types_map": "the MIME database of the host",
    "mimetypes.read_mime_types": "a MIME file of the host",
    "locale.getlocale": "the locale of the process", "locale.getpreferredencoding": "the locale of the process", "locale.getdefaultlocale": "the locale of the process",
    "platform.system": "the platform", "platform.node": "the host name", "socket.gethostname": "the host name", "getpass.getuser": "the user", "os.getcwd": "the working directory", "Path.cwd": "the working directory",
    "time.tzname": "the time zone of the host", "time.localtime": "the time zone of the host", "datetime.datetime.now": "the clock", "os.getenv": "the environment",
}


def memoised_host_lookups(ctx: Ctx):
    """(function, decorator, host call) for every memoised function that -- itself or through callees -- consults a host-wide database:
    the memo freezes one state of that database while un-memoised siblings keep following it."""
    from sa.engine.callgraph import reachable_functions

    out = []
    for fi in ctx.p.all_functions():
        if "/tests/" in fi.module.rel:
            continue
        decos = [d for d in fi.node.decorator_list if (dotted(d.func) if isinstance(d, ast.Call) else dotted(d) or "").split(".")[-1] in ("lru_cache", "cache", "cached_property")]
        if not decos:
            continue
        for g in reachable_functions(ctx.p, [fi]).values():
            for c in calls_in(g):
                if (dotted(c.func) or "") in HOST_DATABASES:
                    out.append((fi, decos[0], c, g is fi))
    return out


def rule_host(ctx: Ctx) -> RuleReport:
    """A result is a function of (bytes, path): nothing that is looked up in a database of the host may decide a routing or a field."""
    rep = RuleReport("C06-HOST", "no value looked up in a host-wide database (MIME types of the host, locale, platform, environment) decides a route or reaches a result; "
                     "private tables (mimetypes.MimeTypes() instances, dictionaries of the library) are used instead")
    n = 0
    for fi in ctx.p.all_functions():
        if fi.module.rel.startswith("sharepoint2text/sharepoint_io/") or fi.module.rel == "sharepoint2text/cli.py" or "/tests/" in fi.module.rel:
            continue
        for c in calls_in(fi):
            d = dotted(c.func) or ""
            if d not in HOST_DATABASES:
                continue
            n += 1
            rep.unit(fi.key)
            use = _use_of(fi.node, c)
            if use in ("log", "timing"):
                rep.ok({"site": f"{fi.qual}: {short(c, 40)}", "use": use})
            else:
                rep.fail(Finding("C06-HOST", fi.module.rel, fi.qual, f"{d} decides a result", f"`{short(c, 50)}` consults {HOST_DATABASES[d]}: the same (bytes, path) gives a different route or field on a host whose table differs (an entry 'application/pdf prn' in /etc/mime.types makes 'report.prn' a PDF on that host only)", line=c.lineno))
    indirect = []
    for fi, deco, c, direct in memoised_host_lookups(ctx):
        if not direct:
            # a memo in front of a function that has the (open, recorded) host lookup: a consequence of that finding, counted not judged
            indirect.append(fi.qual)
            continue
        rep.fail(Finding("C06-HOST", fi.module.rel, fi.qual, f"memoised lookup in a host database: {dotted(c.func)}", f"{fi.qual} is memoised (`{short(deco, 30)}`) although its answer depends on `{short(c, 40)}` ({HOST_DATABASES[dotted(c.func)]}): the first answer is kept for the life of the process while the database -- and every function that asks it directly -- moves on", line=fi.node.lineno))
    if indirect:
        rep.info.append("memoised wrappers around functions with a host lookup (follow from the open router finding, not judged separately): " + ", ".join(sorted(set(indirect))))
    # positive: the private tables in use
    for m in ctx.p.modules.values():
        if "/tests/" in m.rel:
            continue
        for name, node in m.assigns.items():
            if isinstance(node, ast.Call) and (dotted(node.func) or "") == "mimetypes.MimeTypes":
                if node.args or node.keywords:
                    rep.fail(Finding("C06-HOST", m.rel, name, "MimeTypes built from host files", f"`{short(node, 60)}` loads MIME files of the host into the table", line=node.lineno))
                else:
                    rep.ok({"private_table": f"{m.rel}::{name}", "built_in_types_only": True})
    return rep


RULES = [rule_order, rule_nondet, rule_pure, rule_input, rule_stream, rule_default, rule_host]
