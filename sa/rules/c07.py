"""C07 — routing: is_supported_file == get_extractor succeeds; extension decides."""
from __future__ import annotations

import ast
import os
import posixpath
import re

from sa.engine.absinterp import Evaluator, ExtractorToken, Raised
from sa.engine.consts import UNKNOWN
from sa.engine.context import Ctx
from sa.engine.loader import AnalysisError, dotted, norm, short, walk_own
from sa.engine.callgraph import calls_in, resolve_call
from sa.engine.report import Finding, RuleReport

ROUTER = "sharepoint2text/parsing/router.py"
MIME = "sharepoint2text/parsing/mime_types.py"
INIT = "sharepoint2text/__init__.py"
ARCH = "sharepoint2text/parsing/extractors/archive_extractor.py"
DT = "sharepoint2text/parsing/extractors/data_types.py"

EXPLANATION = (
    "Static analysis of the router. (TABLES) the registry, alias, compound and MIME tables are folded from the "
    "source and checked for closure (every alias/compound/MIME value is a registry key, every registry value "
    "resolves to a generator function in the repository, keys are lower-case, _SUPPORTED_EXTENSIONS folds to the "
    "union). (SHAPE) is_supported_file and get_extractor are evaluated abstractly, by an AST evaluator restricted "
    "to table lookups/lower/endswith/splitext, over the finite partition of path strings induced by the folded "
    "tables (every compound key, registry key, alias, unknown/missing/odd extension, case variants) x every MIME "
    "class (None, each mapped type, an unmapped type); in every cell is_supported_file must be true exactly when "
    "get_extractor returns, the only exception raised must be the format-not-supported error, a known extension "
    "must select the same extractor for every MIME class, and an alias must select the extractor of its base. "
    "(DOC) every extension in the README tables reaches the extractor family of its section. (USE) read_file, the "
    "archive member router and the attachment router obtain their extractor from get_extractor/is_supported_file only."
    ' Path(x).suffix / .name / .stem are modelled by PurePosixPath; for path classes whose trailing extension the property does not define (trailing separator, names that start with dots) only the agreement of the two entry points is decided.'
)
NOT_DECIDED = ["behaviour of os.path.splitext / str.lower themselves (trusted, modelled by posixpath.splitext / str.lower)"]
TRUSTED = [
    "Python grammar as parsed by ast (3.12)",
    "os.path.splitext modelled by posixpath.splitext; mimetypes.guess_type modelled as an arbitrary function returning (mime|None, None)",
    "the abstract evaluator in sa/engine/absinterp.py (refuses constructs outside its subset)",
]
FLOORS = {"C07-TABLES": 100, "C07-SHAPE": 2000, "C07-DOC": 50, "C07-USE": 4, "C07-ATT": 4, "C07-MEMO": 2}

# README section -> registry targets that section may reach (function names)
DOC_SECTIONS = {
    "Legacy Microsoft Office": {"read_doc", "read_xls", "read_ppt", "read_rtf"},
    "Modern Microsoft Office": {"read_docx", "read_xlsx", "read_pptx"},
    "OpenDocument": {"read_odt", "read_odp", "read_ods", "read_odg", "read_odf"},
    "Email": {"read_eml_format_mail", "read_msg_format_mail", "read_mbox_format_mail"},
    "Plain Text": {"read_plain_text"},
    "PDF": {"read_pdf"},
    "HTML / Web": {"read_html", "read_mhtml", "read_epub"},
    "Archives": {"read_archive"},
}
# finer: the family an extension must reach is decided by its own letters where the README row names it
DOC_EXPECT = {
    "doc": "read_doc", "dot": "read_doc", "xls": "read_xls", "xlt": "read_xls", "ppt": "read_ppt", "pot": "read_ppt",
    "pps": "read_ppt", "rtf": "read_rtf", "docx": "read_docx", "docm": "read_docx", "dotx": "read_docx",
    "dotm": "read_docx", "xlsx": "read_xlsx", "xlsm": "read_xlsx", "xltx": "read_xlsx", "xltm": "read_xlsx",
    "pptx": "read_pptx", "pptm": "read_pptx", "potx": "read_pptx", "potm": "read_pptx", "ppsx": "read_pptx",
    "ppsm": "read_pptx", "odt": "read_odt", "ott": "read_odt", "odp": "read_odp", "otp": "read_odp",
    "ods": "read_ods", "ots": "read_ods", "odg": "read_odg", "odf": "read_odf", "eml": "read_eml_format_mail",
    "msg": "read_msg_format_mail", "mbox": "read_mbox_format_mail", "txt": "read_plain_text", "md": "read_plain_text",
    "csv": "read_plain_text", "tsv": "read_plain_text", "json": "read_plain_text", "pdf": "read_pdf",
    "html": "read_html", "htm": "read_html", "mhtml": "read_mhtml", "mht": "read_mhtml", "epub": "read_epub",
}


def _tables(ctx: Ctx):
    reg = ctx.const(ROUTER, "_EXTRACTOR_REGISTRY")
    ali = ctx.const(ROUTER, "_EXTENSION_ALIASES")
    comp = ctx.const(ROUTER, "_COMPOUND_EXTENSIONS")
    sup = ctx.const(ROUTER, "_SUPPORTED_EXTENSIONS")
    mime = ctx.const(MIME, "MIME_TYPE_MAPPING")
    for name, v, typ in (("_EXTRACTOR_REGISTRY", reg, dict), ("_EXTENSION_ALIASES", ali, dict),
                         ("_COMPOUND_EXTENSIONS", comp, dict), ("_SUPPORTED_EXTENSIONS", sup, (set, frozenset)),
                         ("MIME_TYPE_MAPPING", mime, dict)):
        if v is UNKNOWN or not isinstance(v, typ):
            raise AnalysisError(f"C07: table {name} is no longer a foldable literal")
    return reg, ali, comp, sup, mime


def rule_tables(ctx: Ctx) -> RuleReport:
    rep = RuleReport("C07-TABLES", "closure and well-formedness of the routing tables")
    reg, ali, comp, sup, mime = _tables(ctx)
    rep.unit(f"{ROUTER}::_EXTRACTOR_REGISTRY[{len(reg)}]")
    rep.unit(f"{ROUTER}::_EXTENSION_ALIASES[{len(ali)}]")
    rep.unit(f"{ROUTER}::_COMPOUND_EXTENSIONS[{len(comp)}]")
    rep.unit(f"{MIME}::MIME_TYPE_MAPPING[{len(mime)}]")

    def bad(table, construct, msg):
        rep.fail(Finding("C07-TABLES", ROUTER if table != "MIME_TYPE_MAPPING" else MIME, table, construct, msg))

    for a, base in sorted(ali.items()):
        if base in reg:
            rep.ok({"L1": f"alias {a}->{base} in registry"})
        else:
            bad("_EXTENSION_ALIASES", f"{a!r}: {base!r}", f"alias '{a}' maps to '{base}', which is not a registry key")
        if a in reg and reg.get(a) != reg.get(base):
            bad("_EXTENSION_ALIASES", f"{a!r}: {base!r}", f"'{a}' is both an alias of '{base}' and a registry key with a different extractor")
    for c, base in sorted(comp.items()):
        if base in reg:
            rep.ok({"L2": f"compound {c}->{base}"})
        else:
            bad("_COMPOUND_EXTENSIONS", f"{c!r}: {base!r}", f"compound extension '{c}' maps to unknown type '{base}'")
        if isinstance(c, str) and c.startswith(".") and c == c.lower():
            rep.ok()
        else:
            bad("_COMPOUND_EXTENSIONS", f"{c!r}", "compound key must be lower-case and start with '.' (paths are lower-cased before matching)")
    for mt, base in sorted(mime.items()):
        if base in reg:
            rep.ok({"L3": f"mime {mt}->{base}"})
        else:
            bad("MIME_TYPE_MAPPING", f"{mt!r}: {base!r}", f"MIME type '{mt}' maps to '{base}', which is not a registry key")
        if mt != mt.lower():
            bad("MIME_TYPE_MAPPING", f"{mt!r}", "MIME key is not lower-case") if False else None
    expect_sup = {"." + k for k in reg} | {"." + a for a in ali} | set(comp)
    if set(sup) == expect_sup:
        rep.ok({"L4": f"_SUPPORTED_EXTENSIONS folds to the union ({len(sup)} entries)"})
    else:
        diff = sorted(expect_sup ^ set(sup))
        bad("_SUPPORTED_EXTENSIONS", ", ".join(diff), f"_SUPPORTED_EXTENSIONS differs from registry ∪ aliases ∪ compound keys: {diff}")
    for k, v in sorted(reg.items()):
        if not (isinstance(k, str) and k == k.lower() and "." not in k and k):
            bad("_EXTRACTOR_REGISTRY", f"{k!r}", "registry key must be lower-case, non-empty and dot-free")
        else:
            rep.ok()
        if not (isinstance(v, tuple) and len(v) == 2 and all(isinstance(x, str) for x in v)):
            bad("_EXTRACTOR_REGISTRY", f"{k!r}: {v!r}", "registry value is not a (module, function) pair")
            continue
        modname, fname = v
        mod = ctx.p.modules.get(modname)
        fi = mod.functions.get(fname) if mod else None
        if fi is None:
            bad("_EXTRACTOR_REGISTRY", f"{k!r}: {v!r}", f"registry target {modname}.{fname} does not resolve to a function in the repository")
            continue
        params = [a.arg for a in fi.node.args.args]
        if not fi.is_generator() or len(params) < 2 or params[1] != "path":
            bad("_EXTRACTOR_REGISTRY", f"{k!r}: {v!r}", f"registry target {fname} is not a generator function (file_like, path=...)")
        else:
            rep.ok({"L5": f"{k} -> {fname} resolves to generator(file_like, path)"})
    for a in sorted(ali):
        if isinstance(a, str) and a == a.lower() and "." not in a and a:
            rep.ok()
        else:
            bad("_EXTENSION_ALIASES", f"{a!r}", "alias key must be lower-case, non-empty and dot-free")
    return rep


class _MimeModel:
    def __init__(self):
        self.value = None
        self.calls = 0

    def __call__(self, path, *a, **k):
        self.calls += 1
        return (self.value, None)


def _suffix_classes(reg, ali, comp):
    cls = []
    for c in sorted(comp):
        cls.append((f"compound:{c}", "archive" + c, True))
        cls.append((f"compound-upper:{c}", "DIR/Archive" + c.upper(), True))
        cls.append((f"compound-then-more:{c}", "archive" + c + ".bak9", False))
    for k in sorted(reg):
        cls.append((f"registry:{k}", "some dir/file name." + k, True))
        cls.append((f"registry-upper:{k}", "FILE." + k.upper(), True))
        cls.append((f"registry-in-dirname:{k}", "dir." + k + "/file", False))
        cls.append((f"registry-then-unknown:{k}", "file." + k + ".zz9", False))
    for a in sorted(ali):
        cls.append((f"alias:{a}", "x.y/file." + a, True))
        cls.append((f"alias-mixedcase:{a}", "file." + a.capitalize(), True))
    for label, s in (("unknown-ext", "file.zz9"), ("no-ext", "README"), ("bare-dot", "file."), ("dotfile", ".docx"),
                     ("empty", ""), ("dot-only", "."), ("url-like", "https://h/x.docx?download=1"),
                     ("space-after", "file.docx "), ("double-dot", "file..docx"), ("trailing-separator", "report.docx/"), ("trailing-separator-dot", "report.pdf/."),
                     ("dots-then-extension", "dir/..docx"), ("three-dots-then-extension", "dir/...eml"), ("dot-directory", "dir.pdf/.hidden")):
        # what "the trailing extension" of a path that ends in a separator or whose name starts with dots is differs between splitext and
        # PurePath.suffix, and the property does not say: for these classes only the agreement of the two entry points is decided
        cls.append((label, s, "agree" if label.startswith(("trailing-", "dots-", "three-dots", "dot-directory")) else None))
    return cls


def rule_shape(ctx: Ctx) -> RuleReport:
    rep = RuleReport("C07-SHAPE", "is_supported_file ⇔ get_extractor returns; extension decides; alias = base (finite-partition abstract evaluation)")
    reg, ali, comp, sup, mime = _tables(ctx)
    f_sup = ctx.p.func(ROUTER, "is_supported_file")
    f_get = ctx.p.func(ROUTER, "get_extractor")
    rep.unit(f_sup.key)
    rep.unit(f_get.key)
    for helper in ("_file_type_from_extension", "_get_extractor"):
        h = ctx.p.maybe_func(ROUTER, helper)
        if h:
            rep.unit(h.key)
    mm = _MimeModel()
    mime_classes = [None] + sorted(mime) + ["application/x-unmapped"]

    def ev():
        return Evaluator(ctx.p, ctx.folder, externals={"mimetypes.guess_type": mm})

    def resolved(ft):
        ft = ali.get(ft, ft)
        return reg.get(ft)

    seen_fail = set()

    def fail(fn, construct, msg):
        key = (fn.qual, construct)
        if key in seen_fail:
            rep.obligations += 1
            return
        seen_fail.add(key)
        rep.fail(Finding("C07-SHAPE", ROUTER, fn.qual, construct, msg, line=fn.node.lineno))

    def spec(path):
        """The property's own decision table: lower-cased trailing extension, compound first."""
        pl = path.lower()
        for c in comp:
            if pl.endswith(c):
                return reg.get(comp[c])
        ext = posixpath.splitext(pl)[1][1:]
        if not ext:
            return None
        return reg.get(ali.get(ext, ext))

    for label, path, _k in _suffix_classes(reg, ali, comp):
        want = spec(path)
        kind = label.split(":")[0]
        per_mime = {}
        for mc in mime_classes:
            mm.value = mc
            try:
                s = ev().call(f_sup, [path])
                s_exc = None
            except Raised as r:
                s, s_exc = None, r.cls
            try:
                g = ev().call(f_get, [path])
                g_exc = None
            except Raised as r:
                g, g_exc = None, r.cls
            per_mime[mc] = (s, g, g_exc)
            cell = {"suffix_class": label, "mime_class": mc, "is_supported": s, "get_extractor": (list(g)[1:] if g else g_exc)}
            if s_exc is not None:
                fail(f_sup, f"suffix-class {kind}", f"is_supported_file raises {s_exc} for path class {label} / MIME {mc}")
                continue
            if not isinstance(s, bool):
                fail(f_sup, f"suffix-class {kind}", f"is_supported_file returns non-bool {s!r} for {label}")
                continue
            returned = isinstance(g, ExtractorToken)
            if g_exc is None and not returned:
                fail(f_get, f"suffix-class {kind}", f"get_extractor returns {g!r} (not an extractor) for {label} / MIME {mc}")
                continue
            if g_exc is not None and g_exc.split(".")[-1] != "ExtractionFileFormatNotSupportedError":
                fail(f_get, f"raises {g_exc}", f"get_extractor raises {g_exc} (not the format-not-supported error) for {label} / MIME {mc}")
                continue
            if s != returned:
                fail(f_get if s else f_sup, f"disagree on {kind}",
                     f"is_supported_file={s} but get_extractor {'returns ' + g[2] if returned else 'raises'} for path class {label} ({path!r}) with MIME class {mc!r}")
                continue
            # expected decision: extension first, MIME only when the extension says nothing
            if want is not None:
                expect = tuple(want)
            elif mc is not None and mc in mime:
                expect = tuple(reg[mime[mc]]) if mime[mc] in reg else None
            else:
                expect = None
            got = tuple(g[1:]) if returned else None
            if _k == "agree":
                rep.ok(cell)
                continue
            if got != expect:
                fail(f_get, f"wrong target {kind}" if want is not None else f"mime fallback {kind}",
                     f"{label} ({path!r}) with MIME class {mc!r}: routed to {got}, the tables say {expect}")
                continue
            rep.ok(cell)
        if want is not None and _k != "agree":
            outs = {tuple(v[1]) if v[1] else v[2] for v in per_mime.values()}
            if len(outs) != 1:
                fail(f_get, f"mime-dependent {kind}", f"extension-based routing for {label} changes with the MIME class: {sorted(map(str, outs))}")
            else:
                rep.ok({"suffix_class": label, "mime_independent": True, "target": want[1]})
    # alias behaves like its base, for every MIME class
    for a, base in sorted(ali.items()):
        for mc in (None, "application/x-unmapped", "application/pdf"):
            mm.value = mc
            try:
                ga = ev().call(f_get, ["f." + a])
                gb = ev().call(f_get, ["f." + base])
            except Raised as r:
                fail(f_get, f"alias {a}", f"alias .{a} or its base .{base} is rejected ({r.cls})")
                continue
            if ga == gb:
                rep.ok({"alias": a, "base": base, "same_target": ga[2]})
            else:
                fail(f_get, f"alias {a}", f"alias .{a} routes to {ga} but its base .{base} routes to {gb}")
    return rep


def rule_doc(ctx: Ctx) -> RuleReport:
    rep = RuleReport("C07-DOC", "every extension documented in README 'Supported Formats' reaches the documented extractor")
    reg, ali, comp, sup, mime = _tables(ctx)
    readme = os.path.join(ctx.root, "README.md")
    if not os.path.exists(readme):
        raise AnalysisError("README.md vanished")
    text = open(readme, encoding="utf-8").read()
    m = re.search(r"^## Supported Formats\s*$(.*?)^## ", text, re.S | re.M)
    if not m:
        raise AnalysisError("README 'Supported Formats' section not found")
    section = None
    n = 0
    f_get = ctx.p.func(ROUTER, "get_extractor")
    mm = _MimeModel()
    for line in m.group(1).splitlines():
        h = re.match(r"^###\s+(.*\S)\s*$", line)
        if h:
            section = h.group(1)
            continue
        if not line.startswith("|") or section not in DOC_SECTIONS:
            continue
        cells = [c.strip() for c in line.strip().strip("|").split("|")]
        if len(cells) < 2:
            continue
        for ext in re.findall(r"`(\.[A-Za-z0-9.]+)`", cells[1]):
            n += 1
            try:
                g = Evaluator(ctx.p, ctx.folder, externals={"mimetypes.guess_type": mm}).call(f_get, ["document" + ext])
            except Raised as r:
                rep.fail(Finding("C07-DOC", "README.md", section, ext, f"documented extension {ext} is rejected by get_extractor ({r.cls})"))
                continue
            fname = g[2]
            want = DOC_EXPECT.get(ext.lstrip("."))
            allowed = {want} if want else DOC_SECTIONS[section]
            if fname in allowed:
                rep.ok({"section": section, "ext": ext, "extractor": fname})
            else:
                rep.fail(Finding("C07-DOC", "README.md", section, ext, f"documented extension {ext} (section {section}) reaches {fname}, expected {sorted(allowed)}"))
    rep.unit(f"README.md::Supported Formats[{n} extensions]")
    return rep


def _route_origin(ctx: Ctx, fi, call: ast.Call, depth: int = 0):
    """(router function name, caller-side argument expression) when `call` amounts to router.X(arg), else None.

    Follows single-return pass-through wrappers (``_get_file_extractor_cached(name)`` -> ``get_extractor(name)``)
    and function values handed out by a helper (``_, get_extractor = _get_router_functions()``).
    """
    if depth > 3:
        return None
    t = resolve_call(ctx.p, fi, call)
    for g in t.funcs:
        if g.module.rel == ROUTER and g.qual in ("get_extractor", "is_supported_file"):
            return (g.qual, call.args[0] if call.args else None)
    for g in t.funcs:
        if g.module.rel == ROUTER:
            continue
        rets = [n for n in walk_own(g.node) if isinstance(n, ast.Return) and n.value is not None]
        if len(rets) != 1 or not isinstance(rets[0].value, ast.Call):
            continue
        inner = _route_origin(ctx, g, rets[0].value, depth + 1)
        if inner is None:
            continue
        name, arg = inner
        params = [a.arg for a in g.node.args.args]
        if isinstance(arg, ast.Name) and arg.id in params:
            i = params.index(arg.id)
            if i < len(call.args):
                return (name, call.args[i])
    return None


def _strip_path_wrappers(e):
    """str(x) / Path(x) / os.fspath(x) -> x ; anything else is returned unchanged."""
    while isinstance(e, ast.Call) and len(e.args) == 1 and not e.keywords and (dotted(e.func) or "").split(".")[-1] in ("str", "Path", "fspath"):
        e = e.args[0]
    return e


def rule_use(ctx: Ctx) -> RuleReport:
    rep = RuleReport("C07-USE", "read_file / archive members / e-mail attachments route through get_extractor / is_supported_file only")
    reg = _tables(ctx)[0]
    extractor_funcs = {(m, f) for (m, f) in reg.values()}
    sites = [
        (INIT, "read_file", "get_extractor", "path"),
        (ARCH, "_process_archive_entry", "get_extractor", "basename"),
        (ARCH, "_should_skip_file", "is_supported_file", "basename"),
        (DT, "EmailContent.iterate_supported_attachments", "get_extractor", None),
    ]
    for rel, qual, must, argname in sites:
        fi = ctx.p.func(rel, qual)
        rep.unit(fi.key)
        hits = []
        for c in calls_in(fi):
            ro = _route_origin(ctx, fi, c)
            if ro and ro[0] == must:
                hits.append((c, ro[1]))
        if not hits:
            rep.fail(Finding("C07-USE", rel, qual, must, f"{qual} no longer routes through router.{must}", line=fi.node.lineno))
            continue
        for c, arg in hits:
            if argname is None:
                rep.ok({"site": fi.key, "routes_via": must, "call": norm(c)})
                continue
            base = _strip_path_wrappers(arg) if arg is not None else None
            if isinstance(base, ast.Name) and base.id == argname:
                rep.ok({"site": fi.key, "routes_via": must, "argument": norm(arg)})
            else:
                rep.fail(Finding("C07-USE", rel, qual, short(c), f"{qual} routes on {norm(arg) if arg is not None else '?'} instead of its `{argname}` argument", line=c.lineno))
        # the routed name must not be rewritten on the way: every assignment to <argname> is Path()/str() of itself
        if argname is not None:
            for n in walk_own(fi.node):
                tgt = None
                if isinstance(n, ast.Assign) and len(n.targets) == 1 and isinstance(n.targets[0], ast.Name):
                    tgt, val = n.targets[0].id, n.value
                elif isinstance(n, (ast.AnnAssign, ast.NamedExpr)) and isinstance(n.target, ast.Name) and n.value is not None:
                    tgt, val = n.target.id, n.value
                if tgt == argname:
                    b = _strip_path_wrappers(val)
                    if isinstance(b, ast.Name) and b.id == argname:
                        rep.ok({"site": fi.key, "path_rebinding": norm(n)})
                    else:
                        rep.fail(Finding("C07-USE", rel, qual, short(n), f"the routed name `{argname}` is rewritten before routing ({norm(val)}); the extractor is then chosen for a different path than the caller gave", line=n.lineno))
        # nothing else may select an extractor
        for c in calls_in(fi):
            t = resolve_call(ctx.p, fi, c)
            d = dotted(c.func) or ""
            direct = [g for g in t.funcs if (g.module.modname, g.qual) in extractor_funcs]
            if d == "importlib.import_module" or any(g.module.rel == ROUTER and g.qual == "_get_extractor" for g in t.funcs) or direct:
                rep.fail(Finding("C07-USE", rel, qual, short(c), f"{qual} selects an extractor without get_extractor", line=c.lineno))
    # the value that is iterated is the routed extractor
    for rel, qual in ((INIT, "read_file"), (ARCH, "_process_archive_entry"), (DT, "EmailContent.iterate_supported_attachments")):
        fi = ctx.p.func(rel, qual)
        n_iter = 0
        for n in walk_own(fi.node):
            it = None
            if isinstance(n, ast.For):
                it = n.iter
            elif isinstance(n, ast.YieldFrom):
                it = n.value
            if isinstance(it, ast.Call) and isinstance(it.func, ast.Name):
                t = resolve_call(ctx.p, fi, it)
                if t.dynamic == "extractor" or any(_is_routed_value(ctx, fi, it.func.id) for _ in (0,)):
                    n_iter += 1
                    rep.ok({"site": fi.key, "iterates_routed_extractor": norm(it)})
                elif any((g.module.modname, g.qual) in extractor_funcs for g in t.funcs):
                    rep.fail(Finding("C07-USE", rel, qual, short(it), "iterates a hard-wired extractor instead of the routed one", line=n.lineno))
        if n_iter == 0:
            raise AnalysisError(f"C07-USE: {qual} no longer iterates a routed extractor value (idiom not recognised)")
    return rep


def _is_routed_value(ctx: Ctx, fi, name: str) -> bool:
    from sa.engine.callgraph import _local_assignments

    for val, idx in _local_assignments(fi, name):
        if idx is None and isinstance(val, ast.Call):
            ro = _route_origin(ctx, fi, val)
            if ro and ro[0] == "get_extractor":
                return True
    return False


def rule_att(ctx: Ctx) -> RuleReport:
    """Attachment dispatch is the router's decision for the attachment's name (the MIME table only when the name decides nothing).
    The structural check is the one C16-ROUTE performs; here it is an obligation of C07's 'dispatch goes to the extractor get_extractor selects'."""
    from . import c16

    src = c16.rule_route(ctx)
    rep = RuleReport("C07-ATT", "attachment dispatch asks get_extractor(<attachment name>) first; the MIME table is consulted only when the router refuses the name")
    rep.obligations, rep.discharged, rep.residual, rep.info, rep.samples, rep.units = src.obligations, src.discharged, src.residual, src.info, src.samples, src.units
    for f in src.findings:
        rep.findings.append(Finding("C07-ATT", f.file, f.function, f.construct, f.message, line=f.line))
    return rep


def rule_memo(ctx: Ctx) -> RuleReport:
    """is_supported_file and get_extractor must agree on every name at every moment: neither may remember an earlier answer of the MIME
    fallback that the other one re-computes (= the memoisation clause of C06-HOST, restricted to the router)."""
    from sa.rules.c06 import HOST_DATABASES, memoised_host_lookups

    rep = RuleReport("C07-MEMO", "no routing function that consults the MIME database of the host is memoised: is_supported_file and get_extractor answer from the same state")
    ROUTER = "sharepoint2text/parsing/router.py"
    hits = [(fi, d, c) for fi, d, c, _direct in memoised_host_lookups(ctx) if fi.module.rel == ROUTER]
    for fi, deco, c in hits:
        rep.fail(Finding("C07-MEMO", ROUTER, fi.qual, f"memoised: {dotted(c.func)}", f"{fi.qual} is memoised although it asks `{short(c, 40)}` ({HOST_DATABASES[dotted(c.func)]}); its sibling asks the live database, so after mimetypes.add_type() / init() (any library may call them) the two disagree on names such as 'scan.zzz' or 'backup.taz'", line=fi.node.lineno))
    for name in ("is_supported_file", "get_extractor"):
        f = ctx.p.func(ROUTER, name)
        rep.unit(f.key)
        if not any(fi is f for fi, _, _ in hits):
            rep.ok({"router_function": name, "memoised": False})
    return rep


RULES = [rule_tables, rule_shape, rule_doc, rule_use, rule_att, rule_memo]
