"""C13 — tables come back with their shape and every cell in place (the structural part)."""
from __future__ import annotations

import ast

from sa.engine.absinterp import Evaluator  # noqa: F401  (kept for the partition evaluation below)
from sa.engine.cfg import normally_dominates
from sa.engine.context import Ctx
from sa.engine.loader import AnalysisError, dotted, norm, short, walk_own, is_noise
from sa.engine.callgraph import calls_in, resolve_call
from sa.engine.loader import anorm
from sa.engine.report import Finding, RuleReport
from sa.rules.c02 import run_walk
from sa.rules.common import DT, X, implementers
from sa.schemas import docx as s_docx
from sa.schemas import html as s_html
from sa.schemas import odf_misc as s_odf
from sa.schemas import odt as s_odt
from sa.schemas import pptx as s_pptx

EXPLANATION = (
    "That cell (i,j) holds the value of source cell (i,j) is value level and not decided as a whole. Decided: (WALK) the table "
    "walkers of docx, odt, odp, pptx and html are abstracted to their traversal skeleton and explored against the format's tree "
    "grammar (see C02-WALK): for every document the grammar generates, every cell element is enumerated exactly once (a row "
    "wrapped in a content control or a header-rows group is not lost, a cell of a nested table is not also counted as a cell of "
    "the outer grid), and inside a cell every visible character-data position is read exactly once and comments never. (KEY) "
    "no table class rebuilds its grid from dictionaries keyed by document text (duplicate or empty header names collide). "
    "(TRIM) the emptiness predicate that trims trailing rows and columns of a worksheet is evaluated over the partition of cell "
    "values its own tests induce (None / empty / blank / non-blank string / zero / non-zero number / False / True): only None and "
    "blank strings are empty. (SPINE) chapters (and with them their tables) are dropped from the EPUB spine only when the "
    "itemref cannot be resolved. (DIM) = C04-DIM, (VIEW) = C14-VIEW: get_dim() is the shape of get_table(); unit tables and "
    "iterate_tables() are built from the same fields."
    " (GRID) implicit grid positions are made explicit: the DOCX table reader pads rows for w:gridSpan / w:gridBefore / w:gridAfter; the XLSX reader calls reset_dimensions() on every path to iter_rows(), so a stale <dimension> element cannot clip the sheet."
    " (STACK) in the HTML tree builder an element leaves the open-element stack only under a condition that relates the tag's name to the stack; the start tags of td / th / tr close an open cell / row through a table (optional end tags); parsers that keep the table being read in flat attributes save them when a table starts inside a table. (CHUNK) the pieces of character data html.parser delivers are joined with the empty string, and breaks of block boundaries are routed into an open cell. (TAIL) element tails are emitted whenever they are non-empty. (RTF) one table row per \\\\row, and the break between two tables does not depend on the length of what separates them (3 open findings: the pinned suite asserts the table count the two defects produce)."
)
NOT_DECIDED = [
    "the value in a cell (numbers, dates, formula results: value level)",
    "EPUB and RTF tables beyond the clauses STACK / CHUNK / RTF (cell values, merged cells)",
    "ragged rows and merged cells (grid geometry is value level)",
    "order of tables in the output", "index arithmetic of the trimming code (which column index is recorded as the last data column)"]
TRUSTED = ["the tree grammars in sa/schemas", "ElementTree axis semantics", "openpyxl iter_rows(values_only=True) yields every cell of the used range"]
FLOORS = {"C13-RTF": 1, "C13-CHUNK": 2, "C13-STACK": 1, "C13-TAIL": 3, "C13-GRID": 4, "C13-ROWS": 4, "C13-ODS": 2, "C13-WALK": 60, "C13-KEY": 5, "C13-TRIM": 8, "C13-SPINE": 2, "C13-DIM": 5, "C13-VIEW": 5}

W = s_docx.NS["w"]
TABLE_WALKS = [
    # label, module, entry, node name, schema, sinks to ignore, caller, cell kind(s), cell tag, region kinds
    ("docx", X + "ms_modern/docx_extractor.py", "_extract_tables_from_context", ("attr", "document_body"), s_docx.table_schema, frozenset(), "read_docx", {"tc"}, "{%s}tc" % W, {"tc"}),
    ("odt", X + "open_office/odt_extractor.py", "_extract_tables", "body", s_odt.body_schema, frozenset(), "read_odt", {"tcell"}, "{%s}table-cell" % s_odt.NS["table"], {"tcell"}),
    ("odp", X + "open_office/odp_extractor.py", "_extract_table", "table_elem", s_odf.odp_table, frozenset(), "read_odp", {"tcell"}, "{%s}table-cell" % s_odf.NS["table"], {"tcell"}),
    ("pptx", X + "ms_modern/pptx_extractor.py", "_extract_table_from_graphic_frame", "elem", s_pptx.graphic_frame, frozenset(), "read_pptx", {"tc"}, "{%s}tc" % s_pptx.NS["a"], {"tc"}),
]


def rule_walk(ctx: Ctx) -> RuleReport:
    rep = RuleReport("C13-WALK", "every cell element is enumerated exactly once and its character data read exactly once (comments never)")
    for (label, rel, entry, param, schema_fn, skip, caller, cell_kinds, cell_tag, region) in TABLE_WALKS:
        run_walk(ctx, rep, "C13-WALK", label, rel, entry, param, schema_fn, skip, caller,
                 marks={"cell": set(cell_kinds)}, mark_tags={cell_tag: "cell"}, region=frozenset(region), local_root=True)
    # HTML: the dict-tree walker; cells are td and th
    run_walk(ctx, rep, "C13-WALK", "html", X + "html_extractor.py", "_HtmlTextExtractor._process_node", "node", s_html.body_schema, frozenset(), "read_html",
             marks={"cell": {"td", "th"}}, mark_tags={"td": "cell", "th": "cell"}, region=frozenset({"td", "th"}), dict_nodes=True)
    return rep


# ------------------------------------------------------------------------------------------------ KEY

def rule_key(ctx: Ctx) -> RuleReport:
    rep = RuleReport("C13-KEY", "no table grid is rebuilt from dictionaries keyed by document text")
    impls = implementers(ctx, "TableInterface")
    if len(impls) < 5:
        raise AnalysisError(f"C13-KEY: only {len(impls)} TableInterface classes (5 confirmed)")
    for ci in impls:
        m = ctx.p.find_method(ci, "get_table")
        if m is None:
            raise AnalysisError(f"C13-KEY: {ci.name} has no get_table")
        rep.unit(m.key)
        bad = None
        for n in walk_own(m.node):
            if isinstance(n, ast.Call) and isinstance(n.func, ast.Attribute) and n.func.attr in ("keys", "values", "items", "get") and not (n.func.attr == "get" and isinstance(n.func.value, ast.Name) and n.func.value.id == "self"):
                bad = n
                break
        dict_fields = [f for f, (ann, _d) in ci.fields.items() if ann is not None and "Dict" in norm(ann) or (ann is not None and "dict[" in norm(ann))]
        if bad is not None and dict_fields:
            rep.fail(Finding("C13-KEY", DT, f"{ci.name}.get_table", f"grid rebuilt from dict keys of {', '.join(dict_fields)}",
                             f"{ci.name}.get_table() rebuilds the grid from dictionaries keyed by header text ({short(bad)}): two columns with the same (or an empty) header collapse into one, and a sheet with only a header row has no table",
                             line=m.node.lineno))
        else:
            rep.ok({"class": ci.name, "get_table": short(m.node.body[-1], 80)})
    # extractor side: a grid row is never taken from the values of a dictionary keyed by document text
    # the functions that turn worksheet rows into the grid (property anchors)
    SHEETS = [(X + "ms_modern/xlsx_extractor.py", "_read_sheet_data"), (X + "ms_legacy/xls_extractor.py", "_read_content"), (X + "open_office/ods_extractor.py", "_extract_sheet")]
    n_dicts = 0
    for rel, q in SHEETS:
        f0 = ctx.p.maybe_func(rel, q)
        if f0 is None:
            raise AnalysisError(f"C13-KEY: sheet reader {rel}::{q} vanished")
        for fi in [f0]:
            # local dicts whose keys are not constants: {headers[i]: ..} / d[header] = ..
            keyed = set()
            for n in walk_own(fi.node):
                if isinstance(n, (ast.Assign, ast.AnnAssign)):
                    tgt = n.targets[0] if isinstance(n, ast.Assign) and len(n.targets) == 1 else getattr(n, "target", None)
                    val = n.value
                    if isinstance(tgt, ast.Name) and isinstance(val, ast.DictComp) and not isinstance(val.key, ast.Constant):
                        keyed.add(tgt.id)
                    if isinstance(tgt, ast.Subscript) and isinstance(tgt.value, ast.Name) and not isinstance(tgt.slice, ast.Constant):
                        # d[k] = v with a computed key; only dict-typed locals (initialised {} / dict())
                        keyed.add(tgt.value.id)
            dict_locals = {n.targets[0].id for n in walk_own(fi.node) if isinstance(n, ast.Assign) and len(n.targets) == 1 and isinstance(n.targets[0], ast.Name) and isinstance(n.value, (ast.Dict, ast.DictComp))}
            dict_locals |= {n.target.id for n in walk_own(fi.node) if isinstance(n, ast.AnnAssign) and isinstance(n.target, ast.Name) and isinstance(n.value, (ast.Dict, ast.DictComp))}
            keyed &= dict_locals
            if not keyed:
                continue
            n_dicts += len(keyed)
            rep.unit(fi.key)
            bad = [n for n in walk_own(fi.node) if isinstance(n, ast.Call) and isinstance(n.func, ast.Attribute) and n.func.attr in ("values", "items", "keys") and isinstance(n.func.value, ast.Name) and n.func.value.id in keyed]
            if bad:
                rep.fail(Finding("C13-KEY", rel, fi.qual, short(bad[0], 60), f"a grid row is rebuilt from `{short(bad[0], 40)}` of a dictionary keyed by header text: two columns with the same (or an empty) header collapse, the row comes back shorter and shifted", line=bad[0].lineno))
            else:
                rep.ok({"fn": fi.qual, "header_keyed_dicts": sorted(keyed), "used_as": "records only"})
    if n_dicts < 2:
        raise AnalysisError(f"C13-KEY: only {n_dicts} header-keyed row dictionaries found in the sheet extractors (2 confirmed: xlsx record, xls row_dict)")
    return rep


# ------------------------------------------------------------------------------------------------ TRIM

XLSX = X + "ms_modern/xlsx_extractor.py"
# the partition of cell values induced by the tests such a predicate can make (is None / isinstance str / strip / truthiness)
PARTITION = [
    ("None", None, False), ("empty string", "", False), ("blank string", "  ", False), ("non-blank string", "x", True),
    ("zero int", 0, True), ("non-zero int", 7, True), ("zero float", 0.0, True), ("non-zero float", 1.5, True),
    ("False", False, True), ("True", True, True),
]


class _Undecided(Exception):
    pass


def _peval(e: ast.AST, env: dict):
    """Evaluate a predicate expression over one representative of a value class (total on the operators listed)."""
    if isinstance(e, ast.Constant):
        return e.value
    if isinstance(e, ast.Name):
        if e.id in env:
            return env[e.id]
        if e.id in ("str", "int", "float", "bool"):
            return {"str": str, "int": int, "float": float, "bool": bool}[e.id]
        raise _Undecided(e.id)
    if isinstance(e, ast.BoolOp):
        if isinstance(e.op, ast.And):
            v = True
            for x in e.values:
                v = _peval(x, env)
                if not v:
                    return v
            return v
        v = False
        for x in e.values:
            v = _peval(x, env)
            if v:
                return v
        return v
    if isinstance(e, ast.UnaryOp) and isinstance(e.op, ast.Not):
        return not _peval(e.operand, env)
    if isinstance(e, ast.Compare) and len(e.ops) == 1:
        a, b = _peval(e.left, env), _peval(e.comparators[0], env)
        op = e.ops[0]
        if isinstance(op, ast.Is):
            return a is b
        if isinstance(op, ast.IsNot):
            return a is not b
        if isinstance(op, ast.Eq):
            return a == b
        if isinstance(op, ast.NotEq):
            return a != b
        raise _Undecided(norm(e))
    if isinstance(e, ast.Call):
        f = e.func
        if isinstance(f, ast.Name) and f.id == "isinstance" and len(e.args) == 2:
            t = _peval(e.args[1], env) if not isinstance(e.args[1], ast.Tuple) else tuple(_peval(x, env) for x in e.args[1].elts)
            return isinstance(_peval(e.args[0], env), t)
        if isinstance(f, ast.Name) and f.id == "bool" and len(e.args) == 1:
            return bool(_peval(e.args[0], env))
        if isinstance(f, ast.Name) and f.id == "len" and len(e.args) == 1:
            return len(_peval(e.args[0], env))
        if isinstance(f, ast.Attribute) and f.attr in ("strip", "lstrip", "rstrip") and not e.args:
            v = _peval(f.value, env)
            if isinstance(v, str):
                return getattr(v, f.attr)()
            raise _Undecided("strip of non-str")
        raise _Undecided(norm(e))
    if isinstance(e, ast.IfExp):
        return _peval(e.body, env) if _peval(e.test, env) else _peval(e.orelse, env)
    raise _Undecided(norm(e))


def _run_predicate(fn: ast.FunctionDef, value):
    env = {fn.args.args[0].arg: value}

    def block(stmts):
        for s in stmts:
            if is_noise(s):
                continue
            if isinstance(s, ast.Return):
                return ("ret", _peval(s.value, env) if s.value is not None else None)
            if isinstance(s, ast.If):
                r = block(s.body if _peval(s.test, env) else s.orelse)
                if r is not None:
                    return r
                continue
            if isinstance(s, ast.Assign) and len(s.targets) == 1 and isinstance(s.targets[0], ast.Name):
                env[s.targets[0].id] = _peval(s.value, env)
                continue
            raise _Undecided(norm(s))
        return None

    r = block(fn.body)
    return None if r is None else r[1]


def rule_trim(ctx: Ctx) -> RuleReport:
    rep = RuleReport("C13-TRIM", "worksheet trimming treats only None and blank strings as empty (0, 0.0 and False are data)")
    fi = ctx.p.maybe_func(XLSX, "_is_cell_non_empty")
    if fi is None:
        raise AnalysisError("C13-TRIM: xlsx _is_cell_non_empty vanished")
    users = [g for g in ctx.p.module(XLSX).functions.values() if any(isinstance(n, ast.Call) and isinstance(n.func, ast.Name) and n.func.id == "_is_cell_non_empty" for n in walk_own(g.node))]
    if len(users) < 2:
        raise AnalysisError("C13-TRIM: the trimming helpers no longer use _is_cell_non_empty (the emptiness test moved)")
    rep.unit(fi.key)
    for (label, value, want) in PARTITION:
        try:
            got = bool(_run_predicate(fi.node, value))
        except _Undecided as exc:
            raise AnalysisError(f"C13-TRIM: predicate uses a construct outside the partition evaluator: {exc}")
        if got == want:
            rep.ok({"value class": label, "non_empty": got})
        else:
            rep.fail(Finding("C13-TRIM", XLSX, fi.qual, f"{label} -> non_empty={got}",
                             f"_is_cell_non_empty classifies {label} as {'data' if got else 'empty'}: trailing rows / columns holding only such values are {'kept' if got else 'trimmed away'}, the grid loses cells",
                             line=fi.node.lineno))
    return rep


# ------------------------------------------------------------------------------------------------ SPINE

EPUB = X + "epub_extractor.py"


def rule_spine(ctx: Ctx) -> RuleReport:
    """Chapters carry the tables: an itemref may be skipped only when it names nothing."""
    rep = RuleReport("C13-SPINE", "every spine itemref with an idref is recorded (no attribute-based filtering of chapters)")
    fi = ctx.p.maybe_func(EPUB, "_EpubContext._parse_spine")
    if fi is None:
        raise AnalysisError("C13-SPINE: _EpubContext._parse_spine vanished")
    from sa.engine.guards import path_conditions
    appends = [n for n in walk_own(fi.node) if isinstance(n, ast.Call) and isinstance(n.func, ast.Attribute) and n.func.attr == "append" and norm(n.func.value) == "self._spine"]
    if not appends:
        raise AnalysisError("C13-SPINE: no self._spine.append(...) in _parse_spine")
    rep.unit(fi.key)
    for ap in appends:
        # conditions inside the itemref loop only
        loop = None
        for n in walk_own(fi.node):
            if isinstance(n, ast.For) and any(x is ap for x in ast.walk(n)):
                loop = n
        if loop is None:
            raise AnalysisError("C13-SPINE: append outside a loop over itemrefs")
        conds = []
        def visit(stmts, acc):
            for s in stmts:
                if any(x is ap for x in ast.walk(s)):
                    if isinstance(s, ast.If):
                        if any(x is ap for b in s.body for x in ast.walk(b)):
                            visit(s.body, acc + [norm(s.test)])
                        else:
                            visit(s.orelse, acc + ["not (" + norm(s.test) + ")"])
                    elif isinstance(s, (ast.For, ast.With, ast.Try)):
                        visit(getattr(s, "body", []), acc)
                    else:
                        conds.extend(acc)
                    return
                if isinstance(s, ast.If) and any(isinstance(x, (ast.Continue, ast.Break)) for b in s.body for x in ast.walk(b)):
                    acc = acc + ["not (" + norm(s.test) + ")"]
        visit(loop.body, [])
        tgt = norm(ap.args[0]) if ap.args else "?"
        extra = [c for c in conds if c not in (tgt, f"{tgt} != ''", f"len({tgt}) > 0", f"bool({tgt})")]
        if extra:
            rep.fail(Finding("C13-SPINE", EPUB, fi.qual, "spine entry recorded only if " + " and ".join(extra),
                             "a spine itemref that names a manifest item is skipped on a condition other than 'it has an idref': the chapter, its text and its tables never reach the result",
                             line=ap.lineno))
        else:
            rep.ok({"append": short(ap), "guard": conds})
    return rep


# ------------------------------------------------------------------------------------------------ DIM / VIEW (other properties' rules seen from this side)

def _reuse(mod: str, fn: str, rule: str, desc: str):
    def run(ctx: Ctx) -> RuleReport:
        m = __import__(f"sa.rules.{mod}", fromlist=[fn])
        rep = getattr(m, fn)(ctx)
        rep.rule = rule
        rep.description = desc
        for f in rep.findings:
            f.rule = rule
        return rep
    run.__name__ = f"rule_{rule.split('-')[1].lower()}"
    return run


rule_dim = _reuse("c04", "rule_dim", "C13-DIM", "get_dim() is the shape of get_table() for every table class")
rule_view = _reuse("c14", "rule_view", "C13-VIEW", "tables reachable from units are the tables of iterate_tables(), built from the same fields")

def rule_rows(ctx: Ctx) -> RuleReport:
    """A row of the source is a row of the result, empty or not: no table builder appends a row only when its content says so."""
    rep = RuleReport("C13-ROWS", "table builders append every row they have assembled: the append is not guarded by a test on the row's content")
    n = 0
    for label, rel, entry, *_ in TABLE_WALKS:
        m_ = ctx.p.module(rel)
        for fi in m_.functions.values():
            lists = {a.targets[0].id for a in walk_own(fi.node) if isinstance(a, (ast.Assign,)) and len(a.targets) == 1 and isinstance(a.targets[0], ast.Name) and isinstance(a.value, ast.List) and not a.value.elts}
            lists |= {a.target.id for a in walk_own(fi.node) if isinstance(a, ast.AnnAssign) and isinstance(a.target, ast.Name) and isinstance(a.value, ast.List) and not a.value.elts}
            for c in calls_in(fi):
                if not (isinstance(c.func, ast.Attribute) and c.func.attr == "append" and isinstance(c.func.value, ast.Name) and c.func.value.id in lists and len(c.args) == 1 and isinstance(c.args[0], ast.Name) and c.args[0].id in lists and c.args[0].id != c.func.value.id):
                    continue
                row, tab = c.args[0].id, c.func.value.id
                # row-of-cells into table: the row list itself receives appends of cell text
                n += 1
                rep.unit(fi.key)
                # (`if row:` only asks whether the row has any cell at all; a row element without cells has no column to report)
                guards = [i for i in walk_own(fi.node) if isinstance(i, ast.If) and any(x is c for st in i.body for x in ast.walk(st)) and any(isinstance(x, ast.Name) and x.id == row for x in ast.walk(i.test))
                          and not (isinstance(i.test, ast.Name) and i.test.id == row)]
                if guards:
                    rep.fail(Finding("C13-ROWS", rel, fi.qual, f"row appended only if {anorm(guards[0].test, fi.node)}", f"`{short(c, 40)}` runs only when `{short(guards[0].test, 50)}`: a source row whose cells are empty is left out, the table has fewer rows than the source and the rows below move up", line=c.lineno))
                else:
                    rep.ok({"builder": fi.qual, "append": f"{tab}.append({row})"})
    if n < 4:
        raise AnalysisError(f"C13-ROWS: only {n} row appends found in the table builders (4 confirmed)")
    return rep


def rule_ods(ctx: Ctx) -> RuleReport:
    """ODS sheets: rows may sit inside table:table-header-rows / table:table-rows / table:table-row-group (ODF 1.2 part 1, 9.1.2) and a
    row holds covered cells next to cells (9.1.3). Direct-children searches lose the wrapped rows; skipping covered cells moves the cells
    behind a merged cell to the left."""
    ODS = X + "open_office/ods_extractor.py"
    T = "urn:oasis:names:tc:opendocument:xmlns:table:1.0"
    rep = RuleReport("C13-ODS", "the ODS sheet reader reaches rows inside header-rows / rows / row-group wrappers and counts covered cells as grid positions")
    sh = ctx.p.func(ODS, "_extract_sheet")
    rep.unit(sh.key)
    params = [a.arg for a in sh.node.args.args]
    loops = sorted([l for l in walk_own(sh.node) if isinstance(l, ast.For)], key=lambda l: l.lineno)
    row_loop = next((l for l in loops if any(isinstance(x, ast.Name) and x.id in params for x in ast.walk(l.iter)) and any(isinstance(i, ast.For) for i in ast.walk(l) if i is not l)), None)
    if row_loop is None:
        raise AnalysisError("C13-ODS: the row loop of _extract_sheet was not found")

    def tags_in(fn_or_node, mod):
        out = set()
        for c in ast.walk(fn_or_node):
            v = ctx.folder.fold(mod, c) if isinstance(c, (ast.Name, ast.Constant, ast.JoinedStr)) else None
            if isinstance(v, str) and v.startswith("{" + T + "}"):
                out.add(v.split("}", 1)[1])
            elif isinstance(v, (set, frozenset, tuple, list)):
                out |= {x.split("}", 1)[1] for x in v if isinstance(x, str) and x.startswith("{" + T + "}")}
            elif isinstance(v, str) and v.startswith("table:"):
                out.add(v.split(":", 1)[1])
        return out

    it = row_loop.iter
    ok_rows = False
    if isinstance(it, ast.Call):
        for g in resolve_call(ctx.p, sh, it).funcs:
            tg = tags_in(g.node, g.module)
            recursive = any(isinstance(c, ast.Call) and any(h is g for h in resolve_call(ctx.p, g, c).funcs) for c in ast.walk(g.node))
            if {"table-row", "table-header-rows", "table-row-group"} <= tg and recursive:
                ok_rows = True
    if ok_rows:
        rep.ok({"rows": "direct rows and rows inside header-rows / rows / row-group (recursive)"})
    else:
        rep.fail(Finding("C13-ODS", ODS, sh.qual, "rows from " + anorm(it, sh.node), f"the rows of a sheet are taken from `{short(it, 60)}`: rows that LibreOffice wraps in table:table-header-rows (rows to repeat) or table:table-row-group (outline groups) are not reached and the table has fewer rows than the source", line=row_loop.lineno))
    cell_loops = [l for l in ast.walk(row_loop) if isinstance(l, ast.For) and l is not row_loop]
    cl = cell_loops[0] if cell_loops else None
    if cl is None:
        raise AnalysisError("C13-ODS: the cell loop of _extract_sheet was not found")
    seen = tags_in(cl.iter, sh.module) | {t for i in cl.body if isinstance(i, ast.If) for t in tags_in(i.test, sh.module)}
    if "covered-table-cell" in seen and "table-cell" in seen:
        rep.ok({"cells": "table-cell and covered-table-cell, in document order"})
        # ... and a covered cell is a cell like any other for the column count: table:number-columns-repeated applies to it as well
        # (a merge over four columns is one table-cell plus ONE covered-table-cell with number-columns-repeated="3")
        reads_repeat = [st for st in cl.body if any(isinstance(x, ast.Call) and isinstance(x.func, ast.Attribute) and x.func.attr == "get" and x.args and "repeated" in str(ctx.folder.fold(sh.module, x.args[0])) for x in ast.walk(st))]
        if not reads_repeat:
            raise AnalysisError("C13-ODS: the cell loop no longer reads table:number-columns-repeated")
        first_repeat = cl.body.index(reads_repeat[0])
        for st in cl.body[:first_repeat]:
            for cnt in [x for x in ast.walk(st) if isinstance(x, ast.Continue)]:
                holder = next((i for i in ast.walk(st) if isinstance(i, ast.If) and cnt in i.body), None)
                tn = tags_in(holder.test, sh.module) if holder is not None else set()
                positive = holder is not None and not any(isinstance(o, (ast.NotEq, ast.NotIn)) for c_ in ast.walk(holder.test) if isinstance(c_, ast.Compare) for o in c_.ops)
                if positive and ("covered-table-cell" in tn or "table-cell" in tn):
                    rep.fail(Finding("C13-ODS", ODS, sh.qual, "cell kind leaves the loop before the repeat count is read: " + anorm(holder.test, sh.node), f"cells selected by `{short(holder.test, 60)}` are given one position and skip the statement that reads table:number-columns-repeated: a covered cell that stands for three columns counts as one and every cell behind a wide merge moves to the left", line=cnt.lineno))
                    break
        else:
            rep.ok({"cells": "covered cells take the same number-columns-repeated handling"})
    else:
        rep.fail(Finding("C13-ODS", ODS, sh.qual, "cells from " + anorm(cl.iter, sh.node), f"the cells of a row are taken from `{short(cl.iter, 60)}` and covered cells (the positions behind a merged cell) are not counted: every cell after a merged cell moves to the left and the row is shorter than in the source", line=cl.lineno))
    return rep


def rule_grid(ctx: Ctx) -> RuleReport:
    """Cell (i, j) of the returned grid is source cell (i, j): the positions a source format leaves implicit must be made explicit.
    DOCX (ECMA-376 17.4): w:gridSpan on a cell covers val grid columns, w:gridBefore / w:gridAfter on a row skip grid columns. XLSX: the
    optional <dimension> element is a hint; openpyxl's read-only worksheet clips iter_rows() to it unless reset_dimensions() was called."""
    rep = RuleReport("C13-GRID", "implicit grid positions are made explicit: DOCX rows are padded for gridSpan / gridBefore / gridAfter, XLSX rows are read after reset_dimensions()")
    DOCX_ = X + "ms_modern/docx_extractor.py"
    dm = ctx.p.module(DOCX_)
    tf = ctx.p.func(DOCX_, "_extract_tables_from_context")
    rep.unit(tf.key)
    # the row loop: iterates the w:tr elements of a table
    def _iter_tags(l):
        out = set()
        for a in ast.walk(l.iter):
            v = ctx.folder.fold(dm, a) if isinstance(a, (ast.Name, ast.Tuple)) else None
            for t in (v if isinstance(v, (tuple, list)) else [v]):
                if isinstance(t, str) and "}" in t:
                    out.add(t.rsplit("}", 1)[1])
        return out

    row_loops = [l for l in ast.walk(tf.node) if isinstance(l, ast.For) and _iter_tags(l) == {"tr"}]
    if not row_loops:
        raise AnalysisError("C13-GRID: the row loop of _extract_tables_from_context was not found")
    rl = row_loops[0]

    def folded_names(node):
        out = set()
        for x in ast.walk(node):
            if isinstance(x, ast.Name):
                v = ctx.folder.fold(dm, x)
                if isinstance(v, str) and "}" in v:
                    out.add(v.rsplit("}", 1)[1])
        return out

    used = folded_names(rl)
    # padding statements: row.extend([""] * n) / row = [""] * n / row += [""] * n inside the row loop
    pads = [x for x in ast.walk(rl) if isinstance(x, ast.BinOp) and isinstance(x.op, ast.Mult) and any(isinstance(y, ast.List) and len(y.elts) == 1 and isinstance(y.elts[0], ast.Constant) and y.elts[0].value == "" for y in (x.left, x.right))]
    for need, why in (("gridSpan", "a horizontally merged cell covers several grid columns: the cells to its right move left"), ("gridBefore", "grid columns skipped before the first cell of a row: the row starts in column 0 instead"), ("gridAfter", "grid columns skipped after the last cell: the row is shorter than the grid")):
        if need in used and pads:
            rep.ok({"docx_table": need, "padded": True})
        else:
            rep.fail(Finding("C13-GRID", DOCX_, tf.qual, f"w:{need} not honoured", f"the table reader never looks at w:{need} ({why}); cell (i, j) of the returned grid is then not source cell (i, j)", line=rl.lineno))
    # the grid properties are read from the row's / cell's own property element: a descendant search finds the gridSpan of a cell of a table
    # nested further down and applies it to the outer cell
    grid_tags = {"gridSpan", "gridBefore", "gridAfter"}

    def _is_grid_tag(e) -> bool:
        v = ctx.folder.fold(dm, e) if isinstance(e, (ast.Name, ast.Constant, ast.JoinedStr)) else None
        return isinstance(v, str) and v.rsplit("}", 1)[-1] in grid_tags

    grid_fns = {tf.key: (tf, set())}
    for c in ast.walk(rl):
        if isinstance(c, ast.Call) and isinstance(c.func, ast.Name) and c.func.id in dm.functions:
            g = dm.functions[c.func.id]
            ps = [a.arg for a in g.node.args.args]
            tagp = {ps[k] for k, a in enumerate(c.args) if k < len(ps) and _is_grid_tag(a)}
            if tagp:
                grid_fns.setdefault(g.key, (g, set()))[1].update(tagp)
    for g, tagparams in grid_fns.values():
        for c in ast.walk(g.node):
            if not (isinstance(c, ast.Call) and isinstance(c.func, ast.Attribute) and c.func.attr in ("iter", "find", "findall", "iterfind", "findtext") and c.args):
                continue
            a0 = c.args[0]
            about_grid = _is_grid_tag(a0) or (isinstance(a0, ast.Name) and a0.id in tagparams)
            if not about_grid:
                continue
            path = ctx.folder.fold(dm, a0) if not isinstance(a0, ast.Name) or a0.id not in tagparams else ""
            descendant = c.func.attr == "iter" or (isinstance(path, str) and ".//" in path)
            if descendant:
                rep.fail(Finding("C13-GRID", DOCX_, g.qual, f"grid property by descendant search: {anorm(c, g.node)}", f"`{short(c, 50)}` looks for w:gridSpan / w:gridBefore / w:gridAfter in the whole subtree of the row or cell: the span of a cell of a table nested inside is found first and applied to the outer cell, which gets columns it does not have", line=c.lineno))
            else:
                rep.ok({"grid_property_lookup": short(c, 50), "own_property_element": True})
    # a "closest descendants" helper (yield the child when its tag is in the set, otherwise search inside it) looks through every element
    # that is not in the set -- also through a nested table. Whoever asks it for paragraphs must name the table tag as well, or the
    # paragraphs of a table nested in a cell are taken for paragraphs of the outer cell (and are reported again with the nested table)
    helpers = set()
    for f in dm.functions.values():
        if f.parent is not None or len(f.node.args.args) != 2:
            continue
        par, tg = f.node.args.args[0].arg, f.node.args.args[1].arg
        loops = [l for l in f.node.body if isinstance(l, ast.For) and isinstance(l.iter, ast.Name) and l.iter.id == par and isinstance(l.target, ast.Name)]
        if len(loops) != 1:
            continue
        l = loops[0]
        ifs = [i for i in l.body if isinstance(i, ast.If)]
        if len(ifs) == 1 and norm(ifs[0].test) == f"{l.target.id}.tag in {tg}" and any(isinstance(x, ast.Yield) for st in ifs[0].body for x in ast.walk(st)) \
                and any(isinstance(x, ast.YieldFrom) and isinstance(x.value, ast.Call) and isinstance(x.value.func, ast.Name) and x.value.func.id == f.name for st in ifs[0].orelse for x in ast.walk(st)):
            helpers.add(f.name)
    n_calls = 0
    for f in dm.functions.values():
        for c in calls_in(f):
            if not (isinstance(c.func, ast.Name) and c.func.id in helpers and len(c.args) == 2):
                continue
            tags = ctx.folder.fold(dm, c.args[1])
            if not isinstance(tags, (tuple, list, set, frozenset)):
                continue
            names = {str(t).rsplit("}", 1)[-1] for t in tags}
            n_calls += 1
            if "p" in names and "tbl" not in names:
                rep.fail(Finding("C13-GRID", DOCX_, f.qual, f"{anorm(c, f.node)} looks through nested tables", f"`{short(c, 60)}` asks the closest-descendants helper for paragraphs without naming w:tbl: the helper searches inside every element that is not in the set, so the paragraphs of a table nested in a cell (or a text box) are returned as paragraphs of the outer element -- their text is merged into the outer cell and reported a second time with the nested table", line=c.lineno))
            else:
                rep.ok({"closest_descendants": short(c, 50), "stops_at": sorted(names)})
    if helpers and n_calls < 4:
        raise AnalysisError(f"C13-GRID: only {n_calls} calls of the closest-descendants helper with a constant tag set found (4 confirmed)")
    # XLSX
    XLSX_ = X + "ms_modern/xlsx_extractor.py"
    rs = ctx.p.func(XLSX_, "_read_sheet_data")
    rep.unit(rs.key)
    cfg = ctx.cfg(rs)
    its = [c for c in calls_in(rs) if isinstance(c.func, ast.Attribute) and c.func.attr in ("iter_rows", "iter_cols")]
    if not its:
        raise AnalysisError("C13-GRID: _read_sheet_data no longer reads the rows with iter_rows()")
    resets = [c for c in calls_in(rs) if isinstance(c.func, ast.Attribute) and c.func.attr == "reset_dimensions"]
    for it in its:
        ok = False
        for r in resets:
            if norm(r.func.value) != norm(it.func.value):
                continue
            # the reset (or the false branch of `if hasattr(ws, "reset_dimensions")`: a sheet kind without stored dimensions) precedes the read
            through = list(cfg.evaluators(r))
            for nd in cfg.nodes:
                if nd.kind == "test" and "hasattr" in norm(nd.ast) and "reset_dimensions" in norm(nd.ast):
                    through += [s2 for s2 in cfg.succ[nd.id] if cfg.elabel.get((nd.id, s2)) == "false"]
            if all(normally_dominates(cfg, through, b) for b in cfg.evaluators(it)):
                ok = True
        if ok:
            rep.ok({"xlsx_rows": short(it, 40), "after": "reset_dimensions()"})
        else:
            rep.fail(Finding("C13-GRID", XLSX_, rs.qual, f"{anorm(it.func, rs.node)} without reset_dimensions()", f"`{short(it, 40)}` on a read-only worksheet yields the rectangle of the file's <dimension> element; when it is stale (A1 for a 3x3 sheet) the cells outside it are lost", line=it.lineno))
    return rep


def rule_tail(ctx: Ctx) -> RuleReport:
    """Cell (i, j) holds exactly the text of source cell (i, j): the blank between two inline elements of a cell is part of it (= the tail
    clause of C02-DATA; the shared ODF text collector feeds ODT / ODS / ODP cells)."""
    from sa.rules.c02 import tail_clauses

    rep = RuleReport("C13-TAIL", "element tails are emitted whenever they are non-empty (no test of their content): the blank between two inline elements of a cell survives")
    tail_clauses(ctx, rep, "C13-TAIL")
    return rep


def _stack_sites(cls):
    """(stack attribute names pushed by handle_starttag, function -> removal sites) of an HTMLParser subclass"""
    hs = cls.methods.get("handle_starttag")

    def self_attr(e):
        return e.attr if isinstance(e, ast.Attribute) and isinstance(e.value, ast.Name) and e.value.id == "self" else None

    pushed = {self_attr(c.func.value) for c in ast.walk(hs.node) if isinstance(c, ast.Call) and isinstance(c.func, ast.Attribute) and c.func.attr == "append" and self_attr(c.func.value)}

    def removals(fn):
        out = []
        for x in walk_own(fn):
            if isinstance(x, ast.Call) and isinstance(x.func, ast.Attribute) and x.func.attr == "pop" and self_attr(x.func.value) in pushed:
                out.append((x, self_attr(x.func.value)))
            elif isinstance(x, ast.Delete):
                for t in x.targets:
                    if isinstance(t, ast.Subscript) and self_attr(t.value) in pushed:
                        out.append((x, self_attr(t.value)))
            elif isinstance(x, ast.Assign) and any(isinstance(t, ast.Subscript) and isinstance(t.slice, ast.Slice) and self_attr(t.value) in pushed for t in x.targets):
                out.append((x, next(self_attr(t.value) for t in x.targets if isinstance(t, ast.Subscript) and self_attr(t.value) in pushed)))
        return out

    return pushed, removals, self_attr


def _conditions(body, target, acc):
    """tests that hold when `target` executes: enclosing if / while tests and the tests of preceding guards that leave"""
    pre = []
    for st in body:
        inside = any(x is target for x in ast.walk(st))
        if inside:
            acc.extend(pre)
            if isinstance(st, (ast.If, ast.While)):
                if any(x is target for b in st.body for x in ast.walk(b)):
                    acc.append(st.test)
                    return _conditions(st.body, target, acc)
                return _conditions(st.orelse, target, acc)
            if isinstance(st, (ast.For, ast.With, ast.Try)):
                for blk in (getattr(st, "body", []), getattr(st, "orelse", []), getattr(st, "finalbody", [])) + tuple(h.body for h in getattr(st, "handlers", [])):
                    if any(x is target for b in blk for x in ast.walk(b)):
                        return _conditions(blk, target, acc)
            return acc
        if isinstance(st, ast.If) and st.body and isinstance(st.body[-1], (ast.Return, ast.Raise)) and not st.orelse:
            pre.append(st.test)
    return acc


def _derived(fn, seeds, cls, stack, self_attr):
    """locals of fn whose value is computed from the names in `seeds`; those among them whose computation also looks at the stack
    (directly, or through a method of the class that reads it)"""
    names, on_stack = set(seeds), set()

    def reads_stack(e):
        for x in ast.walk(e):
            if self_attr(x) == stack:
                return True
            if isinstance(x, ast.Call) and isinstance(x.func, ast.Attribute) and isinstance(x.func.value, ast.Name) and x.func.value.id == "self" and x.func.attr in cls.methods \
                    and any(self_attr(y) == stack for y in ast.walk(cls.methods[x.func.attr].node)):
                return True
        return False

    changed = True
    while changed:
        changed = False
        for a in walk_own(fn):
            if isinstance(a, ast.Assign) and len(a.targets) == 1 and isinstance(a.targets[0], ast.Name):
                v = a.targets[0].id
                uses = {x.id for x in ast.walk(a.value) if isinstance(x, ast.Name)}
                if uses & names:
                    if v not in names:
                        names.add(v)
                        changed = True
                    if (reads_stack(a.value) or uses & on_stack) and v not in on_stack:
                        on_stack.add(v)
                        changed = True
    return names, on_stack


def rule_stack(ctx: Ctx) -> RuleReport:
    """The HTML grid is read off the tree the parser callbacks build. (1) An end tag closes an element only when that element is open: an
    end tag nobody opened (`</p>` or `</span>` inside a cell, ubiquitous in hand-written and mail HTML) must not close the cell, the row
    and the table it sits in. (2) The end tags of td, th and tr are optional (HTML Living Standard 13.1.2.4; minifiers drop them): a
    `<td>` / `<th>` start tag closes an open cell, a `<tr>` start tag an open row -- otherwise every cell nests in the one before it and
    the table comes back as one cell."""
    rep = RuleReport("C13-STACK", "elements leave the open-element stack under a condition that relates the tag's name to the stack; the start tags of td / th / tr close an open cell / row (optional end tags)")
    n = 0
    for cls in ctx.p.all_classes():
        if "HTMLParser" not in ctx.p.base_names(cls):
            continue
        hs, he = cls.methods.get("handle_starttag"), cls.methods.get("handle_endtag")
        if hs is None or he is None:
            continue
        pushed, removals, self_attr = _stack_sites(cls)
        # an open-element stack: pushed by the start-tag callback and shortened by the end-tag callback (an output list is only appended to)
        in_end = {st_ for _c, st_ in removals(he.node)}
        pushed.intersection_update(in_end)
        if not pushed:
            continue
        # stacks every push of which stands under one and the same `tag == "<name>"` test hold elements of that one kind
        homogeneous = {}
        hs_tag = hs.node.args.args[1].arg if len(hs.node.args.args) > 1 else None
        for stack in pushed:
            kinds = set()
            for c_ in ast.walk(hs.node):
                if isinstance(c_, ast.Call) and isinstance(c_.func, ast.Attribute) and c_.func.attr == "append" and self_attr(c_.func.value) == stack:
                    stmt_ = next(st for st in ast.walk(hs.node) if isinstance(st, ast.Expr) and st.value is c_)
                    eqs = [t.comparators[0].value for t in _conditions(hs.node.body, stmt_, []) if isinstance(t, ast.Compare) and len(t.ops) == 1 and isinstance(t.ops[0], ast.Eq)
                           and isinstance(t.left, ast.Name) and t.left.id == hs_tag and isinstance(t.comparators[0], ast.Constant)]
                    kinds.add(eqs[0] if eqs else None)
            if len(kinds) == 1 and None not in kinds:
                homogeneous[stack] = kinds.pop()
        for fn_i, kind in ((he, "end"), (hs, "start")):
            args = fn_i.node.args.args
            if len(args) < 2:
                continue
            sites = removals(fn_i.node)
            for c, stack in sites:
                tagnames, on_stack = _derived(fn_i.node, {args[1].arg}, cls, stack, self_attr)
                stmt = c if isinstance(c, ast.stmt) else next(st for st in ast.walk(fn_i.node) if isinstance(st, ast.stmt) and not isinstance(st, (ast.If, ast.While, ast.For, ast.With, ast.Try, ast.FunctionDef)) and any(x is c for x in ast.walk(st)))
                conds = _conditions(fn_i.node.body, stmt, [])

                def relates(test):
                    nm = {x.id for x in ast.walk(test) if isinstance(x, ast.Name)}
                    return bool(nm & on_stack) or (bool(nm & tagnames) and any(self_attr(x) == stack for x in ast.walk(test)))

                n += 1
                rep.unit(fn_i.key)
                kind_of = homogeneous.get(stack)
                if kind_of is not None and any(norm(t) in (f"{a_} == {kind_of!r}" for a_ in tagnames) for t in conds) and any(self_attr(x) == stack for t in conds for x in ast.walk(t)):
                    # a stack that only ever holds saved state of <kind_of> elements: "this is a <kind_of> tag and the stack is not empty"
                    rep.ok({"parser": cls.name, "callback": fn_i.name, "removal": short(c, 40), "stack_of": kind_of, "under": [short(t, 50) for t in conds]})
                elif any(relates(t) for t in conds):
                    rep.ok({"parser": cls.name, "callback": fn_i.name, "removal": short(c, 40), "under": [short(t, 50) for t in conds if relates(t)]})
                else:
                    rep.fail(Finding("C13-STACK", cls.module.rel, fn_i.qual, f"self.{stack} shortened without asking whether the tag's element is open", f"`{short(stmt, 60)}` runs for every {kind} tag outside removed content, whether or not an element of that name is open (conditions on the way: {'; '.join(short(t, 40) for t in conds) or 'none'}): a stray `</p>` inside a table cell closes the cell, the row and the table, and the following cells land outside the grid", line=c.lineno))
            if kind == "start" and not (pushed - set(homogeneous)):
                continue
            if kind == "start":
                # (2) optional end tags of the table model (open-element stacks of a tree builder; a stack of saved table state is not one)
                rep.unit(hs.key)
                m = cls.module
                tables = []
                for x in ast.walk(hs.node):
                    key = None
                    if isinstance(x, ast.Call) and isinstance(x.func, ast.Attribute) and x.func.attr == "get" and x.args:
                        key, box = x.args[0], x.func.value
                    elif isinstance(x, ast.Subscript) and isinstance(x.ctx, ast.Load):
                        key, box = x.slice, x.value
                    if key is None or not isinstance(key, ast.Name) or key.id != args[1].arg:
                        continue
                    v = ctx.folder.fold(m, box)
                    if isinstance(v, dict) and v and all(isinstance(k, str) for k in v):
                        tables.append((box, v))
                if not sites:
                    rep.fail(Finding("C13-STACK", m.rel, hs.qual, "no start tag closes an open element", f"{cls.name}.handle_starttag never takes an element off self.{sorted(pushed)[0]}: the end tags of td, th and tr are optional in HTML, so in `<tr><td>a<td>b<tr><td>c<td>d` every cell nests in the one before it and a 2 x 2 table is returned as a single cell holding 'a b c d' (and, without `</table>` closing what is open inside it, the text after the table too)", line=hs.node.lineno))
                    n += 1
                    continue
                WANT = {"td": {"td", "th"}, "th": {"td", "th"}, "tr": {"tr", "td", "th"}}
                if not tables:
                    rep.info.append(f"{cls.name}.handle_starttag shortens the stack, but not through a table keyed by the tag: which start tags imply which end tags is not decided")
                    continue
                box, v = tables[0]
                for k, want in WANT.items():
                    n += 1
                    got = v.get(k)
                    got = set(got) if isinstance(got, (set, frozenset, tuple, list)) else set()
                    if want <= got:
                        rep.ok({"parser": cls.name, "start_tag": k, "closes_open": sorted(got)})
                    else:
                        rep.fail(Finding("C13-STACK", m.rel, hs.qual, f"<{k}> does not close an open {' / '.join(sorted(want - got))}", f"`{norm(box)}` lets a <{k}> start tag close {sorted(got) or 'nothing'}: an open {' / '.join(sorted(want - got))} whose end tag was omitted stays open, the new {'row' if k == 'tr' else 'cell'} nests inside it and the grid loses its shape", line=hs.node.lineno))
    if n < 1:
        raise AnalysisError("C13-STACK: no HTMLParser subclass with an open-element stack found (1 confirmed: _HtmlTreeBuilder)")
    # (3) parsers that keep the table being read in flat attributes (no tree): a <table> start tag resets them; when a table is already
    # open (a table inside a cell) they are saved first -- otherwise the rows of the enclosing table read so far are thrown away, and its
    # remaining cells land outside any table
    n_flat = 0
    for cls in ctx.p.all_classes():
        if "HTMLParser" not in ctx.p.base_names(cls):
            continue
        hs, he = cls.methods.get("handle_starttag"), cls.methods.get("handle_endtag")
        if hs is None or he is None or len(hs.node.args.args) < 2:
            continue
        tagp = hs.node.args.args[1].arg

        def self_attr(e):
            return e.attr if isinstance(e, ast.Attribute) and isinstance(e.value, ast.Name) and e.value.id == "self" else None

        for br in [i for i in walk_own(hs.node) if isinstance(i, ast.If) and norm(i.test) == f"{tagp} == 'table'"]:
            resets = {self_attr(t) for st in br.body for a in ast.walk(st) if isinstance(a, ast.Assign) and isinstance(a.value, ast.List) and not a.value.elts for t in a.targets if self_attr(t)}
            if not resets:
                continue
            # the accumulators among them: those the end-tag callback flushes into something else
            flushed = {r for r in resets if any(isinstance(c, ast.Call) and isinstance(c.func, ast.Attribute) and c.func.attr in ("append", "insert", "extend") and any(self_attr(x) == r for a_ in c.args for x in ast.walk(a_)) for c in ast.walk(he.node))}
            if not flushed:
                continue
            n_flat += 1
            rep.unit(hs.key)
            saved = {self_attr(x) for st in br.body for c in ast.walk(st) if isinstance(c, ast.Call) and isinstance(c.func, ast.Attribute) and c.func.attr == "append" and self_attr(c.func.value) for a_ in c.args for x in ast.walk(a_) if self_attr(x)}
            lost = sorted(flushed - saved)
            if lost:
                rep.fail(Finding("C13-STACK", cls.module.rel, hs.qual, "a nested <table> resets " + ", ".join("self." + a for a in lost) + " without saving", f"the <table> branch of {cls.name}.handle_starttag sets {', '.join('self.' + a for a in lost)} to an empty list whether or not a table is already open: for a table inside a cell the rows of the enclosing table read so far are discarded, the enclosing table is never returned and its remaining cells spill into the text", line=br.lineno))
            else:
                rep.ok({"parser": cls.name, "nested_table": "state of the enclosing table saved: " + ", ".join(sorted(flushed))})
    rep.info.append(f"{n_flat} parser(s) keep the table being read in flat attributes")
    return rep


def rule_chunk(ctx: Ctx) -> RuleReport:
    """html.parser hands character data to handle_data in pieces: a new piece starts after every tag, and (outside convert_charrefs) at
    every reference. The pieces of `Net<b>work</b>ing` are 'Net', 'work', 'ing'. A cell (or any text) assembled from the pieces is their
    concatenation; a separator between the pieces invents blanks inside words."""
    rep = RuleReport("C13-CHUNK", "lists that handle_data appends its pieces to are joined with the empty string")
    n = 0
    for cls in ctx.p.all_classes():
        if "HTMLParser" not in ctx.p.base_names(cls):
            continue
        hd = cls.methods.get("handle_data")
        if hd is None or len(hd.node.args.args) < 2:
            continue
        datap = hd.node.args.args[1].arg

        def self_attr(e):
            return e.attr if isinstance(e, ast.Attribute) and isinstance(e.value, ast.Name) and e.value.id == "self" else None

        acc = {self_attr(c.func.value) for c in ast.walk(hd.node) if isinstance(c, ast.Call) and isinstance(c.func, ast.Attribute) and c.func.attr == "append" and self_attr(c.func.value)
               and c.args and any(isinstance(x, ast.Name) and x.id == datap for x in ast.walk(c.args[0]))}
        for mth in cls.methods.values():
            for c in ast.walk(mth.node):
                if isinstance(c, ast.Call) and isinstance(c.func, ast.Attribute) and c.func.attr == "join" and c.args and self_attr(c.args[0]) in acc:
                    n += 1
                    rep.unit(mth.key)
                    sep = ctx.folder.fold(mth.module, c.func.value) if not isinstance(c.func.value, ast.Constant) else c.func.value.value
                    if sep == "":
                        rep.ok({"parser": cls.name, "pieces": "self." + self_attr(c.args[0]), "joined_in": mth.name, "separator": ""})
                    else:
                        rep.fail(Finding("C13-CHUNK", cls.module.rel, mth.qual, f"pieces of self.{self_attr(c.args[0])} joined with {sep!r}", f"`{short(c, 50)}` puts {sep!r} between the pieces handle_data received; a new piece starts at every inline tag, so <td>Net<b>work</b>ing</td> is returned as 'Net work ing' and H<sub>2</sub>O as 'H 2 O'", line=c.lineno))
    if n < 2:
        raise AnalysisError(f"C13-CHUNK: only {n} joins of character-data pieces found (2 confirmed: chapter text, table cell of the EPUB chapter parser)")
    # (b) with the pieces concatenated, what separates the words of two paragraphs of one cell is the break the tag callbacks emit: while a
    # cell is open (the flag under which handle_data feeds the cell) a break goes to the cell, not past it into the running text
    for cls in ctx.p.all_classes():
        if "HTMLParser" not in ctx.p.base_names(cls):
            continue
        hd = cls.methods.get("handle_data")
        if hd is None or len(hd.node.args.args) < 2:
            continue
        datap = hd.node.args.args[1].arg

        def self_attr(e):
            return e.attr if isinstance(e, ast.Attribute) and isinstance(e.value, ast.Name) and e.value.id == "self" else None

        cell_acc, flag, text_acc = None, None, None
        for st in hd.node.body:
            if isinstance(st, ast.If) and self_attr(st.test) and any(isinstance(c, ast.Call) and isinstance(c.func, ast.Attribute) and c.func.attr == "append" and self_attr(c.func.value) and c.args and isinstance(c.args[0], ast.Name) and c.args[0].id == datap for c in ast.walk(st)):
                c = next(c for c in ast.walk(st) if isinstance(c, ast.Call) and isinstance(c.func, ast.Attribute) and c.func.attr == "append" and self_attr(c.func.value))
                cell_acc, flag = self_attr(c.func.value), self_attr(st.test)
            elif isinstance(st, ast.Expr) and isinstance(st.value, ast.Call) and isinstance(st.value.func, ast.Attribute) and st.value.func.attr == "append" and self_attr(st.value.func.value):
                text_acc = self_attr(st.value.func.value)
        if not (cell_acc and flag and text_acc) or not any(self_attr(c.args[0]) == cell_acc for m_ in cls.methods.values() for c in ast.walk(m_.node) if isinstance(c, ast.Call) and isinstance(c.func, ast.Attribute) and c.func.attr == "join" and c.args):
            continue
        for name, mth in cls.methods.items():
            if name == "handle_data":
                continue
            tests_flag = any(self_attr(x) == flag for i in ast.walk(mth.node) if isinstance(i, (ast.If, ast.IfExp)) for x in ast.walk(i.test))
            for c in ast.walk(mth.node):
                if isinstance(c, ast.Call) and isinstance(c.func, ast.Attribute) and c.func.attr == "append" and self_attr(c.func.value) == text_acc and c.args and isinstance(c.args[0], ast.Constant) and isinstance(c.args[0].value, str) and c.args[0].value.strip() == "":
                    stmt = next(st for st in ast.walk(mth.node) if isinstance(st, ast.Expr) and st.value is c)
                    conds = _conditions(mth.node.body, stmt, [])
                    n += 1
                    rep.unit(mth.key)
                    if any(self_attr(x) == flag for t in conds for x in ast.walk(t)) or (tests_flag and not name.startswith("handle_")):
                        rep.ok({"parser": cls.name, "break_in": name, "routed_by": "self." + flag})
                    else:
                        rep.fail(Finding("C13-CHUNK", cls.module.rel, mth.qual, f"break appended to self.{text_acc} whether or not a cell is open", f"`{short(c, 40)}` in {name} writes the break of a block boundary / <br> to the running text also while self.{flag} is set; the pieces of a cell are concatenated, so nothing separates the paragraphs of one cell: <td><p>first</p><p>second</p></td> is returned as 'firstsecond'", line=c.lineno))
    return rep


def rule_rtf(ctx: Ctx) -> RuleReport:
    """RTF tables are cut out of the control-word stream. (a) Every \\row ends a row: the list of rows is driven by the \\row matches. A list
    driven by the \\trowd matches (one row per row definition) loses every row that does not restate the definition. (b) Whether two rows
    belong to the same table is decided by what lies between them (a paragraph, text), never by *how much* of it there is: a comparison
    of a length with a positive constant merges tables that a short paragraph separates."""
    rep = RuleReport("C13-RTF", "RTF: one table row per \\row; the break between two tables does not depend on the length of what separates them")
    RTF = X + "ms_legacy/rtf_extractor.py"
    m = ctx.p.module(RTF)
    fi = next((f for f in m.functions.values() if f.name == "_extract_tables"), None)
    if fi is None:
        raise AnalysisError("C13-RTF: _extract_tables of the RTF reader not found")
    rep.unit(fi.key)

    def regex_of(e):
        """pattern text of the compiled regex a `<x>.finditer(...)` call is made on"""
        if isinstance(e, ast.Call) and isinstance(e.func, ast.Attribute) and e.func.attr in ("finditer", "findall"):
            v = e.func.value
            if isinstance(v, ast.Name):
                for a in m.tree.body:
                    if isinstance(a, ast.Assign) and len(a.targets) == 1 and isinstance(a.targets[0], ast.Name) and a.targets[0].id == v.id and isinstance(a.value, ast.Call) and a.value.args:
                        pat = ctx.folder.fold(m, a.value.args[0])
                        return pat if isinstance(pat, str) else None
        return None

    roles = {}
    for a in walk_own(fi.node):
        if isinstance(a, ast.Assign) and len(a.targets) == 1 and isinstance(a.targets[0], ast.Name):
            for x in ast.walk(a.value):
                pat = regex_of(x)
                if pat is not None:
                    if "trowd" in pat:
                        roles[a.targets[0].id] = "trowd"
                    elif "row" in pat:
                        roles[a.targets[0].id] = "row"
    if set(roles.values()) != {"trowd", "row"}:
        raise AnalysisError(f"C13-RTF: positions of \\trowd and \\row in _extract_tables not recognised ({roles})")
    # (a) the loop that appends row spans
    span_lists = {}
    for lp in [n for n in fi.node.body if isinstance(n, ast.For)]:
        for c in ast.walk(lp):
            if isinstance(c, ast.Call) and isinstance(c.func, ast.Attribute) and c.func.attr == "append" and isinstance(c.func.value, ast.Name) and c.args and isinstance(c.args[0], ast.Tuple) \
                    and any(isinstance(x, ast.Subscript) and isinstance(x.slice, ast.Slice) for x in ast.walk(c.args[0])):
                span_lists[c.func.value.id] = (lp, c)
    if not span_lists:
        raise AnalysisError("C13-RTF: the loop that collects (start, end, content) of the rows was not found")
    for name, (lp, c) in span_lists.items():
        driver = roles.get(lp.iter.id) if isinstance(lp.iter, ast.Name) else None
        if driver == "row":
            rep.ok({"rtf_rows": f"{name}: one entry per \\row"})
        elif driver == "trowd":
            inner_break = any(isinstance(b, ast.Break) for b in ast.walk(lp))
            rep.fail(Finding("C13-RTF", RTF, fi.qual, "one table row per \\trowd", f"`{short(lp, 40)}` collects one row for every \\trowd ({'the first \\row after it' if inner_break else 'rows after it'}): a row that does not restate the row definition -- Word 97 writes \\trowd for the first rows of a table only, the repo's own fixture 02_dept_transport.rtf has 296 \\row and 66 \\trowd -- is in the text but in no table", line=lp.lineno))
        else:
            raise AnalysisError(f"C13-RTF: what drives the loop that fills {name} is not recognised")
    # (b) the break test
    n_len = 0
    for i in [x for x in walk_own(fi.node) if isinstance(x, ast.If)]:
        for cmp_ in [x for x in ast.walk(i.test) if isinstance(x, ast.Compare) and len(x.ops) == 1 and isinstance(x.ops[0], (ast.Gt, ast.GtE, ast.Lt, ast.LtE))]:
            k = ctx.folder.fold(m, cmp_.comparators[0])
            left = cmp_.left
            is_len = (isinstance(left, ast.Call) and isinstance(left.func, ast.Name) and left.func.id == "len") or (isinstance(left, ast.BinOp) and isinstance(left.op, ast.Sub))
            if is_len and isinstance(k, int) and not isinstance(k, bool) and k > 1:
                n_len += 1
                rep.fail(Finding("C13-RTF", RTF, fi.qual, f"table break by size: {anorm(cmp_, fi.node)}", f"`{short(cmp_, 50)}` makes the break between two tables depend on the amount of RTF / text between their rows: tables separated by a paragraph shorter than that (a caption 'Table 2', an empty paragraph, a page break) are returned as one table", line=cmp_.lineno))
    if n_len == 0:
        rep.ok({"rtf_table_break": "no size threshold"})
    return rep


RULES = [rule_walk, rule_key, rule_trim, rule_spine, rule_dim, rule_view, rule_rows, rule_ods, rule_grid, rule_tail, rule_stack, rule_chunk, rule_rtf]
