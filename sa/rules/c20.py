"""C20 — built-in AES: structural agreement with FIPS-197 (tables, round structure, key schedule guards, drivers)."""
from __future__ import annotations

import ast

from sa.engine.callgraph import calls_in, resolve_call
from sa.engine.cfg import normally_dominates
from sa.engine.consts import UNKNOWN
from sa.engine.context import Ctx
from sa.engine.guards import atoms, path_conditions
from sa.engine.loader import anorm, local_names, AnalysisError, dotted, norm, short, walk_own, is_noise
from sa.engine.report import Finding, RuleReport
from sa.rules.common import X, raised_class

AES = X + "pdf/_pypdf_aes_fallback.py"

EXPLANATION = (
    "Static agreement of the pure-Python AES with FIPS-197, as far as it is visible in the shape of the code: (SBOX) the "
    "two 256-entry literals equal a reference generated in the checker from the definition (GF(2^8) inverse + affine map) "
    "and are mutually inverse; (ROUND) the call sequence of the block functions is the cipher / inverse-cipher automaton "
    "with loop ranges 1..Nr-1; (MIX) the coefficient matrices extracted from (inv_)mix_columns are the circulants of "
    "(2,3,1,1)/(14,11,13,9) with every _MULk bound to _build_mul_table(k), (inv_)shift_rows rotate row r by r on the "
    "column-major state; (KEY) the key-schedule guards are i mod Nk = 0 -> SubWord(RotWord)+Rcon[i/Nk] and Nk>6 and i mod "
    "Nk = 4 -> SubWord, Nr = Nk+6, 4(Nr+1) words, Rcon by repeated xtime from 1, xtime/gf_mul use the polynomial 0x1B; "
    "(LEN) ValueError guards on key/IV/data lengths complete before any block is processed or any value returned; (WRAP) "
    "the CryptAES wrapper draws a fresh IV inside each encrypt call, prepends it, pads before encrypting and unpads after "
    "decrypting; (PATCH) all three pypdf modules get all four AES functions and CryptAES."
    " (MIX, continued) (inv_)shift_rows are interpreted over the 16 positions of the state (opaque tokens) and the resulting permutation is compared with FIPS-197's; a function that rebinds its parameter leaves the caller's state untouched. (KEY, continued) the key schedule handed out by the per-key cache is read only: no in-place reverse / sort / item assignment by its receivers."
)
NOT_DECIDED = ["numerical equality with FIPS-197 for every key/block: _MULk, _RCON and round keys are computed at import/run time by "
               "_xtime/_gf_mul/_expand_key; evaluating them would be running the program, proving them is solver territory",
               "behaviour of the memoryview/bytearray plumbing in the ECB/CBC drivers beyond call order and guards"]
TRUSTED = ["FIPS-197 definitions embedded in the checker (S-box construction, MixColumns circulants, key-schedule guards)", "shape recognisers listed per rule; a recogniser that stops matching is an ANALYSIS-ERROR, never a pass"]
FLOORS = {"C20-SBOX": 3, "C20-ROUND": 2, "C20-MIX": 4, "C20-KEY": 6, "C20-LEN": 10, "C20-WRAP": 5, "C20-PATCH": 15, "C20-MODE": 6}


def _ref_sbox():
    def mul(a, b):
        r = 0
        while b:
            if b & 1:
                r ^= a
            a = ((a << 1) ^ 0x11B) if a & 0x80 else a << 1
            b >>= 1
        return r & 0xFF

    inv = [0] * 256
    for a in range(1, 256):
        for b in range(1, 256):
            if mul(a, b) == 1:
                inv[a] = b
                break
    sbox = []
    for a in range(256):
        x = inv[a]
        y = x
        for _ in range(4):
            x = ((x << 1) | (x >> 7)) & 0xFF
            y ^= x
        sbox.append(y ^ 0x63)
    return sbox


def rule_sbox(ctx: Ctx) -> RuleReport:
    rep = RuleReport("C20-SBOX", "S-box literals equal the FIPS-197 definition and invert each other (512 entries)")
    sb = ctx.const(AES, "_SBOX")
    isb = ctx.const(AES, "_INV_SBOX")
    if sb is UNKNOWN or isb is UNKNOWN or not isinstance(sb, list) or not isinstance(isb, list):
        raise AnalysisError("C20-SBOX: _SBOX/_INV_SBOX are no longer literal lists")
    rep.unit(f"{AES}::_SBOX[{len(sb)}]")
    rep.unit(f"{AES}::_INV_SBOX[{len(isb)}]")
    ref = _ref_sbox()
    bad = [i for i in range(256) if i >= len(sb) or sb[i] != ref[i]]
    if len(sb) == 256 and not bad:
        rep.ok({"_SBOX": "256 entries equal reference", "first": sb[:4]})
    else:
        rep.fail(Finding("C20-SBOX", AES, "_SBOX", f"entries {bad[:8]}", f"_SBOX differs from FIPS-197 at indices {bad[:8]} (len={len(sb)})"))
    refinv = [0] * 256
    for i, v in enumerate(ref):
        refinv[v] = i
    bad = [i for i in range(256) if i >= len(isb) or isb[i] != refinv[i]]
    if len(isb) == 256 and not bad:
        rep.ok({"_INV_SBOX": "256 entries equal reference"})
    else:
        rep.fail(Finding("C20-SBOX", AES, "_INV_SBOX", f"entries {bad[:8]}", f"_INV_SBOX differs from FIPS-197 at indices {bad[:8]} (len={len(isb)})"))
    # users of the tables
    for fn, table in (("_sub_bytes", "_SBOX"), ("_inv_sub_bytes", "_INV_SBOX"), ("_sub_word", "_SBOX")):
        fi = ctx.p.func(AES, fn)
        subs = {n.value.id for n in walk_own(fi.node) if isinstance(n, ast.Subscript) and isinstance(n.value, ast.Name) and n.value.id in ("_SBOX", "_INV_SBOX")}
        if subs == {table}:
            rep.ok({fn: f"substitutes through {table}"})
        else:
            rep.fail(Finding("C20-SBOX", AES, fn, ",".join(sorted(subs)) or "none", f"{fn} must substitute through {table} only, uses {sorted(subs)}", line=fi.node.lineno))
    return rep


def _call_seq(ctx, fi):
    """Top-level statement sequence of a block function rendered as tokens; loops as ('loop', range-args, [tokens])."""
    names = {"_add_round_key": "ARK", "_sub_bytes": "SB", "_shift_rows": "SR", "_mix_columns": "MC",
             "_inv_sub_bytes": "ISB", "_inv_shift_rows": "ISR", "_inv_mix_columns": "IMC"}

    def tok(st):
        if isinstance(st, ast.Expr) and isinstance(st.value, ast.Call):
            t = resolve_call(ctx.p, fi, st.value)
            for g in t.funcs:
                if g.qual in names:
                    if names[g.qual] == "ARK":
                        arg = st.value.args[1] if len(st.value.args) > 1 else None
                        return ("ARK", norm(arg.slice) if isinstance(arg, ast.Subscript) else norm(arg) if arg else "?")
                    return (names[g.qual],)
        return None

    out = []
    for st in fi.node.body:
        if isinstance(st, ast.For):
            body = [tok(s) for s in st.body]
            if any(b is None for b in body):
                raise AnalysisError(f"C20-ROUND: unrecognised statement in the round loop of {fi.qual}")
            if not (isinstance(st.iter, ast.Call) and dotted(st.iter.func) == "range"):
                raise AnalysisError(f"C20-ROUND: round loop of {fi.qual} is not a range() loop")
            out.append(("loop", tuple(norm(a) for a in st.iter.args), st.target.id if isinstance(st.target, ast.Name) else "?", body))
        else:
            t = tok(st)
            if t is not None:
                out.append(t)
    return out


def rule_round(ctx: Ctx) -> RuleReport:
    rep = RuleReport("C20-ROUND", "cipher / inverse cipher call-sequence automaton (FIPS-197 Fig. 5 and Fig. 12)")
    enc = ctx.p.func(AES, "_aes_encrypt_block")
    dec = ctx.p.func(AES, "_aes_decrypt_block")
    for fi, kind in ((enc, "enc"), (dec, "dec")):
        rep.unit(fi.key)
        seq = _call_seq(ctx, fi)
        # nr = len(round_keys) - 1
        nr_defs = [n.targets[0].id for n in walk_own(fi.node) if isinstance(n, ast.Assign) and isinstance(n.targets[0], ast.Name) and norm(n.value) == "len(round_keys) - 1"]
        nr_ok = len(nr_defs) == 1
        NR = nr_defs[0] if nr_ok else "nr"  # the local holding the number of rounds, whatever it is called
        problems = []
        if not nr_ok:
            problems.append("nr is not len(round_keys) - 1")
        loops = [s for s in seq if s[0] == "loop"]
        if len(loops) != 1:
            raise AnalysisError(f"C20-ROUND: {fi.qual} does not have exactly one round loop")
        li = seq.index(loops[0])
        pre, post = seq[:li], seq[li + 1:]
        _, rng, var, body = loops[0]
        unord = lambda xs: sorted(x[0] for x in xs)
        if kind == "enc":
            if pre != [("ARK", "0")]:
                problems.append(f"initial step is {pre}, expected AddRoundKey(rk[0])")
            if rng not in (("1", NR),):
                problems.append(f"round loop range({', '.join(rng)}), expected range(1, nr)")
            if not (len(body) == 4 and unord(body[:2]) == ["SB", "SR"] and body[2] == ("MC",) and body[3] == ("ARK", var)):
                problems.append(f"round body {body}, expected SubBytes,ShiftRows (either order), MixColumns, AddRoundKey(rk[{var}])")
            if not (len(post) == 3 and unord(post[:2]) == ["SB", "SR"] and post[2] == ("ARK", NR)):
                problems.append(f"final round {post}, expected SubBytes,ShiftRows,AddRoundKey(rk[nr])")
        else:
            if pre != [("ARK", NR)]:
                problems.append(f"initial step is {pre}, expected AddRoundKey(rk[nr])")
            if rng not in ((f"{NR} - 1", "0", "-1"),):
                problems.append(f"round loop range({', '.join(rng)}), expected range(nr - 1, 0, -1)")
            if not (len(body) == 4 and unord(body[:2]) == ["ISB", "ISR"] and body[2] == ("ARK", var) and body[3] == ("IMC",)):
                problems.append(f"round body {body}, expected InvShiftRows,InvSubBytes (either order), AddRoundKey(rk[{var}]), InvMixColumns")
            if not (len(post) == 3 and unord(post[:2]) == ["ISB", "ISR"] and post[2] == ("ARK", "0")):
                problems.append(f"final round {post}, expected InvShiftRows,InvSubBytes,AddRoundKey(rk[0])")
        if problems:
            for pr in problems:
                rep.fail(Finding("C20-ROUND", AES, fi.qual, pr, f"{fi.qual}: {pr}", line=fi.node.lineno))
        else:
            rep.ok({fi.qual: [s if s[0] != "loop" else ["loop", list(s[1]), [list(b) for b in s[3]]] for s in seq]})
    return rep


def _mul_bindings(ctx):
    m = ctx.p.module(AES)
    out = {}
    for name, val in m.assigns.items():
        if isinstance(val, ast.Call) and dotted(val.func) == "_build_mul_table" and len(val.args) == 1 and isinstance(val.args[0], ast.Constant):
            out[name] = val.args[0].value
    return out


def _gmul(a: int, b: int) -> int:
    """Multiplication in GF(2^8) modulo x^8 + x^4 + x^3 + x + 1 (FIPS-197 4.2)."""
    r = 0
    for _ in range(8):
        if b & 1:
            r ^= a
        hi = a & 0x80
        a = (a << 1) & 0xFF
        if hi:
            a ^= 0x1B
        b >>= 1
    return r


def _column_matrix(ctx, fi, fn, mul):
    """The 4x4 matrix over GF(2^8) that one iteration of the column loop applies to a column, by abstract interpretation of the loop body in
    the domain of GF(2^8)-linear combinations of the four input bytes: reading a slot gives its current combination, `^` adds, `_MULk[e]`
    scales by k, stores and `^=` update the slot *in place* (so a later statement that reads an already updated slot sees the update).
    Any form that is straight-line and linear is decided; anything else is refused."""
    loops = [n for n in fi.node.body if isinstance(n, ast.For)]
    if len(loops) != 1:
        raise AnalysisError(f"C20-MIX: {fn} is no longer one loop over the 4 columns")
    lp = loops[0]
    it = norm(lp.iter)
    tv = lp.target.id if isinstance(lp.target, ast.Name) else None
    base = None
    if it == "range(4)":
        pass  # base is assigned in the body: i = 4 * col
    elif it in ("(0, 4, 8, 12)", "[0, 4, 8, 12]", "range(0, 16, 4)"):
        base = tv
    else:
        raise AnalysisError(f"C20-MIX: {fn}: the column loop `for {tv} in {it}` is not one pass over the 4 columns")
    unit = [{k: 1} for k in range(4)]
    slots = [dict(u) for u in unit]
    env: dict[str, dict] = {}

    def slot_of(idx) -> int | None:
        t = norm(idx)
        for k in range(4):
            if t in (f"{base} + {k}", f"{k} + {base}") or (k == 0 and t == base):
                return k
        return None

    def xor(a, b):
        out = dict(a)
        for k, v in b.items():
            out[k] = out.get(k, 0) ^ v
            if out[k] == 0:
                del out[k]
        return out

    def ev(e):
        if isinstance(e, ast.BinOp) and isinstance(e.op, ast.BitXor):
            return xor(ev(e.left), ev(e.right))
        if isinstance(e, ast.Name):
            if e.id in env:
                return env[e.id]
            raise AnalysisError(f"C20-MIX: {fn}: `{e.id}` is read before it is a combination of the column bytes")
        if isinstance(e, ast.Subscript) and isinstance(e.value, ast.Name):
            if e.value.id == "state":
                k = slot_of(e.slice)
                if k is None:
                    raise AnalysisError(f"C20-MIX: {fn}: index `{norm(e.slice)}` not recognised")
                return slots[k]
            if e.value.id in mul:
                c = mul[e.value.id]
                return {k: _gmul(v, c) for k, v in ev(e.slice).items() if _gmul(v, c)}
        if isinstance(e, ast.Constant) and e.value == 0:
            return {}
        raise AnalysisError(f"C20-MIX: {fn}: term `{norm(e)}` is not a GF(2^8)-linear combination of the column bytes")

    for st in lp.body:
        if isinstance(st, ast.Assign) and len(st.targets) == 1 and isinstance(st.targets[0], ast.Name) and tv is not None and norm(st.value) in (f"4 * {tv}", f"{tv} * 4"):
            base = st.targets[0].id
        elif isinstance(st, ast.Assign) and len(st.targets) == 1 and isinstance(st.targets[0], ast.Tuple) and isinstance(st.value, ast.Subscript) and norm(st.value) == f"state[{base}:{base} + 4]":
            for k, t in enumerate(st.targets[0].elts):
                env[t.id] = slots[k]
        elif isinstance(st, ast.Assign) and len(st.targets) == 1 and isinstance(st.targets[0], ast.Name):
            env[st.targets[0].id] = ev(st.value)
        elif isinstance(st, ast.Assign) and len(st.targets) == 1 and isinstance(st.targets[0], ast.Subscript) and norm(st.targets[0].value) == "state":
            k = slot_of(st.targets[0].slice)
            if k is None:
                raise AnalysisError(f"C20-MIX: {fn}: store index `{norm(st.targets[0].slice)}` not recognised")
            slots[k] = ev(st.value)
        elif isinstance(st, ast.AugAssign) and isinstance(st.op, ast.BitXor) and isinstance(st.target, ast.Subscript) and norm(st.target.value) == "state":
            k = slot_of(st.target.slice)
            if k is None:
                raise AnalysisError(f"C20-MIX: {fn}: store index `{norm(st.target.slice)}` not recognised")
            slots[k] = xor(slots[k], ev(st.value))
        elif isinstance(st, ast.AugAssign) and isinstance(st.op, ast.BitXor) and isinstance(st.target, ast.Name):
            env[st.target.id] = xor(env.get(st.target.id, {}), ev(st.value))
        elif isinstance(st, ast.Expr) and isinstance(st.value, ast.Constant):
            continue
        else:
            raise AnalysisError(f"C20-MIX: {fn}: statement `{norm(st)[:60]}` is not part of a straight-line linear column transform")
    return {r: [slots[r].get(k, 0) for k in range(4)] for r in range(4)}


def rule_mix(ctx: Ctx) -> RuleReport:
    rep = RuleReport("C20-MIX", "MixColumns / InvMixColumns coefficient matrices, ShiftRows rotations, multiplication-table bindings")
    mul = _mul_bindings(ctx)
    if len(mul) < 6:
        raise AnalysisError(f"C20-MIX: only {len(mul)} `_MULk = _build_mul_table(k)` bindings found")
    for fn, first_row in (("_mix_columns", [2, 3, 1, 1]), ("_inv_mix_columns", [14, 11, 13, 9])):
        fi = ctx.p.func(AES, fn)
        rep.unit(fi.key)
        matrix = _column_matrix(ctx, fi, fn, mul)
        expect = {r: [first_row[(j - r) % 4] for j in range(4)] for r in range(4)}
        if matrix == expect:
            rep.ok({fn: [matrix[r] for r in range(4)]})
        else:
            for r in range(4):
                if matrix[r] != expect[r]:
                    rep.fail(Finding("C20-MIX", AES, fn, f"row {r}: {matrix[r]}", f"{fn} row {r} has coefficients {matrix[r]}, FIPS-197 requires {expect[r]}", line=fi.node.lineno))
    for fn, left in (("_shift_rows", True), ("_inv_shift_rows", False)):
        fi = ctx.p.func(AES, fn)
        rep.unit(fi.key)
        # the function moves bytes and computes nothing from them: interpreted over the 16 *positions* of the state (an opaque token per
        # position; any arithmetic on a token is outside the interpreter's subset) it yields the permutation it applies to every state
        perm = _permutation_of(ctx, fi)
        if perm is not None:
            want_perm = [(i + 4 * (i % 4)) % 16 if left else (i - 4 * (i % 4)) % 16 for i in range(16)]
            if perm == "untouched":
                rep.fail(Finding("C20-MIX", AES, fn, "the caller's state is not changed", f"{fn} computes the shifted state and binds it to its own parameter name (a plain assignment, not `state[:] = ...` or item assignments): the list the block function passed in stays as it was, so {'ShiftRows' if left else 'InvShiftRows'} is a no-op and every {'encryption' if left else 'decryption'} deviates from FIPS-197", line=fi.node.lineno))
            elif perm == want_perm:
                rep.ok({fn: "permutation of the 16 positions", "new[i] = old[...]": perm})
            else:
                wrong = [i for i in range(16) if perm[i] != want_perm[i]]
                rep.fail(Finding("C20-MIX", AES, fn, f"positions {wrong} filled from {[perm[i] for i in wrong]}", f"{fn}: position i of the new state is taken from {perm}; FIPS-197 (column-major state, row r rotated {'left' if left else 'right'} by r) requires {want_perm}", line=fi.node.lineno))
            continue
        loops = [n for n in fi.node.body if isinstance(n, ast.For)]
        if len(loops) != 1 or norm(loops[0].iter) != "range(1, 4)":
            raise AnalysisError(f"C20-MIX: {fn} is no longer one loop over rows 1..3")
        rv = loops[0].target.id
        stmts = loops[0].body
        gather = rotate = scatter = None
        gvar = None
        others = local_names(fi.node) - {rv}
        for st in stmts:
            if isinstance(st, ast.Assign) and isinstance(st.value, ast.ListComp) and isinstance(st.targets[0], ast.Name):
                gather = anorm(st, rename=others)
                gvar = st.targets[0].id
            elif isinstance(st, ast.Assign) and isinstance(st.value, ast.BinOp):
                rotate = st
            elif isinstance(st, ast.For):
                scatter = anorm(st, rename=others)
        probs = []
        if gather != f"v0 = [state[{rv} + 4 * v1] for v1 in range(4)]":
            probs.append(f"row gather `{gather}` is not state[row + 4*col] over 4 columns (column-major state)")
        want = f"{gvar}[{rv}:] + {gvar}[:{rv}]" if left else f"{gvar}[-{rv}:] + {gvar}[:-{rv}]"
        rot_txt = norm(rotate.value) if rotate is not None else None
        if rot_txt != want or norm(rotate.targets[0]) != gvar:
            probs.append(f"rotation `{rot_txt}`, expected `{want}` ({'left' if left else 'right'} by the row number)")
        if scatter != f"for v0 in range(4): state[{rv} + 4 * v0] = v1[v0]":
            probs.append(f"row scatter `{scatter}` does not write back state[row + 4*col] = row_bytes[col]")
        if probs:
            for pr in probs:
                rep.fail(Finding("C20-MIX", AES, fn, pr, f"{fn}: {pr}", line=fi.node.lineno))
        else:
            rep.ok({fn: want})
    return rep


class _Pos:
    """opaque content of one state position"""
    __slots__ = ("i",)

    def __init__(self, i):
        self.i = i


def _permutation_of(ctx: Ctx, fi):
    """[source position of new[i]] for a function that only moves state bytes; 'untouched' when the caller's list is not modified;
    None when the function uses something outside the small subset interpreted here (the template comparison decides then)."""
    from sa.engine.absinterp import Evaluator

    class PE(Evaluator):
        def stmt(self, m, st, env):
            if isinstance(st, ast.Assign) and len(st.targets) == 1 and isinstance(st.targets[0], ast.Subscript):
                self.steps += 1
                t = st.targets[0]
                box = self.expr(m, t.value, env)
                v = self.expr(m, st.value, env)
                if not isinstance(box, list):
                    raise AnalysisError("perm: store into non-list")
                if isinstance(t.slice, ast.Slice):
                    lo = self.expr(m, t.slice.lower, env) if t.slice.lower else None
                    hi = self.expr(m, t.slice.upper, env) if t.slice.upper else None
                    if t.slice.step is not None:
                        raise AnalysisError("perm: slice step")
                    box[lo:hi] = list(v)
                else:
                    k = self.expr(m, t.slice, env)
                    if not isinstance(k, int) or not -len(box) <= k < len(box):
                        raise AnalysisError("perm: index")
                    box[k] = v
                return
            return super().stmt(m, st, env)

        def expr(self, m, e, env):
            if isinstance(e, (ast.ListComp, ast.GeneratorExp)) and len(e.generators) == 1 and not e.generators[0].is_async:
                g = e.generators[0]
                it = self.expr(m, g.iter, env)
                if not isinstance(it, (list, tuple)):
                    raise AnalysisError("perm: comprehension source")
                out = []
                inner = dict(env)
                for item in it:
                    self.bind(g.target, item, inner)
                    if all(self.truth(self.expr(m, c, inner)) for c in g.ifs):
                        out.append(self.expr(m, e.elt, inner))
                return out
            if isinstance(e, ast.Name) and e.id not in env:
                v = self.folder.fold(m, e)
                if v is not UNKNOWN:
                    return list(v) if isinstance(v, tuple) else v
                # a module-level table computed by a comprehension: evaluated with the same subset
                defs = [a.value for a in m.tree.body if isinstance(a, ast.Assign) and len(a.targets) == 1 and isinstance(a.targets[0], ast.Name) and a.targets[0].id == e.id]
                if len(defs) == 1:
                    return self.expr(m, defs[0], {})
            return super().expr(m, e, env)

        def callexpr(self, m, e, env):
            d = dotted(e.func)
            if d == "range" and not e.keywords:
                a = [self.expr(m, x, env) for x in e.args]
                if all(isinstance(x, int) and not isinstance(x, bool) for x in a) and 1 <= len(a) <= 3:
                    return list(range(*a))
            if d in ("list", "tuple") and len(e.args) == 1:
                return list(self.expr(m, e.args[0], env))
            return super().callexpr(m, e, env)

    state = [_Pos(i) for i in range(16)]
    try:
        r = PE(ctx.p, ctx.folder).call(fi, [state])
    except AnalysisError:
        return None
    except Exception:  # noqa: BLE001 -- an operation on a token: outside the subset
        return None
    if r is not None or len(state) != 16 or not all(isinstance(x, _Pos) for x in state):
        return None
    perm = [x.i for x in state]
    if perm == list(range(16)):
        rebinds = any(isinstance(a, ast.Assign) and any(isinstance(t, ast.Name) and t.id == fi.node.args.args[0].arg for t in a.targets) for a in ast.walk(fi.node))
        return "untouched" if rebinds else perm
    return perm


def rule_key(ctx: Ctx) -> RuleReport:
    rep = RuleReport("C20-KEY", "key-schedule guards (FIPS-197 Fig. 11), Nr = Nk + 6, Rcon, xtime polynomial")
    fi0 = ctx.p.func(AES, "_expand_key")
    rep.unit(fi0.key)
    import copy as _copy
    node = _copy.deepcopy(fi0.node)
    roles: dict[str, str] = {}
    def _assigned(pred):
        return [n.targets[0].id for n in ast.walk(node) if isinstance(n, ast.Assign) and len(n.targets) == 1 and isinstance(n.targets[0], ast.Name) and pred(n.value)]
    nk = _assigned(lambda v: norm(v) == "len(key) // 4")
    if len(set(nk)) == 1:
        roles[nk[0]] = "nk"
        nr = _assigned(lambda v: norm(v) == f"{nk[0]} + 6")
        if len(set(nr)) == 1:
            roles[nr[0]] = "nr"
    for lp in [n for n in node.body if isinstance(n, ast.For) and isinstance(n.target, ast.Name)]:
        iv0 = lp.target.id
        for st_ in lp.body:
            if isinstance(st_, ast.Assign) and len(st_.targets) == 1 and isinstance(st_.targets[0], ast.Name) and isinstance(st_.value, ast.Subscript) and isinstance(st_.value.value, ast.Subscript) \
                    and isinstance(st_.value.value.value, ast.Name) and norm(st_.value.value.slice) == f"{iv0} - 1":
                roles[st_.targets[0].id] = "temp"
                roles[st_.value.value.value.id] = "w"
        for x in ast.walk(lp):
            if isinstance(x, ast.Subscript) and isinstance(x.value, ast.Name) and isinstance(x.slice, ast.BinOp) and isinstance(x.slice.op, ast.FloorDiv) and norm(x.slice.left) == iv0:
                roles[x.value.id] = "rcon"
    for x in ast.walk(node):
        if isinstance(x, ast.Name) and x.id in roles:
            x.id = roles[x.id]
    class _FI:  # the renamed copy seen through the FuncInfo surface the checks use
        pass
    fi = _FI()
    fi.node, fi.qual, fi.module, fi.key = node, fi0.qual, fi0.module, fi0.key
    src = {norm(n) for n in walk_own(fi.node) if isinstance(n, ast.Assign)}
    for want, msg in (("nk = len(key) // 4", "Nk = key length / 4"), ("nr = nk + 6", "Nr = Nk + 6")):
        if want in src:
            rep.ok({"key_schedule": want})
        else:
            rep.fail(Finding("C20-KEY", AES, fi.qual, want, f"_expand_key no longer defines {msg} as `{want}`", line=fi.node.lineno))
    # key length guard
    guards = [n for n in fi.node.body if isinstance(n, ast.If) and any(isinstance(x, ast.Raise) for x in n.body)]
    if guards and norm(guards[0].test) in ("len(key) not in (16, 24, 32)", "len(key) not in {16, 24, 32}", "len(key) not in [16, 24, 32]") and raised_class(guards[0].body[-1]) == "ValueError" and fi.node.body.index(guards[0]) <= 1:
        rep.ok({"key_length_guard": norm(guards[0].test)})
    else:
        rep.fail(Finding("C20-KEY", AES, fi.qual, norm(guards[0].test) if guards else "missing", "key length guard is not `len(key) not in (16, 24, 32)` -> ValueError as first statement", line=fi.node.lineno))
    loops = [n for n in fi.node.body if isinstance(n, ast.For)]
    main = [l for l in loops if isinstance(l.iter, ast.Call) and norm(l.iter) == "range(nk, 4 * (nr + 1))"]
    if not main:
        rep.fail(Finding("C20-KEY", AES, fi.qual, norm(loops[0].iter) if loops else "no loop", "word loop is not range(nk, 4 * (nr + 1))", line=fi.node.lineno))
        return rep
    rep.ok({"words": "range(nk, 4 * (nr + 1))"})
    loop = main[0]
    iv = loop.target.id
    ifs = [s for s in loop.body if isinstance(s, ast.If)]
    if len(ifs) != 1:
        raise AnalysisError("C20-KEY: key-schedule loop no longer has a single if/elif")
    branch1 = ifs[0]
    c1 = atoms(branch1.test, True)
    c1s = {str(c) for c in c1} if c1 else None
    if c1s == {f"{iv} % nk == 0"}:
        b = " ; ".join(norm(s) for s in branch1.body)
        if "_sub_word(_rot_word(temp))" in b and f"rcon[{iv} // nk]" in b and "temp[0] ^=" in b:
            rep.ok({"guard": f"{iv} % nk == 0", "action": "SubWord(RotWord(temp)); temp[0] ^= Rcon[i/Nk]"})
        else:
            rep.fail(Finding("C20-KEY", AES, fi.qual, b, "the i mod Nk = 0 branch is not SubWord(RotWord(temp)) xor Rcon[i/Nk] on byte 0", line=branch1.lineno))
    else:
        rep.fail(Finding("C20-KEY", AES, fi.qual, norm(branch1.test), f"first key-schedule guard is `{norm(branch1.test)}`, FIPS-197 requires `i mod Nk == 0`", line=branch1.lineno))
    if len(branch1.orelse) == 1 and isinstance(branch1.orelse[0], ast.If):
        b2 = branch1.orelse[0]
        c2 = atoms(b2.test, True)
        c2s = {str(c) for c in c2} if c2 else None
        if c2s == {"nk > 6", f"{iv} % nk == 4"}:
            if [norm(s) for s in b2.body] == ["temp = _sub_word(temp)"] and not b2.orelse:
                rep.ok({"guard": "nk > 6 and i % nk == 4", "action": "SubWord(temp)"})
            else:
                rep.fail(Finding("C20-KEY", AES, fi.qual, " ; ".join(norm(s) for s in b2.body), "the Nk>6, i mod Nk = 4 branch is not exactly SubWord(temp)", line=b2.lineno))
        else:
            rep.fail(Finding("C20-KEY", AES, fi.qual, norm(b2.test), f"second key-schedule guard is `{norm(b2.test)}`, FIPS-197 requires `Nk > 6 and i mod Nk == 4` (256-bit keys only)", line=b2.lineno))
    else:
        rep.fail(Finding("C20-KEY", AES, fi.qual, "missing elif", "the extra SubWord step for 256-bit keys (Nk > 6 and i mod Nk == 4) is missing", line=loop.lineno))
    body_txt = [norm(s) for s in loop.body]
    comp_ok = any(isinstance(st_, ast.Expr) and isinstance(st_.value, ast.Call) and norm(st_.value.func) == "w.append" and st_.value.args and isinstance(st_.value.args[0], ast.ListComp)
                  and anorm(st_.value.args[0]) == "[v0 ^ v1 for v0, v1 in zip(w[%s - nk], temp)]" % iv for st_ in loop.body)
    if f"temp = w[{iv} - 1][:]" in body_txt and comp_ok:
        rep.ok({"recurrence": "w[i] = w[i-Nk] xor temp, temp = w[i-1]"})
    else:
        rep.fail(Finding("C20-KEY", AES, fi.qual, " ; ".join(body_txt)[:200], "key-schedule recurrence w[i] = w[i-Nk] xor f(w[i-1]) not recognised", line=loop.lineno))
    # helpers, compared as templates modulo renaming of locals: a differing constant/operator is a violation,
    # a different statement skeleton means the recogniser no longer applies (ANALYSIS-ERROR)
    for fn, tmpl_src, what in HELPER_TEMPLATES:
        _template(rep, ctx, "C20-KEY", fn, tmpl_src, what)
    # the expanded schedule is kept per key (a module-level cache hands out the very list it stores): whoever receives it reads it only --
    # reversing, sorting or patching it in place changes the schedule of every later call with that key
    m = ctx.p.module(AES)
    caches = {t.id for st in m.tree.body if isinstance(st, (ast.Assign, ast.AnnAssign)) for t in (st.targets if isinstance(st, ast.Assign) else [st.target]) if isinstance(t, ast.Name)
              and isinstance(st.value, (ast.Dict, ast.Call)) and (isinstance(st.value, ast.Dict) or (dotted(st.value.func) or "").split(".")[-1] in ("dict", "OrderedDict", "defaultdict", "WeakValueDictionary"))}
    shared_fns = set()
    for fi in m.functions.values():
        if fi.parent is not None:
            continue
        decos = {(dotted(d.func if isinstance(d, ast.Call) else d) or "").split(".")[-1] for d in fi.node.decorator_list}
        stored = {st.value.id for st in walk_own(fi.node) if isinstance(st, ast.Assign) and isinstance(st.value, ast.Name) and any(isinstance(t, ast.Subscript) and isinstance(t.value, ast.Name) and t.value.id in caches for t in st.targets)}
        loaded = {st.targets[0].id for st in walk_own(fi.node) if isinstance(st, ast.Assign) and len(st.targets) == 1 and isinstance(st.targets[0], ast.Name)
                  and any(isinstance(x, ast.Name) and x.id in caches for x in ast.walk(st.value))}
        rets = {r.value.id for r in walk_own(fi.node) if isinstance(r, ast.Return) and isinstance(r.value, ast.Name)}
        if decos & {"lru_cache", "cache"} or rets & (stored | loaded):
            shared_fns.add(fi.name)
    if not shared_fns:
        rep.info.append("no function hands out a cached key schedule (nothing to protect)")
    MUT = ("reverse", "sort", "append", "extend", "insert", "pop", "remove", "clear", "__setitem__", "__delitem__")
    n_recv = 0
    for fi in m.functions.values():
        holders = {st.targets[0].id for st in walk_own(fi.node) if isinstance(st, ast.Assign) and len(st.targets) == 1 and isinstance(st.targets[0], ast.Name) and isinstance(st.value, ast.Call)
                   and isinstance(st.value.func, ast.Name) and st.value.func.id in shared_fns}
        if not holders or fi.name in shared_fns:
            continue
        n_recv += 1
        bad = None
        for x in walk_own(fi.node):
            if isinstance(x, ast.Call) and isinstance(x.func, ast.Attribute) and x.func.attr in MUT and isinstance(x.func.value, ast.Name) and x.func.value.id in holders:
                bad = x
            elif isinstance(x, (ast.Subscript,)) and isinstance(x.ctx, (ast.Store, ast.Del)) and isinstance(x.value, ast.Name) and x.value.id in holders:
                bad = x
        if bad is not None:
            rep.fail(Finding("C20-KEY", AES, fi.qual, "cached key schedule changed in place: " + anorm(bad, fi.node), f"`{short(bad, 50)}` changes the list that {', '.join(sorted(shared_fns))} keeps for this key: the first call leaves the schedule in another order / with other entries, so the second block operation with the same key (every later object of the same PDF) is no longer FIPS-197", line=bad.lineno))
        else:
            rep.ok({"schedule_receiver": fi.qual, "reads_only": True})
    if shared_fns and n_recv < 4:
        raise AnalysisError(f"C20-KEY: only {n_recv} receivers of the cached key schedule found (4 confirmed: the ECB / CBC drivers)")
    return rep


HELPER_TEMPLATES = [
    ("_rot_word", "def f(word):\n    return word[1:] + word[:1]", "RotWord: rotate left by one byte"),
    ("_sub_word", "def f(word):\n    return [_SBOX[b] for b in word]", "SubWord through _SBOX"),
    ("_build_rcon", "def f(max_rounds=14):\n    rcon = [0] * (max_rounds + 1)\n    rcon[1] = 1\n    for i in range(2, max_rounds + 1):\n        rcon[i] = _xtime(rcon[i - 1])\n    return tuple(rcon)", "Rcon[1]=1, Rcon[i]=xtime(Rcon[i-1])"),
    ("_xtime", "def f(a):\n    a &= 255\n    return ((a << 1) ^ 27) & 255 if a & 128 else (a << 1) & 255", "xtime: shift left, reduce by 0x1B when bit 7 was set"),
    ("_gf_mul", "def f(a, b):\n    result = 0\n    a &= 255\n    b &= 255\n    while b:\n        if b & 1:\n            result ^= a\n        a = _xtime(a)\n        b >>= 1\n    return result & 255", "GF(2^8) multiplication by shift-and-add"),
    ("_build_mul_table", "def f(multiplier):\n    return tuple(_gf_mul(value, multiplier) for value in range(256))", "256-entry multiplication table"),
    ("_add_round_key", "def f(state, round_key):\n    for i in range(16):\n        state[i] ^= round_key[i]", "AddRoundKey over 16 bytes"),
    ("_sub_bytes", "def f(state):\n    for i in range(16):\n        state[i] = _SBOX[state[i]]", "SubBytes over 16 bytes"),
    ("_inv_sub_bytes", "def f(state):\n    for i in range(16):\n        state[i] = _INV_SBOX[state[i]]", "InvSubBytes over 16 bytes"),
    ("_get_round_keys", "def f(key):\n    cached = _ROUND_KEY_CACHE.get(key)\n    if cached is not None:\n        _ROUND_KEY_CACHE.move_to_end(key)\n        return cached\n    round_keys = _expand_key(key)\n    _ROUND_KEY_CACHE[key] = round_keys\n    if len(_ROUND_KEY_CACHE) > _ROUND_KEY_CACHE_MAX:\n        _ROUND_KEY_CACHE.popitem(last=False)\n    return round_keys", "round-key memo keyed by the complete key"),
]


def _template(rep, ctx, rule, fn, tmpl_src, what):
    from sa.engine.shape import compare_function

    g = ctx.p.func(AES, fn)
    r = compare_function(g.node, tmpl_src)
    if r == "equal":
        rep.ok({fn: what})
    elif r == "leaves":
        rep.fail(Finding(rule, AES, fn, " ; ".join(norm(x) for x in g.node.body)[:240], f"{fn} has the expected statement structure but a constant, operator or referenced table differs from: {what}", line=g.node.lineno))
    else:
        raise AnalysisError(f"{rule}: {fn} no longer has the recognised structure ({what}); the recogniser must be revisited")


PUBLIC = {
    "aes_ecb_encrypt": (["len(data) % 16 != 0"], "_aes_encrypt_block"),
    "aes_ecb_decrypt": (["len(data) % 16 != 0"], "_aes_decrypt_block"),
    "aes_cbc_encrypt": (["len(iv) != 16", "len(data) % 16 != 0"], "_aes_encrypt_block"),
    "aes_cbc_decrypt": (["len(iv) != 16", "len(data) % 16 != 0"], "_aes_decrypt_block"),
}


def rule_len(ctx: Ctx) -> RuleReport:
    rep = RuleReport("C20-LEN", "ValueError guards on key / IV / data length complete before any processing or return")
    for fn, (tests, blockfn) in PUBLIC.items():
        fi = ctx.p.func(AES, fn)
        rep.unit(fi.key)
        cfg = ctx.cfg(fi)
        guard_nodes = {}
        for st in walk_own(fi.node):
            if isinstance(st, ast.If) and st.body and isinstance(st.body[-1], ast.Raise) and raised_class(st.body[-1]) == "ValueError":
                guard_nodes[norm(st.test)] = st
        keycalls = [c for c in calls_in(fi) if any(g.qual == "_get_round_keys" for g in resolve_call(ctx.p, fi, c).funcs) and c.args and norm(c.args[0]) == "key"]
        if not keycalls:
            rep.fail(Finding("C20-LEN", AES, fn, "_get_round_keys(key)", f"{fn} no longer validates/expands the key through _get_round_keys(key)", line=fi.node.lineno))
        targets = [n for n in walk_own(fi.node) if isinstance(n, ast.Return)] + [c for c in calls_in(fi) if any(g.qual == blockfn for g in resolve_call(ctx.p, fi, c).funcs)]
        if not targets:
            raise AnalysisError(f"C20-LEN: {fn} has neither a return nor a {blockfn} call")
        for t in tests:
            st = guard_nodes.get(t)
            if st is None:
                rep.fail(Finding("C20-LEN", AES, fn, t, f"{fn} lacks the guard `if {t}: raise ValueError`", line=fi.node.lineno))
                continue
            gn = cfg.evaluators(st.test)
            okall = True
            for tg in targets:
                for b in cfg.evaluators(tg):
                    if not normally_dominates(cfg, gn, b):
                        okall = False
                        rep.fail(Finding("C20-LEN", AES, fn, f"{t} !dom {short(tg, 50)}", f"`{short(tg, 60)}` is reachable without the length guard `{t}`", line=getattr(tg, "lineno", None)))
                        break
                if not okall:
                    break
            if okall:
                rep.ok({fn: f"guard `{t}` dominates all returns and block operations"})
        for kc in keycalls:
            kn = cfg.evaluators(kc)
            okall = True
            for tg in targets:
                for b in cfg.evaluators(tg):
                    if not normally_dominates(cfg, kn, b):
                        okall = False
                        rep.fail(Finding("C20-LEN", AES, fn, f"_get_round_keys !dom {short(tg, 50)}", f"`{short(tg, 60)}` is reachable before the key has been validated (wrong key lengths are accepted on that path)", line=getattr(tg, "lineno", None)))
                        break
                if not okall:
                    break
            if okall:
                rep.ok({fn: "key validation dominates all returns and block operations"})
    for fn in ("_aes_encrypt_block", "_aes_decrypt_block"):
        fi = ctx.p.func(AES, fn)
        first = [s for s in fi.node.body if not is_noise(s)][0]
        if isinstance(first, ast.If) and norm(first.test) == "len(block) != 16" and raised_class(first.body[-1]) == "ValueError":
            rep.ok({fn: "block length guard first"})
        else:
            rep.fail(Finding("C20-LEN", AES, fn, norm(first)[:80], f"{fn} does not start with the 16-byte block guard", line=fi.node.lineno))
    return rep


def rule_wrap(ctx: Ctx) -> RuleReport:
    rep = RuleReport("C20-WRAP", "CryptAES wrapper: fresh IV per call, IV prepended, pad before encrypt, unpad after decrypt; PKCS#7 helpers")
    # the wrapper methods: closures of the patch function, or functions of the module it installs by name
    enc = ctx.p.maybe_func(AES, "patch_pypdf_fallback_aes.<locals>._cryptaes_encrypt") or ctx.p.func(AES, "_cryptaes_encrypt")
    dec = ctx.p.maybe_func(AES, "patch_pypdf_fallback_aes.<locals>._cryptaes_decrypt") or ctx.p.func(AES, "_cryptaes_decrypt")
    rep.unit(enc.key)
    rep.unit(dec.key)
    # fresh IV: assigned in the body from secrets.token_bytes(16) / os.urandom(16); not a parameter, not a default
    ivcalls = [c for c in calls_in(enc) if any(g.qual == "aes_cbc_encrypt" for g in resolve_call(ctx.p, enc, c).funcs)]
    if not ivcalls:
        raise AnalysisError("C20-WRAP: _cryptaes_encrypt no longer calls aes_cbc_encrypt")
    c = ivcalls[0]
    ivarg = c.args[1] if len(c.args) > 1 else None
    params = [a.arg for a in enc.node.args.args + enc.node.args.kwonlyargs]
    fresh = False
    if isinstance(ivarg, ast.Name) and ivarg.id not in params:
        asg = [n for n in walk_own(enc.node) if isinstance(n, ast.Assign) and isinstance(n.targets[0], ast.Name) and n.targets[0].id == ivarg.id]
        fresh = len(asg) == 1 and norm(asg[0].value) in ("secrets.token_bytes(16)", "os.urandom(16)")
    if fresh:
        rep.ok({"iv": "secrets.token_bytes(16) drawn inside every encrypt call"})
    else:
        rep.fail(Finding("C20-WRAP", AES, enc.qual, norm(ivarg) if ivarg is not None else "?", "the IV passed to aes_cbc_encrypt is not drawn from secrets.token_bytes(16) inside the call (a default argument or outer variable is evaluated once and reused)", line=enc.node.lineno))
    ret = [n for n in walk_own(enc.node) if isinstance(n, ast.Return)]
    if len(ret) == 1 and isinstance(ret[0].value, ast.BinOp) and isinstance(ret[0].value.op, ast.Add) and isinstance(ivarg, ast.Name) and norm(ret[0].value.left) == ivarg.id and ret[0].value.right is c:
        rep.ok({"encrypt_returns": "iv + aes_cbc_encrypt(key, iv, padded)"})
    else:
        rep.fail(Finding("C20-WRAP", AES, enc.qual, norm(ret[0]) if ret else "?", "encrypt does not return the IV it used followed by the ciphertext", line=enc.node.lineno))
    data_arg = c.args[2] if len(c.args) > 2 else None
    padded_ok = False
    if isinstance(data_arg, ast.Name):
        asg = [n for n in walk_own(enc.node) if isinstance(n, ast.Assign) and isinstance(n.targets[0], ast.Name) and n.targets[0].id == data_arg.id]
        padded_ok = len(asg) == 1 and norm(asg[0].value) == "_pkcs7_pad(data, 16)"
    elif data_arg is not None:
        padded_ok = norm(data_arg) == "_pkcs7_pad(data, 16)"
    if padded_ok:
        rep.ok({"encrypt_pads": "_pkcs7_pad(data, 16)"})
    else:
        rep.fail(Finding("C20-WRAP", AES, enc.qual, norm(data_arg) if data_arg is not None else "?", "encrypt does not pad the message with _pkcs7_pad(data, 16) before aes_cbc_encrypt", line=enc.node.lineno))
    from sa.engine.shape import compare_function

    def tmpl(fi, src, what):
        r = compare_function(fi.node, src)
        if r == "equal":
            rep.ok({fi.qual.split(".")[-1]: what})
        elif r == "leaves":
            rep.fail(Finding("C20-WRAP", AES, fi.qual, " ; ".join(norm(x) for x in fi.node.body)[:240], f"{fi.qual.split('.')[-1]} has the expected structure but a constant/operator/callee differs from: {what}", line=fi.node.lineno))
        else:
            raise AnalysisError(f"C20-WRAP: {fi.qual} no longer has the recognised structure ({what})")

    tmpl(dec, "def f(self, data):\n    iv = data[:16]\n    payload = data[16:]\n    if not payload:\n        return payload\n    if len(payload) % 16 != 0:\n        payload = _pkcs7_pad(payload, 16)\n    plain = aes_cbc_decrypt(getattr(self, 'key'), iv, payload)\n    return _pkcs7_unpad(plain, 16)",
         "decrypt: split the 16-byte IV, CBC-decrypt the rest, remove the PKCS#7 padding")
    # PKCS#7 helpers: folded over their whole input partition for block size 16 instead of being compared with a template.
    # Their behaviour depends only on len(data) % 16, the last byte and the run of equal trailing bytes.
    from sa.engine.absinterp import Evaluator, Raised
    padf, unpadf = ctx.p.func(AES, "_pkcs7_pad"), ctx.p.func(AES, "_pkcs7_unpad")

    def fold(fi, args):
        try:
            return ("ok", Evaluator(ctx.p, ctx.folder).call(fi, list(args)))
        except Raised as r:
            return ("raise", r.cls.split(".")[-1])

    bad_pad = bad_unpad = None
    n_pad = n_unpad = 0
    for ln in range(0, 49):
        data = bytes((i * 7 + 3) % 251 for i in range(ln))
        n_pad += 1
        want = data + bytes([16 - ln % 16]) * (16 - ln % 16)
        got = fold(padf, (data, 16))
        if got != ("ok", want) and bad_pad is None:
            bad_pad = (ln, got)
    for prefix_len in (0, 1, 15, 16, 17):
        for x in list(range(0, 19)) + [255]:
            for run in range(0, 19):
                for before in (None, x, (x + 1) % 256):
                    body = bytes([65 + (i % 20) for i in range(prefix_len)])
                    if before is not None:
                        body += bytes([before])
                    data = body + bytes([x]) * run
                    n_unpad += 1
                    if not data:
                        want = ("ok", b"")
                    else:
                        pd = data[-1]
                        if pd < 1 or pd > 16 or data[-pd:] != bytes([pd]) * pd:
                            want = ("raise", "ValueError")
                        else:
                            want = ("ok", data[:-pd])
                    got = fold(unpadf, (data, 16))
                    if got != want and bad_unpad is None:
                        bad_unpad = (data, got, want)
    if bad_pad is None:
        rep.ok({"_pkcs7_pad": f"folded over {n_pad} message lengths 0..48: appends 16 - len % 16 bytes of that value"})
    else:
        rep.fail(Finding("C20-WRAP", AES, padf.qual, f"pad of a {bad_pad[0]}-byte message -> {str(bad_pad[1])[:80]}", "PKCS#7 padding on encryption is not 16 - len % 16 bytes of that value", line=padf.node.lineno))
    if bad_unpad is None:
        rep.ok({"_pkcs7_unpad": f"folded over {n_unpad} (prefix, last byte, trailing run) classes: validates and strips exactly the padding"})
    else:
        d, got, want = bad_unpad
        rep.fail(Finding("C20-WRAP", AES, unpadf.qual, f"unpad({d[-20:]!r}) -> {str(got)[:60]}", f"PKCS#7 unpadding does not remove exactly the padding (or accepts / rejects wrongly): expected {str(want)[:60]}", line=unpadf.node.lineno))
    return rep


def rule_mode(ctx: Ctx) -> RuleReport:
    """Buffer ownership in the CBC drivers: the chaining value must be the previous *ciphertext* block, so it may never be a view
    of a buffer the loop writes (in-place decryption overwrites the ciphertext it still needs)."""
    rep = RuleReport("C20-MODE", "CBC chaining values never alias a buffer written in the block loop; output goes to a buffer of its own")
    for name in ("aes_cbc_encrypt", "aes_cbc_decrypt", "aes_ecb_encrypt", "aes_ecb_decrypt"):
        fi = ctx.p.func(AES, name)
        loops = [n for n in walk_own(fi.node) if isinstance(n, ast.For)]
        outer = [l for l in loops if isinstance(l.iter, ast.Call) and (dotted(l.iter.func) or "") == "_chunks" and l.iter.args]
        if len(outer) != 1:
            raise AnalysisError(f"C20-MODE: {name} no longer has one block loop over _chunks(...)")
        lp = outer[0]
        rep.unit(fi.key)
        src = lp.iter.args[0]
        # views: v = memoryview(x) / v = x  -> same storage as x ; bytearray(x) / bytes(x) -> fresh storage
        view_of: dict[str, str] = {}
        for n in walk_own(fi.node):
            if isinstance(n, ast.Assign) and len(n.targets) == 1 and isinstance(n.targets[0], ast.Name):
                v = n.value
                if isinstance(v, ast.Call) and (dotted(v.func) or "") == "memoryview" and v.args and isinstance(v.args[0], ast.Name):
                    view_of[n.targets[0].id] = v.args[0].id
                elif isinstance(v, ast.Name):
                    view_of.setdefault(n.targets[0].id, v.id)

        def storage(nm: str) -> str:
            seen = set()
            while nm in view_of and nm not in seen and nm not in (lv,):
                seen.add(nm)
                nm = view_of[nm]
            return nm

        lv = lp.target.id if isinstance(lp.target, ast.Name) else "?"
        src_store = storage(src.id) if isinstance(src, ast.Name) else norm(src)
        written = set()
        for n in ast.walk(lp):
            tgts = []
            if isinstance(n, ast.Assign):
                tgts = n.targets
            elif isinstance(n, ast.AugAssign):
                tgts = [n.target]
            for t in tgts:
                if isinstance(t, ast.Subscript) and isinstance(t.value, ast.Name):
                    written.add(src_store if t.value.id == lv else storage(t.value.id))
        params = {a.arg for a in fi.node.args.args}
        # 1. the output buffer is not an input
        if written & params:
            rep.fail(Finding("C20-MODE", AES, name, "writes into " + ", ".join(sorted(written & params)), "the block loop writes into a caller-supplied buffer", line=lp.lineno))
        else:
            rep.ok({"fn": name, "written": sorted(written), "iterated": src_store})
        if not name.startswith("aes_cbc"):
            continue
        # 2. chaining: every value carried to the next iteration (assigned in the loop, read before assignment in the next) must not be a view of a written buffer
        carried = []
        for n in ast.walk(lp):
            if isinstance(n, ast.Assign) and len(n.targets) == 1 and isinstance(n.targets[0], ast.Name) and n.targets[0].id != lv:
                tgt = n.targets[0].id
                initialised_before = any(isinstance(m, ast.Assign) and any(isinstance(t, ast.Name) and t.id == tgt for t in m.targets) and m.lineno < lp.lineno for m in walk_own(fi.node))
                if initialised_before:
                    carried.append(n)
        if not carried:
            raise AnalysisError(f"C20-MODE: no loop-carried chaining value found in {name}")
        for n in carried:
            v = n.value
            base = None
            if isinstance(v, ast.Name):
                base = src_store if v.id == lv else storage(v.id)
            elif isinstance(v, ast.Subscript) and isinstance(v.value, ast.Name):
                base = src_store if v.value.id == lv else storage(v.value.id)
            if base is not None and base in written:
                rep.fail(Finding("C20-MODE", AES, name, norm(n), f"the chaining value `{norm(n)}` is a view of `{base}`, which the same loop overwrites: from the second block on, CBC combines with already decrypted bytes instead of the previous ciphertext block", line=n.lineno))
            else:
                rep.ok({"fn": name, "carried": norm(n), "storage": base or "fresh value"})
    return rep


AES_FUNCS = ["aes_ecb_encrypt", "aes_ecb_decrypt", "aes_cbc_encrypt", "aes_cbc_decrypt"]


def rule_patch(ctx: Ctx) -> RuleReport:
    rep = RuleReport("C20-PATCH", "patch_pypdf_fallback_aes rebinds all four AES functions and CryptAES in all three pypdf modules (sibling agreement)")
    fi = ctx.p.func(AES, "patch_pypdf_fallback_aes")
    rep.unit(fi.key)
    aliases = {}
    for n in walk_own(fi.node):
        if isinstance(n, ast.Import):
            for a in n.names:
                if a.asname:
                    aliases[a.asname] = a.name
    want_mods = {"pypdf._crypt_providers", "pypdf._crypt_providers._fallback", "pypdf._encryption"}
    if set(aliases.values()) & want_mods != want_mods:
        raise AnalysisError(f"C20-PATCH: expected imports of {sorted(want_mods)}, found {aliases}")
    stores = {}
    for n in walk_own(fi.node):
        if isinstance(n, ast.Assign) and len(n.targets) == 1 and isinstance(n.targets[0], ast.Attribute):
            d = dotted(n.targets[0])
            if d:
                stores[d] = n
    for alias, mod in sorted(aliases.items()):
        if mod not in want_mods:
            continue
        for f in AES_FUNCS:
            st = stores.get(f"{alias}.{f}")
            if st is None:
                rep.fail(Finding("C20-PATCH", AES, fi.qual, f"{alias}.{f}", f"{mod}.{f} is not rebound: that module keeps pypdf's stub that raises DependencyError (AES PDFs with an empty password fail on that path)", line=fi.node.lineno))
            elif norm(st.value) != f:
                rep.fail(Finding("C20-PATCH", AES, fi.qual, norm(st), f"{mod}.{f} is bound to `{norm(st.value)}` instead of the function of the same name", line=st.lineno))
            else:
                rep.ok({"rebinds": f"{mod}.{f}"})
        if mod.endswith("_fallback"):
            for meth, val in (("__init__", "_cryptaes_init"), ("encrypt", "_cryptaes_encrypt"), ("decrypt", "_cryptaes_decrypt")):
                st = stores.get(f"{alias}.CryptAES.{meth}")
                if st is not None and norm(st.value) == val:
                    rep.ok({"rebinds": f"{mod}.CryptAES.{meth}"})
                else:
                    rep.fail(Finding("C20-PATCH", AES, fi.qual, f"{alias}.CryptAES.{meth}", f"CryptAES.{meth} is not replaced by {val}", line=fi.node.lineno))
        else:
            st = stores.get(f"{alias}.CryptAES")
            if st is not None and norm(st.value).endswith(".CryptAES"):
                rep.ok({"rebinds": f"{mod}.CryptAES"})
            else:
                rep.fail(Finding("C20-PATCH", AES, fi.qual, f"{alias}.CryptAES", f"{mod}.CryptAES is not rebound to the patched class", line=fi.node.lineno))
    return rep


RULES = [rule_sbox, rule_round, rule_mix, rule_key, rule_len, rule_mode, rule_wrap, rule_patch]
