"""C09 — archive processing is confined: no host file is read or written."""
from __future__ import annotations

import ast

from sa.engine.callgraph import calls_in, resolve_call
from sa.engine.cfg import normally_dominates
from sa.engine.consts import UNKNOWN
from sa.engine.context import Ctx
from sa.engine.guards import path_conditions
from sa.engine.loader import anorm, AnalysisError, dotted, norm, short, walk_own
from sa.engine.report import Finding, RuleReport
from sa.engine.shape import compare_function
from sa.rules.common import X

ARCH = X + "archive_extractor.py"
SZ = X + "util/sevenzip.py"
ROUTER = "sharepoint2text/parsing/router.py"

EXPLANATION = (
    "Static analysis of the archive reader and the built-in 7z reader. (PATH) taint analysis from archive member names "
    "(`.filename`, `.name` and everything computed from them, through tuples, lists and parameters, to a fixpoint over both "
    "modules) to the path argument of every file-system call (open, os.makedirs, os.path.exists, os.remove, shutil.*, "
    "...): a tainted path must be the value returned by `_safe_join` (or os.path.dirname of it); `_safe_join` itself is "
    "compared with its template (empty -> base, drive, absolute / leading separator, abspath prefix test). (MEM) ZIP and "
    "TAR members are only read into memory (`zf.read`, `tf.extractfile(...).read()`), never extracted to disk, and "
    "`tf.extractfile` is reached only for regular files. (TMP) no mkdtemp / mkstemp / NamedTemporaryFile(delete=False); "
    "TemporaryDirectory is used only as a with-item and every use of its name, including the `yield from` that hands out "
    "results, lies inside that with (removal on exhaustion, close() and failure follows from generator finalisation). "
    "(SKIP) every per-member processing step is dominated by the skip filter and the size test for the same member; the "
    "filter contains the hidden / __MACOSX / unsupported / nested-archive clauses; every spelling the router sends to the "
    "archive reader is matched by a nested-archive suffix."
)
NOT_DECIDED = ["what zipfile / tarfile / lzma do internally", "symlink semantics inside 7z (the built-in reader writes regular files only)",
               "that results are a function of the archive bytes only, beyond the path-confinement necessary condition"]
TRUSTED = ["tempfile.TemporaryDirectory as a context manager removes the tree on exit; a generator suspended inside a with-block runs the exit on close()/GC",
           "zipfile.ZipFile.read / tarfile.TarFile.extractfile never touch the file system", "os.path.abspath + startswith(base + os.sep) is a containment test"]
FLOORS = {"C09-PATH": 5, "C09-MEM": 6, "C09-TMP": 3, "C09-SKIP": 12, "C09-LABEL": 3}

FS_SINKS = {"open": 0, "os.makedirs": 0, "os.mkdir": 0, "os.path.exists": 0, "os.path.isfile": 0, "os.path.isdir": 0, "os.remove": 0, "os.unlink": 0, "os.rename": 0,
            "os.replace": 0, "os.symlink": 1, "os.link": 1, "os.listdir": 0, "os.stat": 0, "os.chmod": 0, "os.utime": 0, "shutil.rmtree": 0, "shutil.copy": 1,
            "shutil.copyfile": 1, "shutil.move": 1, "os.rmdir": 0, "os.scandir": 0, "os.walk": 0, "io.open": 0}
NAME_ATTRS = {"filename", "name", "linkname", "orig_filename"}
SANITISER = "_safe_join"


class _Taint:
    """Member-name taint over the functions of the two archive modules (flow-insensitive per function, fixpoint across calls)."""

    def __init__(self, ctx: Ctx):
        self.ctx = ctx
        self.funcs = [f for rel in (ARCH, SZ) for f in ctx.p.module(rel).functions.values()]
        self.tainted: dict[str, set[str]] = {f.key: set() for f in self.funcs}   # names carrying raw member names
        self.clean: dict[str, set[str]] = {f.key: set() for f in self.funcs}     # names holding sanitised paths
        self.ret_tainted: set[str] = set()
        self._run()

    def expr_state(self, fi, e) -> str:
        """'T' tainted (raw member name inside), 'S' sanitised path, 'N' neither."""
        if e is None:
            return "N"
        if isinstance(e, ast.Call):
            d = dotted(e.func) or ""
            last = d.split(".")[-1]
            if last == SANITISER:
                return "S"
            if d in ("os.path.dirname",) and e.args:
                return self.expr_state(fi, e.args[0])
            if d in ("os.path.abspath", "os.path.normpath", "os.path.realpath", "os.fspath", "str") and e.args:
                return self.expr_state(fi, e.args[0]) if self.expr_state(fi, e.args[0]) != "S" else "S"
            t = resolve_call(self.ctx.p, fi, e)
            if any(g.key in self.ret_tainted for g in t.funcs):
                return "T"
            states = [self.expr_state(fi, a) for a in list(e.args) + [k.value for k in e.keywords]]
            if isinstance(e.func, ast.Attribute):
                states.append(self.expr_state(fi, e.func.value))
            if "T" in states:
                return "T"
            return "N"
        if isinstance(e, ast.Attribute):
            if e.attr in NAME_ATTRS:
                return "T"
            return self.expr_state(fi, e.value)
        if isinstance(e, ast.Name):
            if e.id in self.tainted[fi.key]:
                return "T"
            if e.id in self.clean[fi.key]:
                return "S"
            # closure variables of enclosing functions
            f = fi.parent
            while f is not None:
                if e.id in self.tainted.get(f.key, ()):
                    return "T"
                f = f.parent
            return "N"
        if isinstance(e, ast.Constant):
            return "N"
        states = [self.expr_state(fi, c) for c in ast.iter_child_nodes(e) if isinstance(c, ast.expr)]
        if "T" in states:
            return "T"
        return "N"

    def _bind(self, fi, target, state) -> bool:
        ch = False
        for n in ast.walk(target):
            if isinstance(n, ast.Name):
                if state == "T" and n.id not in self.tainted[fi.key]:
                    self.tainted[fi.key].add(n.id)
                    ch = True
                if state == "S" and n.id not in self.clean[fi.key] and n.id not in self.tainted[fi.key]:
                    self.clean[fi.key].add(n.id)
                    ch = True
        return ch

    def _run(self):
        changed = True
        rounds = 0
        while changed and rounds < 30:
            changed = False
            rounds += 1
            for fi in self.funcs:
                for n in walk_own(fi.node):
                    if isinstance(n, ast.Assign):
                        st = self.expr_state(fi, n.value)
                        if isinstance(n.value, ast.Tuple) and len(n.targets) == 1 and isinstance(n.targets[0], ast.Tuple) and len(n.value.elts) == len(n.targets[0].elts):
                            for t, v in zip(n.targets[0].elts, n.value.elts):
                                changed |= self._bind(fi, t, self.expr_state(fi, v))
                        else:
                            for t in n.targets:
                                if st in ("T", "S"):
                                    changed |= self._bind(fi, t, st)
                    elif isinstance(n, (ast.AnnAssign, ast.AugAssign)) and getattr(n, "value", None) is not None:
                        st = self.expr_state(fi, n.value)
                        if st in ("T", "S"):
                            changed |= self._bind(fi, n.target, st)
                    elif isinstance(n, (ast.For, ast.comprehension)):
                        if self.expr_state(fi, n.iter) == "T":
                            changed |= self._bind(fi, n.target, "T")
                    elif isinstance(n, ast.Call) and isinstance(n.func, ast.Attribute) and n.func.attr in ("append", "extend", "add", "insert") and isinstance(n.func.value, ast.Name):
                        if any(self.expr_state(fi, a) == "T" for a in n.args):
                            if n.func.value.id not in self.tainted[fi.key]:
                                self.tainted[fi.key].add(n.func.value.id)
                                changed = True
                    elif isinstance(n, ast.Return) and n.value is not None:
                        if self.expr_state(fi, n.value) == "T" and fi.key not in self.ret_tainted:
                            self.ret_tainted.add(fi.key)
                            changed = True
                    if isinstance(n, ast.Call):
                        t = resolve_call(self.ctx.p, fi, n)
                        for g in t.funcs:
                            if g.key not in self.tainted:
                                continue
                            params = [a.arg for a in g.node.args.args]
                            off = 1 if params and params[0] in ("self", "cls") and isinstance(n.func, ast.Attribute) else 0
                            for i, a in enumerate(n.args):
                                if i + off < len(params):
                                    s = self.expr_state(fi, a)
                                    p = params[i + off]
                                    if s == "T" and p not in self.tainted[g.key]:
                                        self.tainted[g.key].add(p)
                                        self.clean[g.key].discard(p)
                                        changed = True
                                    elif s == "S" and p not in self.tainted[g.key] and p not in self.clean[g.key]:
                                        self.clean[g.key].add(p)
                                        changed = True
                            for k in n.keywords:
                                if k.arg in params:
                                    s = self.expr_state(fi, k.value)
                                    if s == "T" and k.arg not in self.tainted[g.key]:
                                        self.tainted[g.key].add(k.arg)
                                        changed = True


def _safe_join_by_evaluation(ctx: Ctx, sj):
    """([(base, name, got, want)], number of classes) from evaluating the sanitiser with models of the os.path functions it calls -- once
    with the POSIX path algebra, once with the Windows one -- or None when it uses something the evaluator does not model."""
    import ntpath
    import posixpath

    from sa.engine.absinterp import Evaluator, Raised

    names = ["", "a", "a/b.txt", "./a", "a/./b", "a/../b", "..", "../y", "a/../../y", "../x.bak/evil", "../x/inside", "/abs", "/tmp/x/in", "\\abs", "C:\\dir\\f", "C:f", "//host/share/f", "a//b", "a/", "...", ".hidden",
             "a\\b", "..\\y", "a\\..\\..\\y"]
    bad, n_cases = [], 0
    for pm, cwd, bases in ((posixpath, "/cwd", ["/tmp/x", "/tmp/x/", "out", "/tmp/x.d"]), (ntpath, "C:\\cwd", ["C:\\tmp\\x", "C:\\tmp\\x\\", "out"])):  # never a root: a fresh temporary directory
        sep = pm.sep

        def abspath(p, pm=pm, cwd=cwd):
            return pm.normpath(pm.join(cwd, p))

        ext = {"os.path.abspath": abspath, "os.path.join": pm.join, "os.path.splitdrive": pm.splitdrive, "os.path.isabs": pm.isabs, "os.path.normpath": pm.normpath, "os.path.realpath": abspath}
        for b in bases:
            root = abspath(b)
            for nme in names:
                n_cases += 1
                if not nme:
                    want = ("value", b)
                elif pm.splitdrive(nme)[0] or pm.isabs(nme) or nme.startswith(("\\", "/")):
                    want = ("raise", None)  # a drive, an absolute name, a leading separator of either convention
                else:
                    t = abspath(pm.join(root, nme))
                    want = ("value", t) if t == root or t.startswith(root.rstrip(sep) + sep) else ("raise", None)
                try:
                    ev = Evaluator(ctx.p, ctx.folder, externals=ext)
                    ev.sep = sep
                    got = ("value", ev.call(sj, [b, nme]))
                except Raised:
                    got = ("raise", None)
                except AnalysisError:
                    return None
                except Exception:  # noqa: BLE001 -- a model function met an argument it has no answer for
                    return None
                if got != want:
                    bad.append((b, nme, "an exception" if got[0] == "raise" else repr(got[1]), "a rejection" if want[0] == "raise" else repr(want[1])))
    return bad, n_cases


def rule_path(ctx: Ctx) -> RuleReport:
    rep = RuleReport("C09-PATH", "member names reach file-system calls only through _safe_join")
    tn = _Taint(ctx)
    n_sinks = 0
    for fi in tn.funcs:
        if fi.qual == SANITISER:
            continue
        for c in calls_in(fi):
            d = dotted(c.func) or ""
            t = resolve_call(ctx.p, fi, c)
            ext = t.external or d
            key = ext if ext in FS_SINKS else (d if d in FS_SINKS else None)
            if key is None:
                continue
            if key in ("os.symlink", "os.link"):
                n_sinks += 1
                rep.fail(Finding("C09-PATH", fi.module.rel, fi.qual, f"{key} while unpacking", f"`{short(c, 60)}` creates a link while unpacking an archive: its target is chosen by the archive (member content or link name), and the read-back that follows opens it — a member can then deliver any host file as its content", line=c.lineno))
                continue
            n_sinks += 1
            rep.unit(fi.key)
            idxs = [FS_SINKS[key]] if FS_SINKS[key] == 0 else [0, FS_SINKS[key]]
            for i in idxs:
                if i >= len(c.args):
                    continue
                st = tn.expr_state(fi, c.args[i])
                if st == "T":
                    rep.fail(Finding("C09-PATH", fi.module.rel, fi.qual, short(c), f"`{d}` is called with a path computed from an archive member name (`{norm(c.args[i])}`) that did not pass `_safe_join`: an absolute or dot-dot member name reaches the host file system", line=c.lineno))
                else:
                    rep.ok({"sink": f"{fi.qual}: {short(c, 60)}", "path_is": {"S": "sanitised by _safe_join", "N": "not derived from a member name"}[st]})
    if n_sinks < 5:
        raise AnalysisError(f"C09-PATH: only {n_sinks} file-system call sites found in the archive modules (floor 5)")
    # the sanitiser itself
    sj = ctx.p.func(SZ, SANITISER)
    tmpl = '''def f(base_dir, relative_path):
    if not relative_path:
        return base_dir
    drive, tail = os.path.splitdrive(relative_path)
    if drive:
        raise Bad7zFile(f"Unsupported absolute path in archive entry: '{relative_path}'")
    if os.path.isabs(relative_path) or relative_path.startswith(('\\\\', '/')):
        raise Bad7zFile(f"Unsupported absolute path in archive entry: '{relative_path}'")
    base_abs = os.path.abspath(base_dir)
    target_abs = os.path.abspath(os.path.join(base_abs, tail))
    if target_abs == base_abs:
        return target_abs
    if not target_abs.startswith(base_abs + os.sep):
        raise Bad7zFile(f"Unsafe path in archive entry: '{relative_path}'")
    return target_abs
'''
    # what leaves the sanitiser must be the very value the containment test looked at
    rewritten = False
    checked = set()
    for n in walk_own(sj.node):
        if isinstance(n, ast.Call) and isinstance(n.func, ast.Attribute) and n.func.attr == "startswith" and isinstance(n.func.value, ast.Name):
            checked.add(n.func.value.id)
    for n in walk_own(sj.node):
        if isinstance(n, ast.Return) and n.value is not None:
            if isinstance(n.value, ast.Name) and (n.value.id in checked or n.value.id == sj.node.args.args[0].arg):
                # and it is not reassigned after the test
                rep.ok({"_safe_join": f"returns the checked value {n.value.id}"})
            else:
                rewritten = True
                rep.fail(Finding("C09-PATH", SZ, SANITISER, "return " + short(n.value, 80),
                                 "the sanitiser returns something other than the path it checked for containment: whatever is done to the path after the check (separator rewriting, normalisation) is not covered by it", line=n.lineno))
    for n in walk_own(sj.node):
        if isinstance(n, (ast.Assign, ast.AugAssign)):
            tg = n.targets[0] if isinstance(n, ast.Assign) else n.target
            if isinstance(tg, ast.Name) and tg.id in checked:
                tests = [c for c in walk_own(sj.node) if isinstance(c, ast.Call) and isinstance(c.func, ast.Attribute) and c.func.attr == "startswith" and isinstance(c.func.value, ast.Name) and c.func.value.id == tg.id]
                if tests and n.lineno > min(t.lineno for t in tests):
                    rewritten = True
                    rep.fail(Finding("C09-PATH", SZ, SANITISER, short(n, 80), "the checked path is reassigned after the containment test", line=n.lineno))
    # the containment test compares with the base directory *plus a separator*: a bare prefix test accepts the sibling '/tmp/x.bak' of '/tmp/x'
    for n in walk_own(sj.node):
        if isinstance(n, ast.Call) and isinstance(n.func, ast.Attribute) and n.func.attr == "startswith" and n.args and isinstance(n.func.value, ast.Name) and n.func.value.id in checked:
            a = n.args[0]
            if not any(isinstance(x, ast.Name) for x in ast.walk(a)):
                continue  # a test against literal characters (leading separator), not the containment test
            with_sep = isinstance(a, ast.BinOp) and isinstance(a.op, ast.Add) and (norm(a.right) in ("os.sep", "os.path.sep", "'/'", "sep")) or (isinstance(a, ast.Call) and (dotted(a.func) or "").endswith("join") and a.args and isinstance(a.args[-1], ast.Constant) and a.args[-1].value == "")
            if with_sep:
                rep.ok({"_safe_join": f"containment by prefix + separator: {short(n, 60)}"})
            else:
                rewritten = True
                rep.fail(Finding("C09-PATH", SZ, SANITISER, "containment by bare prefix: " + anorm(n, sj.node), f"`{short(n, 60)}` accepts every path that merely *starts with the text* of the extraction directory: the member '../<dir>.bak/evil.txt' lands in a sibling directory whose name begins like the extraction directory, outside of it", line=n.lineno))
    # os.path.sep is os.sep
    import copy

    class _Sep(ast.NodeTransformer):
        def visit_Attribute(self, n):
            self.generic_visit(n)
            if n.attr == "sep" and isinstance(n.value, ast.Attribute) and n.value.attr == "path" and isinstance(n.value.value, ast.Name) and n.value.value.id == "os":
                return ast.copy_location(ast.Attribute(value=ast.Name(id="os", ctx=ast.Load()), attr="sep", ctx=n.ctx), n)
            return n

    r = compare_function(ast.fix_missing_locations(_Sep().visit(copy.deepcopy(sj.node))), tmpl)
    sem = None if rewritten or r == "equal" else _safe_join_by_evaluation(ctx, sj)
    if rewritten:
        pass
    elif sem is not None:
        # another spelling than the confirmed one: decided by evaluating the function over the partition of (directory, member name) pairs
        # its own operations induce, against the containment semantics written down from the property
        bad, n_cases = sem
        if not bad:
            rep.ok({"_safe_join": f"evaluated over {n_cases} (directory, member name) classes: returns the directory or a path below it, rejects absolute, drive and escaping names, rejects nothing else"})
        for (base, rel, got, want) in bad[:3]:
            rep.fail(Finding("C09-PATH", SZ, SANITISER, f"_safe_join({base!r}, {rel!r}) -> {got}", f"for the extraction directory {base!r} and the member name {rel!r} the sanitiser gives {got}; containment requires {want}", line=sj.node.lineno))
    elif r == "equal":
        rep.ok({"_safe_join": "empty -> base; drive -> reject; absolute / leading separator -> reject; abspath must stay under base + os.sep"})
    elif r == "leaves":
        rep.fail(Finding("C09-PATH", SZ, SANITISER, " ; ".join(norm(s) for s in sj.node.body)[:300], "_safe_join has its structure but a test, operand or constant differs from the containment check", line=sj.node.lineno))
    else:
        raise AnalysisError("C09-PATH: _safe_join no longer has the recognised structure")
    # nothing rewrites a sanitised path afterwards (e.g. replacing separators)
    for fi in tn.funcs:
        for n in walk_own(fi.node):
            if isinstance(n, ast.Assign) and isinstance(n.value, ast.Call) and isinstance(n.value.func, ast.Attribute) and n.value.func.attr in ("replace", "translate", "format", "lstrip", "strip"):
                if tn.expr_state(fi, n.value.func.value) == "S":
                    rep.fail(Finding("C09-PATH", fi.module.rel, fi.qual, norm(n), "a path returned by _safe_join is rewritten afterwards; the containment check no longer covers the path that is used", line=n.lineno))
    return rep


def _with_vars(fi, callee_suffixes):
    out = {}
    for n in walk_own(fi.node):
        if isinstance(n, (ast.With, ast.AsyncWith)):
            for it in n.items:
                if isinstance(it.context_expr, ast.Call) and (dotted(it.context_expr.func) or "").split(".")[-1] in callee_suffixes and isinstance(it.optional_vars, ast.Name):
                    out[it.optional_vars.id] = (n, it.context_expr)
    return out


def rule_mem(ctx: Ctx) -> RuleReport:
    rep = RuleReport("C09-MEM", "ZIP/TAR members are read in memory only; only regular TAR members")
    m = ctx.p.module(ARCH)
    n = 0
    for fi in m.functions.values():
        zs = _with_vars(fi, {"ZipFile"})
        ts = _with_vars(fi, {"open"})
        ts = {k: v for k, v in ts.items() if (dotted(v[1].func) or "") == "tarfile.open"}
        for var, kind in [(v, "zip") for v in zs] + [(v, "tar") for v in ts]:
            rep.unit(f"{fi.key}:{var}")
            for c in calls_in(fi):
                if isinstance(c.func, ast.Attribute) and isinstance(c.func.value, ast.Name) and c.func.value.id == var:
                    n += 1
                    allowed = {"zip": {"infolist", "read", "namelist", "getinfo", "testzip"}, "tar": {"getmembers", "extractfile", "getnames", "next"}}[kind]
                    if c.func.attr in allowed:
                        rep.ok({"handle": f"{fi.qual}:{var}", "call": c.func.attr})
                    else:
                        rep.fail(Finding("C09-MEM", ARCH, fi.qual, short(c), f"`{var}.{c.func.attr}` is not an in-memory read: members must never be extracted to the file system", line=c.lineno))
                    if c.func.attr == "extractfile":
                        conds, opaque, _ = path_conditions(fi.node, c, terminals=("continue", "return", "break"))
                        cs = {str(x) for x in conds}
                        arg = norm(c.args[0]) if c.args else "?"
                        if f"{arg}.isreg()" in cs and not any("islnk" in o or "issym" in o or "isreg" in o for o in opaque):
                            rep.ok({"extractfile": f"only when {arg}.isreg()"})
                        else:
                            rep.fail(Finding("C09-MEM", ARCH, fi.qual, short(c), f"tf.extractfile({arg}) is reachable for members that are not regular files (guards: {sorted(cs) + opaque}); a link member would deliver the bytes of another member or of nothing, bypassing the name and size filters applied to the link entry", line=c.lineno))
        # open mode of the archives
        for var, (w, call) in list(zs.items()):
            mode = call.args[1] if len(call.args) > 1 else None
            if mode is None or (isinstance(mode, ast.Constant) and mode.value == "r"):
                rep.ok()
            else:
                rep.fail(Finding("C09-MEM", ARCH, fi.qual, short(call), "the ZIP archive is not opened read-only", line=call.lineno))
    if n < 4:
        raise AnalysisError(f"C09-MEM: only {n} calls on ZIP/TAR handles found")
    return rep


def rule_tmp(ctx: Ctx) -> RuleReport:
    rep = RuleReport("C09-TMP", "temporary storage only through `with tempfile.TemporaryDirectory()`; all uses inside the with")
    banned = {"tempfile.mkdtemp", "tempfile.mkstemp", "tempfile.mktemp", "mkdtemp", "mkstemp"}
    n_td = 0
    for rel in (ARCH, SZ):
        for fi in ctx.p.module(rel).functions.values():
            for c in calls_in(fi):
                d = dotted(c.func) or ""
                t = resolve_call(ctx.p, fi, c)
                ext = t.external or d
                if d in banned or ext in banned:
                    rep.fail(Finding("C09-TMP", rel, fi.qual, short(c), f"`{d}` creates temporary storage that nothing removes when the generator is closed early or fails before its cleanup is armed", line=c.lineno))
                if ext.endswith("NamedTemporaryFile") and any(k.arg == "delete" and isinstance(k.value, ast.Constant) and k.value.value is False for k in c.keywords):
                    rep.fail(Finding("C09-TMP", rel, fi.qual, short(c), "NamedTemporaryFile(delete=False) leaves a file behind", line=c.lineno))
                if ext.endswith("TemporaryDirectory"):
                    n_td += 1
                    withs = [w for w in walk_own(fi.node) if isinstance(w, ast.With) and any(it.context_expr is c for it in w.items)]
                    if not withs:
                        rep.fail(Finding("C09-TMP", rel, fi.qual, short(c), "TemporaryDirectory is not used as a with-item: its removal is not tied to the generator's lifetime", line=c.lineno))
                        continue
                    w = withs[0]
                    var = [it.optional_vars.id for it in w.items if it.context_expr is c and isinstance(it.optional_vars, ast.Name)]
                    inside = {id(x) for st in w.body for x in ast.walk(st)}
                    for nm in [x for x in walk_own(fi.node) if isinstance(x, ast.Name) and var and x.id == var[0] and isinstance(x.ctx, ast.Load)]:
                        if id(nm) in inside:
                            rep.ok({"TemporaryDirectory": f"{var[0]} used inside its with-block"})
                        else:
                            rep.fail(Finding("C09-TMP", rel, fi.qual, var[0], "the temporary directory's name is used outside its with-block", line=nm.lineno))
                    # results that depend on the directory are handed out inside the with
                    ys = [y for y in walk_own(fi.node) if isinstance(y, (ast.Yield, ast.YieldFrom)) and var and var[0] in {n.id for n in ast.walk(y) if isinstance(n, ast.Name)}]
                    for y in ys:
                        if id(y) in inside:
                            rep.ok({"yield_inside_with": short(y, 50)})
                        else:
                            rep.fail(Finding("C09-TMP", rel, fi.qual, short(y), "results are produced from the temporary directory after it was removed", line=y.lineno))
    if n_td < 1 and not rep.findings:
        # no temporary directory at all would also satisfy the property, but the 7z path is known to need one: treat as idiom change
        raise AnalysisError("C09-TMP: no TemporaryDirectory use found in the archive modules (7z extraction idiom changed)")
    return rep


def rule_skip(ctx: Ctx) -> RuleReport:
    rep = RuleReport("C09-SKIP", "skip rules dominate every per-member processing step; nested-archive table covers every routed spelling")
    m = ctx.p.module(ARCH)
    pe_calls = []
    for fi in m.functions.values():
        for c in calls_in(fi):
            if any(g.qual == "_process_archive_entry" for g in resolve_call(ctx.p, fi, c).funcs):
                pe_calls.append((fi, c))
    if len(pe_calls) < 3:
        raise AnalysisError(f"C09-SKIP: only {len(pe_calls)} call sites of _process_archive_entry (floor 3)")
    # whatever the router sends back to read_archive is a nested archive, listed suffix or not (the router also knows suffixes through
    # the MIME database: .taz, .tz)
    sk = ctx.p.func(ARCH, "_should_skip_file")
    ident = [i for i in walk_own(sk.node) if isinstance(i, ast.If) and isinstance(i.test, ast.Compare) and len(i.test.ops) == 1 and isinstance(i.test.ops[0], (ast.Is, ast.Eq))
             and any(isinstance(x, ast.Name) and x.id == "read_archive" for x in ast.walk(i.test)) and any(isinstance(x, ast.Call) and "extractor" in (dotted(x.func) or "").lower() for x in ast.walk(i.test))
             and i.body and isinstance(i.body[-1], ast.Return) and isinstance(i.body[-1].value, ast.Constant) and i.body[-1].value.value is True]
    ident_ok = bool(ident)
    if ident:
        rep.ok({"_should_skip_file": "skips every member the router sends back to read_archive"})
    else:
        rep.fail(Finding("C09-SKIP", ARCH, sk.qual, "no routed-extractor test", "_should_skip_file recognises nested archives by a list of suffixes only; the router also accepts archive suffixes through the MIME database (.taz, .tz), and such a member is unpacked and its inner files returned", line=sk.node.lineno))
    for fi, c in pe_calls:
        rep.unit(fi.key)
        target_fi, target = fi, c
        name_arg = norm(c.args[0]) if c.args else "?"
        base_arg = norm(c.args[3]) if len(c.args) > 3 else "?"
        if fi.qual == "_process_7z_files_sequential":
            # the filter is applied where the work list is built
            target_fi = ctx.p.func(ARCH, "_extract_from_7z_optimized")
            apps = [x for x in calls_in(target_fi) if isinstance(x.func, ast.Attribute) and x.func.attr == "append" and isinstance(x.func.value, ast.Name) and x.args and isinstance(x.args[0], ast.Tuple) and len(x.args[0].elts) == 3]
            if not apps:
                raise AnalysisError("C09-SKIP: 7z work-list construction not recognised")
            target = apps[0]
        zip_two_phase = fi.qual == "_extract_from_zip_optimized"
        if zip_two_phase:
            apps = [x for x in calls_in(fi) if isinstance(x.func, ast.Attribute) and x.func.attr == "append" and isinstance(x.func.value, ast.Name) and x.args and isinstance(x.args[0], ast.Tuple) and len(x.args[0].elts) == 3]
            if apps:
                conds_a, opq_a, _ = path_conditions(fi.node, apps[0], terminals=("continue", "return", "break"))
                cs = {str(x) for x in conds_a}
                el = apps[0].args[0].elts
                if f"not _should_skip_file({norm(el[1])}, {norm(el[2])})" in cs:
                    rep.ok({"zip": "work list filtered by _should_skip_file"})
                else:
                    rep.fail(Finding("C09-SKIP", ARCH, fi.qual, short(apps[0]), "ZIP members enter the work list without the skip filter", line=apps[0].lineno))
        conds, opaque, _ = path_conditions(target_fi.node, target, terminals=("continue", "return", "break"))
        cs = {str(x) for x in conds}
        has_skip = any(s.startswith("not _should_skip_file(") for s in cs) or zip_two_phase
        if has_skip:
            rep.ok({"site": f"{fi.qual}: {short(c, 50)}", "dominated_by": "_should_skip_file(...) is False"})
        else:
            rep.fail(Finding("C09-SKIP", ARCH, target_fi.qual, short(target), f"member processing is reachable without the skip filter (hidden / __MACOSX / unsupported / nested archive); guards: {sorted(cs)}", line=target.lineno))
        conds2, _, _ = path_conditions(fi.node, c, terminals=("continue", "return", "break")) if target_fi is fi else (conds, None, None)
        allc = {str(x) for x in conds} | {str(x) for x in conds2}
        if any("_config.max_memory_size >=" in s for s in allc):
            rep.ok({"site": fi.qual, "size_test": [s for s in allc if "max_memory_size" in s][0]})
        else:
            rep.fail(Finding("C09-SKIP", ARCH, target_fi.qual, short(target), "oversize members are not filtered before processing", line=target.lineno))
    # the filter's clauses
    sk = ctx.p.func(ARCH, "_should_skip_file")
    tests = [norm(n.test) for n in sk.node.body if isinstance(n, ast.If)]
    need = {
        "hidden": lambda t: "basename.startswith('.')" in t,
        "macosx": lambda t: "filename.startswith('__MACOSX/')" in t,
        "unsupported": lambda t: t.startswith("not _is_supported_file_cached(basename)"),
        "nested": lambda t: "NESTED_ARCHIVE_EXTENSIONS" in t and "endswith" in t,
    }
    for k, pred in need.items():
        if any(pred(t) for t in tests) or (k == "nested" and ident_ok):
            rep.ok({"_should_skip_file": k})
        else:
            rep.fail(Finding("C09-SKIP", ARCH, sk.qual, k, f"the `{k}` clause vanished from _should_skip_file (tests: {tests})", line=sk.node.lineno))
    for n in sk.node.body:
        if isinstance(n, ast.If) and not (isinstance(n.body[-1], ast.Return) and norm(n.body[-1]) == "return True"):
            rep.fail(Finding("C09-SKIP", ARCH, sk.qual, norm(n.test), "a skip clause no longer returns True", line=n.lineno))
    nested_loop = [n for n in walk_own(sk.node) if isinstance(n, ast.Assign) and norm(n.targets[0]) == "ext"]
    if nested_loop and norm(nested_loop[0].value) != "basename.lower()" and not ident_ok:
        rep.fail(Finding("C09-SKIP", ARCH, sk.qual, norm(nested_loop[0]), "nested-archive suffixes are not matched against the lower-cased base name", line=nested_loop[0].lineno))
    # TABLE-AGREE: every spelling routed to read_archive is matched by the nested set
    reg = ctx.const(ROUTER, "_EXTRACTOR_REGISTRY")
    ali = ctx.const(ROUTER, "_EXTENSION_ALIASES")
    comp = ctx.const(ROUTER, "_COMPOUND_EXTENSIONS")
    nested = ctx.const(ARCH, "NESTED_ARCHIVE_EXTENSIONS")
    if any(v is UNKNOWN for v in (reg, ali, comp, nested)):
        raise AnalysisError("C09-SKIP: routing / nested-archive tables are no longer foldable")
    arch_types = {k for k, v in reg.items() if v[1] == "read_archive"}
    spellings = {"." + k for k in arch_types} | {"." + a for a, b in ali.items() if b in arch_types} | {c for c, b in comp.items() if b in arch_types}
    for sp in sorted(spellings):
        if any(sp.endswith(n) for n in nested):
            rep.ok({"routed_spelling": sp, "matched_by_nested_set": True})
        elif ident_ok:
            rep.ok({"routed_spelling": sp, "matched_by": "the routed-extractor test (not in the suffix list)"})
        else:
            rep.fail(Finding("C09-SKIP", ARCH, "NESTED_ARCHIVE_EXTENSIONS", sp, f"a member named *{sp} is routed to the archive reader but not recognised as a nested archive: it is unpacked recursively", line=None))
    for n in sorted(nested):
        if (n != n.lower() or not n.startswith(".")) and not ident_ok:
            rep.fail(Finding("C09-SKIP", ARCH, "NESTED_ARCHIVE_EXTENSIONS", n, "nested-archive suffixes must be lower-case and start with a dot (they are matched against the lower-cased name)"))
    return rep


def rule_label(ctx: Ctx) -> RuleReport:
    """Results of archive members are labelled `<archive>!/<member>` with the member name exactly as stored.
    The structural check is the one C10-LABEL performs; here it is an obligation of C09's 'member names are only ever labels'."""
    from . import c10

    src = c10.rule_label(ctx)
    rep = RuleReport("C09-LABEL", "the member name reaches results only through the literal label f'{archive}!/{member}', never through a path function")
    rep.obligations, rep.discharged, rep.residual, rep.info, rep.samples, rep.units = src.obligations, src.discharged, src.residual, src.info, src.samples, src.units
    for f in src.findings:
        rep.findings.append(Finding("C09-LABEL", f.file, f.function, f.construct, f.message, line=f.line))
    return rep


RULES = [rule_path, rule_mem, rule_tmp, rule_skip, rule_label]
