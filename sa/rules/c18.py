"""C18 — SharePoint listing is complete, exact and fault-contained."""
from __future__ import annotations

import ast

from sa.engine.callgraph import calls_in, resolve_call
from sa.engine.cfg import must_pass_after, normally_dominates
from sa.engine.context import Ctx
from sa.engine.guards import atoms, path_conditions
from sa.engine.loader import anorm, local_names, AnalysisError, dotted, norm, short, walk_own
from sa.engine.report import Finding, RuleReport
from sa.rules.common import exception_family, raised_class

CL = "sharepoint2text/sharepoint_io/client.py"
EX = "sharepoint2text/sharepoint_io/exceptions.py"
C = "SharePointRestClient"

EXPLANATION = (
    "Completeness and exactly-once over all library trees, paginations and fault sequences are value-level and not decided. "
    "Decided: (IO) only _send performs network I/O. (ERR) every fallible call on the request path (transport call, "
    "response.read/getcode, json.loads, strict decode, .get on parsed JSON) is enclosed by handlers that raise the client's "
    "own error family — the request error with status and URL for HTTP/network failures. (CLOSE) the response, and the "
    "HTTPError object that is itself an open response, are closed on every path (PAIR over the CFG with exceptional "
    "edges). (CACHE) the token / site-id caches are written only after the last fallible step. (STATE) listing keeps no "
    "other per-client state, so a retry after a failure starts from scratch. (CMP) FileFilter.matches rejects iff dt < "
    "after / dt >= before for both date pairs, compares extensions with both operands lower-cased and matches patterns "
    "against the full path. (PART) files and folders partition the listing on the same key tests; both pagination loops "
    "follow @odata.nextLink; the walk yields every file of a folder and recurses into every folder that has an id. (PROP) on the listing path every handler that can catch the client's error family re-raises on every path. (ERR, continued) a request error raised with a status is never raised inside a try whose handler catches it and raises another error. (PART, continued) skip-path enumeration of the walk: every listed file is yielded and a folder is skipped only when it has no id."
)
NOT_DECIDED = ["completeness / exactly-once over arbitrary trees and page sizes", "results of retries (value level)", "fnmatch and datetime.fromisoformat semantics"]
TRUSTED = ["urllib raises HTTPError (an open response) for non-2xx answers when the transport is urlopen", "CFG with exceptional edges"]
FLOORS = {"C18-IO": 2, "C18-ERR": 8, "C18-CLOSE": 2, "C18-CACHE": 2, "C18-STATE": 1, "C18-CMP": 8, "C18-PART": 8, "C18-PROP": 9}


def _family(ctx):
    return exception_family(ctx, "SharePointError", EX)


def _methods(ctx):
    c = ctx.p.cls(CL, C)
    return c, c.methods


def _enclosing_handlers(fn, node):
    """Handler class names of all try statements whose body contains node (innermost first), with the handler objects."""
    out = []
    for t in walk_own(fn):
        if isinstance(t, ast.Try) and any(x is node for st in t.body for x in ast.walk(st)):
            out.append(t)
    out.sort(key=lambda t: -t.lineno)
    return out


def _hnames(h):
    if h.type is None:
        return ["BaseException"]
    els = h.type.elts if isinstance(h.type, ast.Tuple) else [h.type]
    return [(dotted(e) or norm(e)).split(".")[-1] for e in els]


COVERS = {
    "transport": [{"HTTPError", "OSError", "HTTPException"}],
    "read": [{"Exception"}, {"OSError", "HTTPException"}],
    "json": [{"JSONDecodeError"}, {"ValueError"}, {"Exception"}],
    "decode": [{"UnicodeDecodeError"}, {"ValueError"}, {"UnicodeError"}, {"Exception"}],
}


def _covered(fn, node, kind, family):
    """Is node enclosed by handlers that catch each required class and end in raising a family error?"""
    tries = _enclosing_handlers(fn, node)
    need = COVERS[kind]
    got = set()
    for t in tries:
        for h in t.handlers:
            last = h.body[-1] if h.body else None
            if isinstance(last, ast.Raise) and raised_class(last) in family:
                got |= set(_hnames(h))
    if kind == "transport":
        # urlopen wraps only the connect phase in URLError: timeouts and resets while the answer is read are bare
        # OSError (TimeoutError, ConnectionResetError, ssl.SSLError), a malformed answer is http.client.HTTPException
        return ("OSError" in got and "HTTPException" in got and "HTTPError" in got) or "Exception" in got
    return any(alt <= got for alt in need) or "Exception" in got


def rule_io(ctx: Ctx) -> RuleReport:
    rep = RuleReport("C18-IO", "only _send performs network I/O")
    cls, methods = _methods(ctx)
    for name, fi in methods.items():
        for c in calls_in(fi):
            d = dotted(c.func) or ""
            if d == "self._request":
                if name == "_send":
                    rep.ok({"transport_call": "SharePointRestClient._send"})
                else:
                    rep.fail(Finding("C18-IO", CL, fi.qual, short(c), "the transport is called outside _send: its error conversion and close discipline are bypassed", line=c.lineno))
            if d in ("urlopen", "urllib.request.urlopen"):
                rep.fail(Finding("C18-IO", CL, fi.qual, short(c), "urlopen is called directly instead of through the injectable transport", line=c.lineno))
    init = methods.get("__init__")
    if init and any(norm(n) == "self._request = request_func or urlopen" for n in walk_own(init.node) if isinstance(n, ast.Assign)):
        rep.ok({"transport_default": "request_func or urlopen"})
    else:
        rep.fail(Finding("C18-IO", CL, f"{C}.__init__", "self._request", "the transport is no longer `request_func or urlopen`", line=cls.node.lineno))
    return rep


def _acond(conds, fn_node) -> set[str]:
    """Path conditions with local names replaced by v0, v1.. (each condition numbered on its own)."""
    locs = local_names(fn_node)
    out = set()
    for c in conds:
        try:
            out.add(anorm(ast.parse(str(c), mode="eval").body, rename=locs))
        except SyntaxError:
            out.add(str(c))
    return out


def _resp_var(send) -> str | None:
    """The local of _send that holds the open response: assigned from self._request(...)."""
    for n in walk_own(send.node):
        if isinstance(n, ast.Assign) and len(n.targets) == 1 and isinstance(n.targets[0], ast.Name) and isinstance(n.value, ast.Call) and (dotted(n.value.func) or "") == "self._request":
            return n.targets[0].id
    return None


def _parses(c: str) -> bool:
    try:
        ast.parse(c, mode="eval")
        return True
    except SyntaxError:
        return False


def rule_err(ctx: Ctx) -> RuleReport:
    rep = RuleReport("C18-ERR", "fallible calls on the request path are converted into the client's own error family")
    fam = _family(ctx)
    cls, methods = _methods(ctx)
    RV = _resp_var(methods["_send"]) or "response"
    for name, fi in methods.items():
        for c in calls_in(fi):
            d = dotted(c.func) or ""
            kind = None
            if d == "self._request":
                kind = "transport"
            elif d in (f"{RV}.read", f"{RV}.getcode"):
                kind = "read"
            elif d == "json.loads":
                kind = "json"
            elif isinstance(c.func, ast.Attribute) and c.func.attr == "decode" and not any(k.arg == "errors" for k in c.keywords) and len(c.args) < 2:
                kind = "decode"
            if kind is None:
                continue
            rep.unit(fi.key)
            if _covered(fi.node, c, kind, fam):
                rep.ok({"call": f"{fi.qual}: {short(c, 50)}", "kind": kind, "converted_to": "SharePointError family"})
            else:
                rep.fail(Finding("C18-ERR", CL, fi.qual, short(c), f"a failure of `{short(c, 40)}` ({kind}) escapes {name} as a foreign exception instead of an error of the client's family", line=c.lineno))
    # raises inside _send carry status and URL
    send = methods["_send"]
    for r in [n for n in walk_own(send.node) if isinstance(n, ast.Raise) and n.exc is not None]:
        cls_name = raised_class(r)
        if cls_name not in fam:
            rep.fail(Finding("C18-ERR", CL, send.qual, short(r, 80), f"_send raises {cls_name}, which is outside the client's error family", line=r.lineno))
            continue
        if cls_name == "SharePointRequestError":
            kws = {k.arg: norm(k.value) for k in r.exc.keywords} if isinstance(r.exc, ast.Call) else {}
            if kws.get("url") == "request.full_url" and "status_code" in kws:
                rep.ok({"raise": short(r, 50), "carries": "status_code, url"})
            else:
                rep.fail(Finding("C18-ERR", CL, send.qual, short(r, 80), "the request error does not carry the status code and the URL of the failed request", line=r.lineno))
    # a request error that carries a status is not caught again and replaced on its way out of _send
    for r in [n for n in walk_own(send.node) if isinstance(n, ast.Raise) and n.exc is not None and raised_class(n) in fam]:
        kws = {k.arg: k.value for k in r.exc.keywords} if isinstance(r.exc, ast.Call) else {}
        sc = kws.get("status_code")
        if sc is None or (isinstance(sc, ast.Constant) and sc.value is None):
            continue
        masked = None
        for t in _enclosing_handlers(send.node, r):
            for h in t.handlers:
                if set(_hnames(h)) & ({raised_class(r), "SharePointError", "Exception", "BaseException"}):
                    if not (len(h.body) == 1 and isinstance(h.body[0], ast.Raise) and h.body[0].exc is None):
                        masked = h
                    break
            if masked is not None:
                break
        if masked is None:
            rep.ok({"raise": short(r, 50), "status_reaches_caller": True})
        else:
            rep.fail(Finding("C18-ERR", CL, send.qual, "masked: " + anorm(r.exc.func if isinstance(r.exc, ast.Call) else r.exc, send.node) + " status_code=" + anorm(sc, send.node),
                             f"the request error raised with status_code={short(sc, 30)} is raised inside a try whose `except {', '.join(_hnames(masked))}` handler (line {masked.lineno}) catches it and raises something else: the caller sees an error without the HTTP status", line=r.lineno))
    # nobody converts the request error (status + URL) into another class on its way to the caller
    for name, fi in methods.items():
        for t in [n for n in walk_own(fi.node) if isinstance(n, ast.Try)]:
            for h in t.handlers:
                if "SharePointRequestError" not in _hnames(h):
                    continue
                conv = [r for st in h.body for r in ast.walk(st) if isinstance(r, ast.Raise) and r.exc is not None and raised_class(r) not in (None, "SharePointRequestError") and not (isinstance(r.exc, ast.Name) and r.exc.id == h.name)]
                if conv:
                    rep.fail(Finding("C18-ERR", CL, fi.qual, "request error converted to " + str(raised_class(conv[0])), f"{name} catches SharePointRequestError and raises {raised_class(conv[0])} instead: the caller no longer gets the request error with the HTTP status and the URL of the failed request", line=conv[0].lineno))
                else:
                    rep.ok({"handler": f"{fi.qual}: except SharePointRequestError", "keeps_class": True})
    # a request error is absorbed (turned into "nothing there") only for HTTP 404
    for name, fi in methods.items():
        for t in [n for n in walk_own(fi.node) if isinstance(n, ast.Try)]:
            for h in t.handlers:
                if not (set(_hnames(h)) & (fam | {"Exception", "BaseException"})) or not h.name:
                    continue
                for r in [x for st in h.body for x in ast.walk(st) if isinstance(x, (ast.Return, ast.Continue, ast.Pass))]:
                    if isinstance(r, ast.Pass) and len(h.body) > 1:
                        continue
                    conds, opaque, _ = path_conditions(fi.node, r, terminals=("continue", "return", "break", "raise"))
                    cs = {x for x in ({str(c) for c in conds} | set(opaque)) if not x.startswith("except ")}
                    want = f"{h.name}.status_code == 404"
                    if cs == {want}:
                        rep.ok({"absorbed": f"{fi.qual}: {want}"})
                    elif name in ("_send",):
                        continue
                    else:
                        rep.fail(Finding("C18-ERR", CL, fi.qual, "request error absorbed when " + (" and ".join(sorted(anorm(ast.parse(c, mode='eval').body, fi.node) if _parses(c) else c for c in cs)) or "always"),
                                         f"{name} swallows the client's error and goes on (`{short(r, 30)}`) under `{' and '.join(sorted(cs)) or 'no condition'}`; only HTTP 404 means 'nothing there' — a 401 / 403 / 429 must fail the call instead of producing an empty listing", line=r.lineno))
    # HTTP status of the HTTPError path
    for t in [n for n in walk_own(send.node) if isinstance(n, ast.Try)]:
        for h in t.handlers:
            if "HTTPError" in _hnames(h):
                last = h.body[-1]
                kws = {k.arg: norm(k.value) for k in last.exc.keywords} if isinstance(last, ast.Raise) and isinstance(last.exc, ast.Call) else {}
                if kws.get("status_code") == f"{h.name}.code":
                    rep.ok({"HTTPError": "status_code=exc.code"})
                else:
                    rep.fail(Finding("C18-ERR", CL, send.qual, "except HTTPError", "the HTTP status of the failed request is not reported", line=h.lineno))
    # non-2xx without exception is rejected
    tests = [anorm(n.test, send.node) for n in walk_own(send.node) if isinstance(n, ast.If) and n.body and isinstance(n.body[-1], ast.Raise)]
    if "v0 is None or not 200 <= v0 < 300" in tests:
        rep.ok({"non_2xx": "rejected"})
    else:
        rep.fail(Finding("C18-ERR", CL, send.qual, "; ".join(tests), "a non-2xx status returned without exception is no longer rejected (expected `status is None or not 200 <= status < 300`)", line=send.node.lineno))
    # parsed JSON is an object before .get is used
    gj = methods["_get_json"]
    cfg = ctx.cfg(gj)
    rets = [n for n in walk_own(gj.node) if isinstance(n, ast.Return) and n.value is not None]
    chk = [n for n in walk_own(gj.node) if isinstance(n, ast.If) and "isinstance" in norm(n.test) and "dict" in norm(n.test)]
    if chk and all(all(normally_dominates(cfg, cfg.evaluators(chk[0].test), b) for b in cfg.evaluators(r)) for r in rets):
        rep.ok({"_get_json": "returns only JSON objects"})
    else:
        rep.fail(Finding("C18-ERR", CL, gj.qual, "return json.loads(text)", "_get_json can return a JSON value that is not an object; callers use .get on it and fail with AttributeError", line=gj.node.lineno))
    ft = methods["fetch_access_token"]
    cfgt = ctx.cfg(ft)
    chk = [n for n in walk_own(ft.node) if isinstance(n, ast.If) and anorm(n.test, ft.node) in ("not isinstance(v0, dict)",) and isinstance(n.body[-1], ast.Raise)]
    dvar = next((x.id for n in chk for x in ast.walk(n.test) if isinstance(x, ast.Name) and x.id not in ("isinstance", "dict")), "data")
    gets = [c for c in calls_in(ft) if norm(c.func) == f"{dvar}.get"]
    if gets and chk and all(all(normally_dominates(cfgt, cfgt.evaluators(chk[0].test), b) for b in cfgt.evaluators(g)) for g in gets):
        rep.ok({"fetch_access_token": "token answer checked to be an object"})
    else:
        rep.fail(Finding("C18-ERR", CL, ft.qual, "data.get('access_token')", "the token answer is used as a dict without being checked", line=ft.node.lineno))
    return rep


def rule_close(ctx: Ctx) -> RuleReport:
    rep = RuleReport("C18-CLOSE", "responses (including the one carried by HTTPError) are closed on every path")
    cls, methods = _methods(ctx)
    send = methods["_send"]
    rep.unit(send.key)
    cfg = ctx.cfg(send)
    RV = _resp_var(send)
    acq = [n for n in walk_own(send.node) if isinstance(n, ast.Assign) and RV is not None and norm(n.targets[0]) == RV and isinstance(n.value, ast.Call)]
    closes = [c for c in calls_in(send) if norm(c.func) == f"{RV}.close"]
    if not acq:
        raise AnalysisError("C18-CLOSE: response acquisition not found in _send")
    if not closes:
        rep.fail(Finding("C18-CLOSE", CL, send.qual, "response.close()", "the response is never closed", line=send.node.lineno))
    else:
        through = [x for c in closes for x in cfg.evaluators(c)]
        # `if response is not None:` around the close: the false branch means there is nothing to close
        for nd in cfg.nodes:
            if nd.kind == "test" and norm(nd.ast) == f"{RV} is not None":
                through += [s2 for s2 in cfg.succ[nd.id] if cfg.elabel.get((nd.id, s2)) == "false"]
        w = must_pass_after(cfg, [x for a in acq for x in cfg.evaluators(a)], through)
        if w is None:
            rep.ok({"response": "closed on every normal and exceptional path after it was obtained"})
        else:
            rep.fail(Finding("C18-CLOSE", CL, send.qual, "response.close()", "a path from obtaining the response to an exit skips response.close(): " + " -> ".join(cfg.describe_path(w)), line=acq[0].lineno, path=cfg.describe_path(w)))
    # HTTPError handler
    found = False
    for t in [n for n in walk_own(send.node) if isinstance(n, ast.Try)]:
        for h in t.handlers:
            if "HTTPError" in _hnames(h) and h.name:
                found = True
                cl = [c for st in h.body for c in ast.walk(st) if isinstance(c, ast.Call) and norm(c.func) == f"{h.name}.close"]
                hn = cfg.nodes_of(h)
                if not cl:
                    rep.fail(Finding("C18-CLOSE", CL, send.qual, f"except HTTPError as {h.name}", "the HTTPError object is an open response; it is read but never closed", line=h.lineno))
                    continue
                w = must_pass_after(cfg, hn, [x for c in cl for x in cfg.evaluators(c)])
                if w is None:
                    rep.ok({"HTTPError": f"{h.name}.close() on every path out of the handler"})
                else:
                    rep.fail(Finding("C18-CLOSE", CL, send.qual, f"{h.name}.close()", "a path through the HTTPError handler skips closing the error response: " + " -> ".join(cfg.describe_path(w)), line=h.lineno))
    if not found:
        rep.fail(Finding("C18-CLOSE", CL, send.qual, "except HTTPError", "HTTPError is no longer handled (and closed) in _send", line=send.node.lineno))
    return rep


def rule_cache(ctx: Ctx) -> RuleReport:
    rep = RuleReport("C18-CACHE", "token / site-id caches are written only after the last fallible step")
    cls, methods = _methods(ctx)
    for attr in ("_access_token", "_site_id"):
        stores = []
        for name, fi in methods.items():
            if name == "__init__":
                continue
            for n in walk_own(fi.node):
                if isinstance(n, ast.Assign) and any(norm(t) == f"self.{attr}" for t in n.targets):
                    stores.append((fi, n))
        if not stores:
            raise AnalysisError(f"C18-CACHE: no store to self.{attr} found")
        for fi, st in stores:
            if isinstance(st.value, ast.Constant) and st.value.value is None:
                rep.ok({"cache": f"{fi.qual}: {norm(st)}", "invalidation": True})
                continue
            cfg = ctx.cfg(fi)
            ok = True
            for start in cfg.evaluators(st):
                seen, stack = set(), [s for s in cfg.succ[start] if cfg.elabel.get((start, s)) != "exc"]
                while stack:
                    n = stack.pop()
                    if n in seen:
                        continue
                    seen.add(n)
                    nd = cfg.nodes[n]
                    if nd.kind in ("exit", "join"):
                        stack.extend(cfg.succ[n])
                        continue
                    if nd.kind == "stmt" and isinstance(nd.ast, ast.Return) and (nd.ast.value is None or isinstance(nd.ast.value, (ast.Name, ast.Attribute, ast.Constant))):
                        continue
                    if nd.kind == "stmt" and isinstance(nd.ast, ast.Expr) and isinstance(nd.ast.value, ast.Call) and (dotted(nd.ast.value.func) or "").startswith("logger."):
                        stack.extend(x for x in cfg.succ[n] if cfg.elabel.get((n, x)) != "exc")
                        continue
                    ok = False
            if ok:
                rep.ok({"cache": f"{fi.qual}: {norm(st)}", "followed_by": "return only"})
            else:
                rep.fail(Finding("C18-CACHE", CL, fi.qual, norm(st), f"self.{attr} is stored before the last fallible step: a later failure leaves a half-validated value cached for the next call", line=st.lineno))
    # the cached token has a finite lifetime: a rejected token (HTTP 401) must be dropped, or its expiry tracked
    send = methods["_send"]
    drops = []
    for t in [n for n in walk_own(send.node) if isinstance(n, ast.Try)]:
        for h in t.handlers:
            if "HTTPError" not in _hnames(h) or not h.name:
                continue
            for st in [x for b in h.body for x in ast.walk(b) if isinstance(x, ast.Assign)]:
                if any(norm(tg) == "self._access_token" for tg in st.targets) and isinstance(st.value, ast.Constant) and st.value.value is None:
                    conds, opaque, _ = path_conditions(send.node, st, terminals=("continue", "return", "break", "raise"))
                    cs = {x for x in ({str(c) for c in conds} | set(opaque)) if not x.startswith("except ")}
                    if any("401" in c and h.name in c for c in cs) and all(("401" in c and h.name in c) or c in ("self._access_token is not None", "self._access_token") for c in cs):
                        drops.append((st, cs))
    ens = methods.get("_ensure_token")
    expiry = ens is not None and any(isinstance(n, ast.Compare) and any(isinstance(x, ast.Attribute) and "expir" in x.attr for x in ast.walk(n)) for n in walk_own(ens.node))
    if drops:
        rep.ok({"stale_token": "dropped when a request answers 401", "under": sorted(drops[0][1])})
    elif expiry:
        rep.ok({"stale_token": "_ensure_token compares an expiry"})
    else:
        rep.fail(Finding("C18-CACHE", CL, send.qual, "401 keeps self._access_token", "the access token is cached for the lifetime of the client: it is neither dropped when a request is answered with HTTP 401 nor checked for expiry, so once it has expired every repetition of the call fails the same way although the transport is healthy", line=send.node.lineno))
    return rep


MUTATORS = {"append", "add", "extend", "update", "insert", "setdefault", "pop", "remove", "discard", "clear"}


def rule_state(ctx: Ctx) -> RuleReport:
    rep = RuleReport("C18-STATE", "listing keeps no per-client mutable state besides the token / site-id caches")
    cls, methods = _methods(ctx)
    allowed = {"_access_token", "_site_id"}
    bad = 0
    for name, fi in methods.items():
        if name == "__init__":
            continue
        for n in walk_own(fi.node):
            attr = None
            if isinstance(n, (ast.Assign, ast.AugAssign, ast.AnnAssign)):
                for t in (n.targets if isinstance(n, ast.Assign) else [n.target]):
                    base = t
                    while isinstance(base, ast.Subscript):
                        base = base.value
                    if isinstance(base, ast.Attribute) and isinstance(base.value, ast.Name) and base.value.id == "self":
                        attr = base.attr
            elif isinstance(n, ast.Call) and isinstance(n.func, ast.Attribute) and n.func.attr in MUTATORS:
                base = n.func.value
                if isinstance(base, ast.Attribute) and isinstance(base.value, ast.Name) and base.value.id == "self":
                    attr = base.attr
            if attr is not None and attr not in allowed:
                bad += 1
                rep.fail(Finding("C18-STATE", CL, fi.qual, short(n), f"self.{attr} is mutated while listing: state left behind by a failed call changes what the next call returns", line=n.lineno))
    if not bad:
        rep.ok({"per_client_state_written_outside___init__": sorted(allowed)})
    return rep


def rule_cmp(ctx: Ctx) -> RuleReport:
    rep = RuleReport("C18-CMP", "FileFilter.matches: date bounds inclusive-after / exclusive-before, case-insensitive extensions, patterns on the full path")
    fi = ctx.p.func(CL, "FileFilter.matches")
    rep.unit(fi.key)
    rejects = []
    for n in walk_own(fi.node):
        if isinstance(n, ast.If) and n.body and isinstance(n.body[-1], ast.Return) and norm(n.body[-1]) == "return False":
            rejects.append(norm(n.test))
    reject_ifs = [n for n in walk_own(fi.node) if isinstance(n, ast.If) and n.body and isinstance(n.body[-1], ast.Return) and norm(n.body[-1]) == "return False"]
    defs = {}
    for n in walk_own(fi.node):
        if isinstance(n, ast.Assign) and len(n.targets) == 1 and isinstance(n.targets[0], ast.Name):
            defs[n.targets[0].id] = n.value
    src_of = {"created": "file_meta.created", "modified": "file_meta.last_modified"}
    # functions of the module that give a datetime without zone the UTC zone: `x.replace(tzinfo=...)` under `x.tzinfo is None`
    tzfix = set()
    for f in ctx.p.module(CL).functions.values():
        reps = [c for c in ast.walk(f.node) if isinstance(c, ast.Call) and isinstance(c.func, ast.Attribute) and c.func.attr == "replace" and any(k.arg == "tzinfo" and "utc" in norm(k.value).lower() for k in c.keywords)]
        tests = [n for n in ast.walk(f.node) if isinstance(n, ast.Compare) and "tzinfo" in norm(n)]
        if reps and tests and f.node.args.args:
            tzfix.add(f.name)
    for kind in ("created", "modified"):
        for side, want_op in (("after", ">"), ("before", ">=")):
            attr_bound = f"self.{kind}_{side}"
            # the bound may be compared through a local that holds the zone-normalised bound
            alias = [k for k, v in defs.items() if isinstance(v, ast.Call) and (dotted(v.func) or "") in tzfix and len(v.args) == 1 and norm(v.args[0]) == attr_bound]
            bound = alias[0] if alias else attr_bound
            hits = []
            for st in reject_ifs:
                conj = atoms(st.test, True)
                if conj is None:
                    continue
                for c in conj:
                    if bound in (c.lhs, c.rhs) and c.op in (">", ">=", "==", "!=", "<", "<="):
                        hits.append((st, c))
            if not hits:
                rep.fail(Finding("C18-CMP", CL, fi.qual, bound, f"no rejection test compares a date with {bound}: the bound is not applied", line=fi.node.lineno))
                continue
            for st, c in hits:
                # canonical orientation: `dt < after`  ==  Cond(after, '>', dt) ; `dt >= before` == Cond(dt, '>=', before)
                if side == "after":
                    ok = c.op == ">" and c.lhs == bound
                    dt = c.rhs
                    meaning = "reject iff dt < after (inclusive after)"
                else:
                    ok = c.op == ">=" and c.rhs == bound
                    dt = c.lhs
                    meaning = "reject iff dt >= before (exclusive before)"
                dt_def = defs.get(dt)
                dt_ok = dt_def is not None and norm(dt_def) == f"_parse_iso_datetime({src_of[kind]})"
                if ok and dt_ok and not alias:
                    rep.fail(Finding("C18-CMP", CL, fi.qual, "naive " + attr_bound, f"{attr_bound} is compared with the parsed (zone-aware) file date as the caller gave it: a bound without time zone (datetime(2024, 1, 1)) raises TypeError out of the listing instead of filtering", line=st.lineno))
                elif ok and dt_ok:
                    rep.ok({"bound": attr_bound, "test": str(c), "meaning": meaning, "zone": f"{bound} = {norm(defs[bound])}"})
                elif not ok:
                    rep.fail(Finding("C18-CMP", CL, fi.qual, norm(st.test), f"{bound}: rejection test `{norm(st.test)}` does not implement `{meaning}`", line=st.lineno))
                else:
                    rep.fail(Finding("C18-CMP", CL, fi.qual, norm(st.test), f"{bound} is compared with `{dt}`, which is not the parsed {src_of[kind]}", line=st.lineno))
    pf = ctx.p.module(CL).functions.get("_parse_iso_datetime")
    if pf is None:
        raise AnalysisError("C18-CMP: _parse_iso_datetime not found")
    prets = [r for r in walk_own(pf.node) if isinstance(r, ast.Return) and r.value is not None and not (isinstance(r.value, ast.Constant) and r.value.value is None)]
    for r in prets:
        if isinstance(r.value, ast.Call) and (dotted(r.value.func) or "") in tzfix:
            rep.ok({"_parse_iso_datetime": norm(r.value), "zone": "always aware"})
        else:
            rep.fail(Finding("C18-CMP", CL, pf.qual, anorm(r.value, pf.node), f"_parse_iso_datetime returns `{short(r.value, 50)}` without giving a zone-less timestamp the UTC zone: comparing it with a zone-aware bound raises TypeError out of the listing", line=r.lineno))
    # unparsable / missing dates are rejected when a bound of that kind is set
    for kind, attr in (("created", "file_meta.created"), ("modified", "file_meta.last_modified")):
        outer = [n for n in walk_own(fi.node) if isinstance(n, ast.If) and norm(n.test) in (f"self.{kind}_after or self.{kind}_before", f"self.{kind}_before or self.{kind}_after")]
        if not outer:
            rep.fail(Finding("C18-CMP", CL, fi.qual, f"self.{kind}_after or self.{kind}_before", f"the {kind} date block is not entered when either bound is set", line=fi.node.lineno))
            continue
        inner = {norm(n.test) for n in ast.walk(outer[0]) if isinstance(n, ast.If) and n in reject_ifs}
        if f"not {attr}" in inner and any(t.endswith("_dt is None") or t.endswith(" is None") for t in inner):
            rep.ok({kind: "missing / unparsable date rejected"})
        else:
            rep.fail(Finding("C18-CMP", CL, fi.qual, "; ".join(sorted(inner)), f"a file without a parsable {kind} date is not rejected although a {kind} bound is set", line=outer[0].lineno))
    # extensions: case-insensitive on both operands; patterns on the full path
    ext_ifs = [n for n in reject_ifs if "self.extensions" in norm(n.test)]
    ok_ext = False
    for st in ext_ifs:
        for c in ast.walk(st.test):
            if isinstance(c, ast.Call) and isinstance(c.func, ast.Attribute) and c.func.attr == "endswith" and c.args:
                recv, arg = c.func.value, c.args[0]
                recv_def = defs.get(recv.id) if isinstance(recv, ast.Name) else recv
                recv_lower = recv_def is not None and norm(recv_def).endswith(".lower()") and "file_meta.name" in norm(recv_def)
                arg_lower = isinstance(arg, ast.Call) and isinstance(arg.func, ast.Attribute) and arg.func.attr == "lower"
                if recv_lower and arg_lower:
                    ok_ext = True
                else:
                    rep.fail(Finding("C18-CMP", CL, fi.qual, norm(st.test), f"extension test `{norm(c)}` does not lower-case {'the file name' if not recv_lower else 'the filter extension'}: matching is case-sensitive", line=st.lineno))
    if ok_ext:
        rep.ok({"extensions": "name.lower().endswith(ext.lower())"})
    elif not ext_ifs:
        rep.fail(Finding("C18-CMP", CL, fi.qual, "self.extensions", "the extension filter is not applied", line=fi.node.lineno))
    elif not any(f.rule == "C18-CMP" and "extension" in f.message for f in rep.findings):
        rep.fail(Finding("C18-CMP", CL, fi.qual, norm(ext_ifs[0].test), "extension test is not `name.lower().endswith(ext.lower())` for any filter extension", line=ext_ifs[0].lineno))
    pat_ifs = [n for n in reject_ifs if "fnmatch" in norm(n.test)]
    okp = False
    for st in pat_ifs:
        for c in ast.walk(st.test):
            if isinstance(c, ast.Call) and (dotted(c.func) or "").endswith("fnmatch") and c.args:
                subj = c.args[0]
                sd = defs.get(subj.id) if isinstance(subj, ast.Name) else subj
                if sd is not None and norm(sd) == "file_meta.get_full_path()":
                    okp = True
                else:
                    rep.fail(Finding("C18-CMP", CL, fi.qual, norm(c), "patterns are not matched against file_meta.get_full_path()", line=st.lineno))
    if okp:
        rep.ok({"patterns": "fnmatch(full path, pattern)"})
    elif not pat_ifs:
        rep.fail(Finding("C18-CMP", CL, fi.qual, "self.path_patterns", "the path-pattern filter is not applied", line=fi.node.lineno))
    if isinstance(fi.node.body[-1], ast.Return) and norm(fi.node.body[-1]) == "return True":
        rep.ok({"default": "return True"})
    else:
        rep.fail(Finding("C18-CMP", CL, fi.qual, norm(fi.node.body[-1]), "matches does not end in `return True`", line=fi.node.lineno))
    # the filtered listings apply matches() to every file
    cls, methods = _methods(ctx)
    # every option a public listing method accepts is read by it (an option that is ignored returns files the caller excluded)
    for name, m in methods.items():
        if name.startswith("_"):
            continue
        a = m.node.args
        read = {n.id for n in ast.walk(m.node) if isinstance(n, ast.Name) and isinstance(n.ctx, ast.Load)}
        for prm in [x.arg for x in a.posonlyargs + a.args + a.kwonlyargs if x.arg != "self"]:
            if prm in read:
                rep.ok({"option": f"{m.qual}({prm})", "read": True})
            else:
                rep.fail(Finding("C18-CMP", CL, m.qual, f"parameter {prm} is never read", f"{name} accepts `{prm}` but never reads it: the listing is the same whatever the caller asks for", line=m.node.lineno))
    users = [m for m in methods.values() if any(isinstance(c.func, ast.Attribute) and c.func.attr == "matches" for c in calls_in(m))]
    if users:
        rep.ok({"filter_applied_in": [u.qual for u in users]})
    else:
        rep.fail(Finding("C18-CMP", CL, C, "matches", "no listing method applies FileFilter.matches", line=cls.node.lineno))
    return rep


def rule_part(ctx: Ctx) -> RuleReport:
    rep = RuleReport("C18-PART", "files / folders partition on the same key tests; pagination and recursion cover everything")
    cls, methods = _methods(ctx)
    gf = methods["_get_folders_from_url"]
    li = methods["_list_items_paginated"]
    wk = methods["_walk_drive_items"]
    # folder predicate
    rets_gf = {n.value.id for n in walk_own(gf.node) if isinstance(n, ast.Return) and isinstance(n.value, ast.Name)}
    apps = [c for c in calls_in(gf) if isinstance(c.func, ast.Attribute) and c.func.attr == "append" and isinstance(c.func.value, ast.Name) and c.func.value.id in rets_gf]
    for a in apps:
        conds, opaque, _ = path_conditions(gf.node, a, terminals=("continue", "return", "break"))
        cs = _acond(conds, gf.node) - {"v0"}
        if cs == {"isinstance(v0, dict)", "'folder' in v0"} and not opaque:
            rep.ok({"folder_predicate": sorted(cs)})
        else:
            rep.fail(Finding("C18-PART", CL, gf.qual, " and ".join(sorted(cs) + opaque), f"a folder is kept only under `{' and '.join(sorted(cs) + opaque)}`; expected exactly `isinstance(item, dict) and 'folder' in item` (folders dropped here are never walked)", line=a.lineno))
    if not apps:
        rep.fail(Finding("C18-PART", CL, gf.qual, "folders.append", "folders are no longer collected", line=gf.node.lineno))
    ys = [y for y in walk_own(li.node) if isinstance(y, ast.Yield)]
    for y in ys:
        conds, opaque, _ = path_conditions(li.node, y, terminals=("continue", "return", "break"))
        cs = _acond(conds, li.node) - {"v0"}
        if cs == {"isinstance(v0, dict)", "'folder' not in v0", "'file' in v0"} and not opaque:
            rep.ok({"file_predicate": sorted(cs)})
        else:
            rep.fail(Finding("C18-PART", CL, li.qual, " and ".join(sorted(cs) + opaque), f"a file is yielded only under `{' and '.join(sorted(cs) + opaque)}`; expected `isinstance(item, dict) and 'folder' not in item and 'file' in item`", line=y.lineno))
        if anorm(y.value, li.node) == "self._parse_file_item(v0, parent_path)":
            rep.ok()
        else:
            rep.fail(Finding("C18-PART", CL, li.qual, norm(y.value), "files are not yielded with the parent path of the folder being listed", line=y.lineno))
    for f in (gf, li):
        txt = [anorm(n, f.node) for n in walk_own(f.node) if isinstance(n, ast.Assign)]
        whiles = [w for w in walk_own(f.node) if isinstance(w, ast.While) and isinstance(w.test, ast.Name)]
        cur = whiles[0].test.id if whiles else None
        nxt = [n for n in walk_own(f.node) if isinstance(n, ast.Assign) and cur and norm(n.targets[0]) == cur and "'@odata.nextLink'" in norm(n.value)]
        loops = [n for n in walk_own(f.node) if isinstance(n, ast.For)]
        items_vars = {n.targets[0].id for n in walk_own(f.node) if isinstance(n, ast.Assign) and len(n.targets) == 1 and isinstance(n.targets[0], ast.Name) and ".get('value', [])" in norm(n.value)}
        # the page's items: bound to a local first, or iterated where they are read
        direct = bool(loops) and whiles and any(x is loops[0] for x in ast.walk(whiles[0])) and norm(loops[0].iter).endswith(".get('value', [])")
        if nxt and ("v0 = v1.get('value', [])" in txt or direct) and whiles:
            rep.ok({f.qual: "iterates value[] of every page until @odata.nextLink is absent"})
        else:
            rep.fail(Finding("C18-PART", CL, f.qual, "pagination", "the pagination loop no longer follows @odata.nextLink over value[] of every page", line=f.node.lineno))
        if loops and (norm(loops[0].iter) in items_vars or direct):
            rep.ok()
        else:
            rep.fail(Finding("C18-PART", CL, f.qual, norm(loops[0].iter) if loops else "?", "not every item of a page is looked at", line=f.node.lineno))
    # walk: yields all files, recurses into every folder with an id, composes the parent path
    from sa.engine.shape import compare_function

    tmpl = '''def f(self, site_id, item_id, *, drive_id=None, parent_path=""):
    url = self._build_children_url(site_id, item_id, drive_id)
    for item in self._list_items_paginated(url, parent_path=parent_path):
        yield item
    for item in self._get_folders_from_url(url):
        folder_name = item.get("name", "")
        folder_id = item.get("id")
        new_parent_path = f"{parent_path}/{folder_name}" if parent_path else folder_name
        if folder_id:
            yield from self._walk_drive_items(site_id, folder_id, drive_id=drive_id, parent_path=new_parent_path)
'''
    _walk_necessary(ctx, rep, wk)
    # several requested folders may overlap (Reports, Reports/2024): every file exactly once
    lf = methods.get("list_files_filtered")
    if lf is None:
        raise AnalysisError("C18-PART: list_files_filtered vanished")
    tf = {n.targets[0].id for n in walk_own(lf.node) if isinstance(n, ast.Assign) and len(n.targets) == 1 and isinstance(n.targets[0], ast.Name) and isinstance(n.value, ast.Call) and (dotted(n.value.func) or "").endswith("get_target_folders")}
    floops = [l for l in walk_own(lf.node) if isinstance(l, ast.For) and isinstance(l.iter, ast.Name) and l.iter.id in tf]
    if not floops:
        raise AnalysisError("C18-PART: the loop over the requested folders of list_files_filtered was not found")
    for l in floops:
        sets = {n.targets[0].id if isinstance(n, ast.Assign) else n.target.id for n in walk_own(lf.node) if (isinstance(n, ast.Assign) and len(n.targets) == 1 and isinstance(n.targets[0], ast.Name) or isinstance(n, ast.AnnAssign) and isinstance(n.target, ast.Name))
                and isinstance(n.value, ast.Call) and (dotted(n.value.func) or "") == "set" and not n.value.args}
        tested = any(isinstance(c, ast.Compare) and isinstance(c.ops[0], ast.In) and isinstance(c.comparators[0], ast.Name) and c.comparators[0].id in sets and any(isinstance(a, ast.Attribute) and a.attr == "id" for a in ast.walk(c.left)) for c in ast.walk(l))
        added = any(isinstance(c, ast.Call) and isinstance(c.func, ast.Attribute) and c.func.attr == "add" and isinstance(c.func.value, ast.Name) and c.func.value.id in sets for c in ast.walk(l))
        if tested and added:
            rep.ok({"list_files_filtered": "files of overlapping folder_paths are reported once (seen item ids)"})
        else:
            rep.fail(Finding("C18-PART", CL, lf.qual, "requested folders walked without de-duplication", "each requested folder is walked on its own and everything found is yielded: with overlapping folder_paths ('Reports' and 'Reports/2024') the files of the inner folder are returned twice", line=l.lineno))
    # no requested folder is skipped because its *text* begins like another one: 'Reports-Archive' and 'Reports 2023' are siblings of
    # 'Reports', not folders below it -- a containment test on paths compares whole segments (prefix + '/')
    for l in floops:
        for cnt in [c for c in ast.walk(l) if isinstance(c, ast.Continue)]:
            holder = next((i for i in ast.walk(l) if isinstance(i, ast.If) and cnt in i.body), None)
            if holder is None:
                continue
            for sw in [c for c in ast.walk(holder.test) if isinstance(c, ast.Call) and isinstance(c.func, ast.Attribute) and c.func.attr == "startswith" and c.args]:
                a = sw.args[0]
                bounded = (isinstance(a, ast.BinOp) and isinstance(a.op, ast.Add) and isinstance(a.right, ast.Constant) and a.right.value == "/") or (isinstance(a, ast.JoinedStr) and a.values and isinstance(a.values[-1], ast.Constant) and str(a.values[-1].value).endswith("/")) \
                    or isinstance(a, ast.Constant)
                if bounded:
                    rep.ok({"list_files_filtered": f"folder skipped on a whole-segment prefix: {short(sw, 50)}"})
                else:
                    rep.fail(Finding("C18-PART", CL, lf.qual, "requested folder skipped on a text prefix: " + anorm(sw, lf.node), f"a requested folder is skipped when `{short(sw, 60)}`: the test compares characters, not path segments, so after 'Reports' was walked the siblings 'Reports-Archive' and 'Reports 2023' are skipped as if they lay below it and their files are missing from the listing", line=sw.lineno))
    # a listing restricted to a folder reports files under the path the caller asked for (the folder item's own `name` is only its
    # last component)
    wf = methods.get("_walk_and_filter")
    if wf is None:
        raise AnalysisError("C18-PART: _walk_and_filter vanished")
    wc = [c for c in calls_in(wf) if (dotted(c.func) or "") == "self._walk_drive_items"]
    if len(wc) != 1:
        raise AnalysisError("C18-PART: _walk_and_filter no longer starts exactly one walk")
    pp = next((k.value for k in wc[0].keywords if k.arg == "parent_path"), None)
    srcs = []
    if isinstance(pp, ast.Name):
        srcs = [a.value for a in walk_own(wf.node) if isinstance(a, ast.Assign) and any(isinstance(t, ast.Name) and t.id == pp.id for t in a.targets)]
    elif pp is not None:
        srcs = [pp]
    wparams = {a.arg for a in wf.node.args.args + wf.node.args.kwonlyargs}
    bad = [v for v in srcs if not (isinstance(v, ast.Constant) and v.value == "") and (any(isinstance(x, ast.Call) and isinstance(x.func, ast.Attribute) and x.func.attr == "get" for x in ast.walk(v)) or not ({x.id for x in ast.walk(v) if isinstance(x, ast.Name)} & wparams))]
    stripped = all(isinstance(v, ast.Constant) or any(isinstance(x, ast.Call) and isinstance(x.func, ast.Attribute) and x.func.attr == "strip" and x.args and isinstance(x.args[0], ast.Constant) and "/" in str(x.args[0].value) for x in ast.walk(v)) for v in srcs)
    if srcs and not bad and not stripped:
        rep.fail(Finding("C18-PART", CL, wf.qual, "parent path not normalised", "the requested folder path is used as parent path as the caller spelled it: 'Reports/' gives full paths like 'Reports//q1.pdf' (the lookup of the folder strips the slashes, the parent path must too)", line=wc[0].lineno))
    elif srcs and not bad:
        rep.ok({"_walk_and_filter": "parent path = the requested folder path, slashes stripped"})
    else:
        w = bad[0] if bad else wc[0]
        rep.fail(Finding("C18-PART", CL, wf.qual, "parent path from " + anorm(w, wf.node), f"the parent path of a folder-restricted listing is `{short(w, 60)}`, not the requested folder path: for a nested folder such as Reports/2024 the files are reported under '2024', their full paths are wrong and path patterns no longer match", line=getattr(w, "lineno", wf.node.lineno)))
    r = compare_function(wk.node, tmpl)
    if r == "equal":
        rep.ok({"_walk_drive_items": "all files of the folder, then every sub-folder with an id, parent path = parent/name"})
    elif r == "leaves":
        rep.fail(Finding("C18-PART", CL, wk.qual, " ; ".join(norm(s) for s in wk.node.body)[:300], "_walk_drive_items has its structure but an operand / argument differs (wrong parent path, wrong id, different URL for files and folders)", line=wk.node.lineno))
    else:
        # structure changed (e.g. extra bookkeeping): fall back to necessary conditions
        txt = " ; ".join(norm(s) for s in wk.node.body)
        if "yield " in txt and "self._walk_drive_items(site_id, " in txt and "parent_path=" in txt:
            rep.residual.append("_walk_drive_items no longer matches its template; only the presence of the file loop and the recursion was checked")
            rep.obligations += 1
        else:
            raise AnalysisError("C18-PART: _walk_drive_items no longer has the recognised structure")
    return rep


def _walk_necessary(ctx, rep, wk):
    """Template-independent part: every listed file is yielded, every folder with an id is entered (skip-path enumeration)."""
    from sa.engine.skips import skip_paths

    cfg = ctx.cfg(wk)
    locs = local_names(wk.node)
    loops = {}
    for l in walk_own(wk.node):
        if isinstance(l, ast.For) and isinstance(l.iter, ast.Call):
            d = dotted(l.iter.func) or ""
            if d in ("self._list_items_paginated", "self._get_folders_from_url"):
                loops.setdefault(d, []).append(l)
    if any(len(loops.get(k, [])) != 1 for k in ("self._list_items_paginated", "self._get_folders_from_url")):
        raise AnalysisError("C18-PART: _walk_drive_items no longer has one loop over the files and one over the folders of a listing")
    fl, dl = loops["self._list_items_paginated"][0], loops["self._get_folders_from_url"][0]

    def stores(loop, pred):
        out = set()
        for nd in cfg.nodes:
            if nd.ast is not None and nd.kind == "stmt" and any(x is nd.ast for x in ast.walk(loop)) and nd.ast is not loop and any(pred(x) for x in ast.walk(nd.ast)) and not isinstance(nd.ast, (ast.For, ast.While, ast.If, ast.Try, ast.With)):
                out.add(nd.id)
        return out

    lv = fl.target.id if isinstance(fl.target, ast.Name) else None
    st = stores(fl, lambda x: isinstance(x, ast.Yield) and isinstance(x.value, ast.Name) and x.value.id == lv)
    sk = skip_paths(cfg, fl, st) if st else None
    if sk is None:
        raise AnalysisError("C18-PART: the file loop of _walk_drive_items does not yield its items")
    if sk:
        why = " and ".join(f"{anorm(ast.parse(t, mode='eval').body, rename=locs) if t != 'exc' else 'exception'} is {b}" for t, b in sk[0][-2:]) or "unconditionally"
        rep.fail(Finding("C18-PART", CL, wk.qual, f"file not yielded when {why}", f"a file of the listing reaches the next iteration without being yielded ({why}): it is missing from list_all_files", line=fl.lineno))
    else:
        rep.ok({"file_loop": "every listed file is yielded"})
    idv = {n.targets[0].id for n in ast.walk(dl) if isinstance(n, ast.Assign) and len(n.targets) == 1 and isinstance(n.targets[0], ast.Name) and isinstance(n.value, ast.Call) and isinstance(n.value.func, ast.Attribute) and n.value.func.attr == "get"
           and isinstance(n.value.func.value, ast.Name) and isinstance(dl.target, ast.Name) and n.value.func.value.id == dl.target.id and n.value.args and isinstance(n.value.args[0], ast.Constant) and n.value.args[0].value == "id"}
    st = stores(dl, lambda x: isinstance(x, ast.Call) and (dotted(x.func) or "") == "self._walk_drive_items")
    sk = skip_paths(cfg, dl, st) if st else None
    if sk is None:
        raise AnalysisError("C18-PART: the folder loop of _walk_drive_items does not recurse")
    def no_id(t, b):
        # `if folder_id:` false edge, or `if not folder_id:` true edge
        neg = False
        while t.startswith("not "):
            t, neg = t[4:].strip(), not neg
        t = t[1:-1] if t.startswith("(") and t.endswith(")") else t
        return t in idv and b == ("true" if neg else "false")

    bad = [rs for rs in sk if not any(no_id(t, b) for t, b in rs if t != "exc")]
    if bad:
        why = " and ".join(f"{anorm(ast.parse(t, mode='eval').body, rename=locs) if t != 'exc' else 'exception'} is {b}" for t, b in bad[0][-2:]) or "unconditionally"
        rep.fail(Finding("C18-PART", CL, wk.qual, f"folder not entered when {why}", f"a folder of the listing reaches the next iteration without being walked ({why}); the only accepted reason is a folder without an id: every file below it is missing from the listing", line=dl.lineno))
    else:
        rep.ok({"folder_loop": "every folder with an id is walked", "skip_paths": len(sk)})


def rule_prop(ctx: Ctx) -> RuleReport:
    """A failed request fails the call: no handler on the listing / download path absorbs an error of the client's family."""
    rep = RuleReport("C18-PROP", "errors of the client's family propagate: every handler that catches them re-raises on every path")
    fam = _family(ctx)
    cls, methods = _methods(ctx)
    n_try = 0
    # the walk: everything between the public listing calls and the transport wrapper. The transport layer (_send, _get_json,
    # token / site lookup) converts foreign failures (C18-ERR, C18-CLOSE); _get_folder_by_path documents "None if not found" (404).
    WALK = {"list_all_files", "list_files_filtered", "_walk_and_filter", "list_files_modified_since", "list_files_created_since",
            "list_files_in_folder", "_walk_drive_items", "_get_folders_from_url", "_list_items_paginated", "_parse_file_item", "_build_children_url"}
    missing = [w for w in WALK if w not in methods]
    if missing:
        raise AnalysisError(f"C18-PROP: listing methods vanished: {missing}")
    for name, fi in methods.items():
        tries = [n for n in walk_own(fi.node) if isinstance(n, ast.Try)]
        n_try += len(tries)
        if name not in WALK:
            continue
        rep.unit(fi.key)
        if not tries:
            rep.ok({"fn": fi.qual, "handlers": "none (failures of the requests below propagate)"})
            continue
        cfg = ctx.cfg(fi)
        for t in tries:
            for h in t.handlers:
                names = _hnames(h)
                catches_family = any(x in fam or x in ("Exception", "BaseException", "<bare>") for x in names)
                if not catches_family:
                    continue
                rep.unit(fi.key)
                # every path from the handler entry must end in a raise
                starts = [nid for nid in cfg.nodes_of(h)] if hasattr(cfg, "nodes_of") else []
                body_nodes = [nd.id for nd in cfg.nodes if nd.stmt is not None and any(nd.stmt is x or nd.ast is x for b in h.body for x in ast.walk(b))]
                if not body_nodes:
                    raise AnalysisError(f"C18-PROP: handler of {fi.qual} not found in the CFG")
                body_set = set(body_nodes)
                # exits of the handler region that are not raises: a successor outside the region that is not the raise exit
                leaks = []
                for nid in body_nodes:
                    for sx in cfg.succ[nid]:
                        if sx in body_set or sx == cfg.raise_exit:
                            continue
                        if cfg.elabel.get((nid, sx)) == "exc":
                            continue
                        # leaving through finally copies still counts: follow until exit / raise
                        leaks.append((nid, sx))
                real = []
                for (nid, sx) in leaks:
                    # does control reach the normal continuation (not only the raise exit)?
                    seen, stack, normal = set(), [sx], False
                    while stack:
                        x = stack.pop()
                        if x in seen:
                            continue
                        seen.add(x)
                        nd = cfg.nodes[x]
                        if nd.copy and nd.copy.startswith("exc"):
                            continue
                        if x == cfg.raise_exit:
                            continue
                        if not nd.copy:
                            normal = True
                            break
                        stack.extend(cfg.succ[x])
                    if normal:
                        real.append((nid, sx))
                if not real:
                    rep.ok({"fn": fi.qual, "handler": "except " + ", ".join(names), "re-raises": "on every path"})
                else:
                    nid = real[0][0]
                    rep.fail(Finding("C18-PROP", CL, fi.qual, "except " + ", ".join(names) + " does not re-raise: " + short(cfg.nodes[nid].ast or cfg.nodes[nid].stmt, 60),
                                     f"{fi.qual} catches an error of the client's family and continues on some path: a failed request no longer fails the call, the listing is silently incomplete",
                                     line=h.lineno))
    if n_try < 3:
        raise AnalysisError(f"C18-PROP: only {n_try} try statements in the client (3 confirmed)")
    return rep


RULES = [rule_prop, rule_io, rule_err, rule_close, rule_cache, rule_state, rule_cmp, rule_part]
