"""C14 — images are returned bit-exact, numbered, on the right unit."""
from __future__ import annotations

import ast

from sa.engine.callgraph import calls_in, resolve_call
from sa.engine.cfg import CFG
from sa.engine.context import Ctx
from sa.engine.guards import path_conditions
from sa.engine.loader import anorm, AnalysisError, FuncInfo, dotted, norm, short, walk_own, is_noise
from sa.engine.loops import LoopAnalysis
from sa.engine.report import Finding, RuleReport
from sa.rules.common import DT, X, implementers

EXPLANATION = (
    "Bit-exactness, content types and pixel sizes are value-level and not decided. Decided: (PAIR) in every image-collecting "
    "loop, on every path through one iteration (normal edges plus exceptional edges out of the calls that can fail on "
    "document content: part reads, int()/float(), struct.unpack, bytes.fromhex, strict decode), the running counter is "
    "incremented exactly as often as an image record is appended, and every appended record — error records included — "
    "carries the counter in its number field (no gaps, no number 0). (BYTES) wherever a constructor receives a payload "
    "and a size, the size is len() of that same payload at the call; get_bytes() returns a fresh BytesIO of the payload "
    "or the stored stream rewound to 0 (an empty stream when there is none). (VIEW) for page/slide/sheet formats the "
    "document-level iterate_images / iterate_tables walk exactly the per-unit lists the unit views hand out. (REF) package "
    "part names are resolved by the format's path-normalisation helper, whose guard keeps every remaining component. (CHAIN) the PDF filter tables for format and content type have the same keys and matching values, and a /Filter array is judged by its last element (PDF 32000-1 7.4.1: what get_data() leaves encoded is the last filter)."
    " (REF, continued) the relationship Target reaches the member lookup as written (no percent-decoding, no case mapping: the ZIP item name is the part name); the accessors of ZipContext consult the archive under one and the same expression of their path parameter; no strip() character set that holds both '.' and a separator."
)
NOT_DECIDED = ["bytes identical to the embedded file; content type; pixel size", "that no image is invented (relationship parsing is value level)", "which image records a reader filters out or reuses by identity (orphan relationships, per-document caches keyed by object number)"]
TRUSTED = ["may-raise table (listed in the explanation); string methods, slicing, dataclass constructors and the dimension sniffers are assumed not to raise",
           "CFG path enumeration (cap 4096 paths per loop body; a capped loop is residual)"]
FLOORS = {"C14-JPEG": 8, "C14-PAIR": 12, "C14-BYTES": 20, "C14-VIEW": 6, "C14-REF": 3, "C14-CHAIN": 8, "C14-TYPE": 3, "C14-HEX": 3, "C14-ALL": 2}

MAY_RAISE_CALLS = {"read_bytes", "get_image_data", "read_xml_root", "read_text", "read", "open_stream", "fromhex", "unpack", "unpack_from", "b64decode", "a2b_hex", "unhexlify", "decompress"}
MAY_RAISE_FUNCS = {"int", "float", "bytes.fromhex", "struct.unpack", "struct.unpack_from", "base64.b64decode"}


def image_classes(ctx: Ctx) -> dict[str, str]:
    """image class name -> number field"""
    out = {}
    for c in implementers(ctx, "ImageInterface"):
        gm = c.methods.get("get_metadata")
        nf = None
        if gm is not None:
            for n in walk_own(gm.node):
                if isinstance(n, ast.Call):
                    for k in n.keywords:
                        if k.arg == "image_number" and isinstance(k.value, ast.Attribute) and isinstance(k.value.value, ast.Name) and k.value.value.id == "self":
                            nf = k.value.attr
        if nf is None:
            raise AnalysisError(f"C14: cannot determine the number field of image class {c.name}")
        out[c.name] = nf
    if len(out) < 10:
        raise AnalysisError(f"C14: only {len(out)} image classes found (floor 10)")
    return out


def _may_raise(stmt: ast.AST) -> bool:
    for n in ast.walk(stmt):
        if isinstance(n, (ast.FunctionDef, ast.Lambda)):
            continue
        if isinstance(n, ast.Call):
            d = dotted(n.func) or ""
            if d in MAY_RAISE_FUNCS:
                return True
            if isinstance(n.func, ast.Attribute) and n.func.attr in MAY_RAISE_CALLS:
                return True
            if isinstance(n.func, ast.Attribute) and n.func.attr == "decode" and not any(k.arg == "errors" for k in n.keywords) and len(n.args) < 2:
                return True
        if isinstance(n, ast.Raise):
            return True
    return False


def _returns_image(ctx, fi, call, classes) -> bool:
    t = resolve_call(ctx.p, fi, call)
    for g in t.funcs:
        r = g.node.returns
        if r is not None and any(c in norm(r) for c in classes):
            return True
    return False


def _all_counter_names(fi) -> set[str]:
    return {n.target.id for n in walk_own(fi.node) if isinstance(n, ast.AugAssign) and isinstance(n.target, ast.Name) and isinstance(n.op, ast.Add) and isinstance(n.value, ast.Constant) and n.value.value == 1}


def _enum_counters(loop) -> set[str]:
    if isinstance(loop, ast.For) and isinstance(loop.iter, ast.Call) and dotted(loop.iter.func) == "enumerate":
        t = loop.target
        if isinstance(t, ast.Tuple) and t.elts and isinstance(t.elts[0], ast.Name):
            return {t.elts[0].id}
    return set()


def _image_ctor(call: ast.Call, classes) -> str | None:
    d = dotted(call.func) or ""
    last = d.split(".")[-1]
    return last if last in classes else None


def rule_pair(ctx: Ctx) -> RuleReport:
    rep = RuleReport("C14-PAIR", "counter increments and appended image records agree on every path of every image loop; every record carries the counter")
    classes = image_classes(ctx)
    n_loops = 0
    for fi in ctx.p.all_functions():
        if fi.module.rel == DT or not fi.module.rel.startswith(X):
            continue
        # counters: names incremented by 1 and used as the number field of an image constructor in this function
        ctor_calls = [c for c in ast.walk(fi.node) if isinstance(c, ast.Call) and _image_ctor(c, classes)]
        ctor_calls = [c for c in ctor_calls if not any(isinstance(p, (ast.FunctionDef,)) and p is not fi.node and any(x is c for x in ast.walk(p)) for p in walk_own(fi.node))]
        # records that are appended through a variable must have been built for *this* occurrence
        for l in [x for x in walk_own(fi.node) if isinstance(x, (ast.For, ast.While))]:
            for st in ast.walk(ast.Module(body=l.body, type_ignores=[])):
                if isinstance(st, ast.Call) and isinstance(st.func, ast.Attribute) and st.func.attr == "append" and st.args and isinstance(st.args[0], ast.Name):
                    var = st.args[0].id
                    defs = [a for a in ast.walk(ast.Module(body=l.body, type_ignores=[])) if isinstance(a, ast.Assign) and any(isinstance(t, ast.Name) and t.id == var for t in a.targets)]
                    builds = [a for a in defs if isinstance(a.value, ast.Call) and (_image_ctor(a.value, classes) or _returns_image(ctx, fi, a.value, classes))]
                    if not builds:
                        continue
                    for a in defs:
                        if a in builds or (isinstance(a.value, ast.Constant) and a.value.value is None):
                            continue
                        rep.fail(Finding("C14-PAIR", fi.module.rel, fi.qual, norm(a), f"the image record appended in this loop can come from `{short(a.value, 50)}` instead of being built for this occurrence: it keeps the number, unit and caption of an earlier occurrence", line=a.lineno))
        # counters taken from enumerate() and handed to something that builds an image record must start at 1
        for l in [x for x in walk_own(fi.node) if isinstance(x, ast.For)]:
            ec = _enum_counters(l)
            if not ec:
                continue
            feeds = [c for c in ast.walk(ast.Module(body=l.body, type_ignores=[])) if isinstance(c, ast.Call) and (_image_ctor(c, classes) or _returns_image(ctx, fi, c, classes))
                     and any(isinstance(x, ast.Name) and x.id in ec for a in list(c.args) + [k.value for k in c.keywords] for x in ast.walk(a))]
            if not feeds:
                continue
            st = [k.value for k in l.iter.keywords if k.arg == "start"] + list(l.iter.args[1:2])
            if st and isinstance(st[0], ast.Constant) and st[0].value == 1:
                rep.ok({"loop": f"{fi.qual}: image numbers from enumerate(..., start=1)"})
                n_loops += 1
            else:
                rep.fail(Finding("C14-PAIR", fi.module.rel, fi.qual, norm(l.iter), "image numbers taken from enumerate() do not start at 1", line=l.lineno))
        if not ctor_calls:
            continue
        counters = set()
        for c in ctor_calls:
            nf = classes[_image_ctor(c, classes)]
            for k in c.keywords:
                if k.arg == nf and isinstance(k.value, ast.Name):
                    counters.add(k.value.id)
        incs = [n for n in walk_own(fi.node) if isinstance(n, ast.AugAssign) and isinstance(n.target, ast.Name) and n.target.id in counters and isinstance(n.op, ast.Add)]
        enum_loops = [n for n in walk_own(fi.node) if isinstance(n, ast.For) and isinstance(n.iter, ast.Call) and dotted(n.iter.func) == "enumerate" and any(isinstance(x, ast.Name) and x.id in counters for x in ast.walk(n.target))]
        # every constructor call carries a number
        for c in ctor_calls:
            cls = _image_ctor(c, classes)
            nf = classes[cls]
            kw = [k for k in c.keywords if k.arg == nf]
            rep.unit(fi.key)
            if kw:
                rep.ok({"record": f"{fi.qual}: {cls}({nf}={norm(kw[0].value)})"})
            else:
                rep.fail(Finding("C14-PAIR", fi.module.rel, fi.qual, short(c, 100), f"an image record is created without its running number (`{nf}` keeps its default 0): `{short(c, 60)}`", line=c.lineno))
        if enum_loops and not incs:
            for l in enum_loops:
                st = [k.value for k in l.iter.keywords if k.arg == "start"] + (l.iter.args[1:2])
                if st and isinstance(st[0], ast.Constant) and st[0].value == 1:
                    rep.ok({"loop": f"{fi.qual}: enumerate(..., start=1)"})
                    n_loops += 1
                else:
                    rep.fail(Finding("C14-PAIR", fi.module.rel, fi.qual, norm(l.iter), "image numbers from enumerate() do not start at 1", line=l.lineno))
            continue
        if not incs:
            continue
        cfg = CFG(fi.node, _may_raise)
        loops = [l for l in walk_own(fi.node) if isinstance(l, (ast.For, ast.While)) and any(any(x is i for x in ast.walk(l)) for i in incs)]
        # innermost loops that contain an increment
        inner = [l for l in loops if not any(l2 is not l and any(x is l2 for x in ast.walk(l)) and any(any(x is i for x in ast.walk(l2)) for i in incs) for l2 in loops)]
        for l in inner:
            n_loops += 1
            la = LoopAnalysis(fi.node, cfg, l)
            paths, capped = la.paths()
            if capped:
                rep.obligations += 1
                rep.residual.append(f"{fi.key}: image loop at `{short(l, 50)}` has more than 4096 paths; not judged")
                continue
            bad = None
            for p in paths:
                n_inc = n_app = 0
                for nid, lab in p:
                    nd = cfg.nodes[nid]
                    if lab in ("exc", "inner") or nd.kind != "stmt":
                        continue
                    st = nd.ast
                    if isinstance(st, ast.AugAssign) and isinstance(st.target, ast.Name) and st.target.id in counters:
                        n_inc += 1
                    for x in ast.walk(st):
                        if isinstance(x, ast.Call) and isinstance(x.func, ast.Attribute) and x.func.attr == "append" and x.args and isinstance(x.args[0], ast.Call) and _image_ctor(x.args[0], classes):
                            n_app += 1
                        elif isinstance(x, ast.Call) and _image_ctor(x, classes) and isinstance(st, ast.Assign):
                            # record built first, appended by a later statement on the same path: counted there
                            pass
                    if isinstance(st, ast.Expr) and isinstance(st.value, ast.Call) and isinstance(st.value.func, ast.Attribute) and st.value.func.attr == "append" and st.value.args and isinstance(st.value.args[0], ast.Name):
                        nm = st.value.args[0].id
                        if any(isinstance(a, ast.Assign) and any(isinstance(t, ast.Name) and t.id == nm for t in a.targets) and isinstance(a.value, ast.Call) and _image_ctor(a.value, classes) for a in walk_own(fi.node)):
                            n_app += 1
                if n_inc != n_app:
                    bad = (p, n_inc, n_app)
                    break
            if bad is None:
                rep.ok({"loop": f"{fi.qual}: {short(l, 40)}", "paths": len(paths), "increments_equal_appends": True})
            else:
                p, a, b = bad
                rep.fail(Finding("C14-PAIR", fi.module.rel, fi.qual, f"loop `{short(l, 60)}`", f"on a path through one iteration the image counter is incremented {a} time(s) but {b} record(s) are appended: numbers get a gap or repeat (path: {' -> '.join(cfg.describe_path([n for n, _ in p])[:14])})", line=l.lineno, path=cfg.describe_path([n for n, _ in p])))
    if n_loops < 8:
        raise AnalysisError(f"C14-PAIR: only {n_loops} image-collecting loops recognised (floor 8)")
    return rep


def rule_bytes(ctx: Ctx) -> RuleReport:
    rep = RuleReport("C14-BYTES", "payload / size pairing at constructor sites; get_bytes shapes")
    classes = image_classes(ctx)
    dt = ctx.p.module(DT)
    sized = {c.name for c in dt.classes.values() if c.is_dataclass and "size_bytes" in c.fields and ("data" in c.fields or "blob" in c.fields)}
    n = 0
    for fi in ctx.p.all_functions():
        if fi.module.rel == DT:
            continue
        for c in calls_in(fi):
            cls = (dotted(c.func) or "").split(".")[-1]
            if cls not in sized:
                continue
            kws = {k.arg: k.value for k in c.keywords}
            payload = kws.get("data", kws.get("blob"))
            size = kws.get("size_bytes")
            if payload is None and size is None:
                continue
            n += 1
            rep.unit(fi.key)
            if payload is None or size is None:
                rep.fail(Finding("C14-BYTES", fi.module.rel, fi.qual, short(c, 100), f"{cls} is built with only one of payload / size_bytes: the reported size cannot match the bytes", line=c.lineno))
                continue
            core = payload.args[0] if isinstance(payload, ast.Call) and (dotted(payload.func) or "").endswith("BytesIO") and payload.args else payload
            want = f"len({norm(core)})"
            ok = norm(size) == want
            if not ok and isinstance(size, ast.Name):
                # size captured in a variable: must be len(core) and core must not be rebound between capture and use
                defs = [a for a in walk_own(fi.node) if isinstance(a, ast.Assign) and any(isinstance(t, ast.Name) and t.id == size.id for t in a.targets)]
                if len(defs) == 1 and norm(defs[0].value) == want and isinstance(core, ast.Name):
                    reb = [a for a in walk_own(fi.node) if isinstance(a, (ast.Assign, ast.AugAssign)) and any(isinstance(t, ast.Name) and t.id == core.id for t in (a.targets if isinstance(a, ast.Assign) else [a.target])) and defs[0].lineno < a.lineno < c.lineno]
                    if reb:
                        rep.fail(Finding("C14-BYTES", fi.module.rel, fi.qual, f"size_bytes={size.id} / {norm(payload)}", f"`{size.id}` was measured before `{core.id}` is replaced by `{short(reb[0].value, 40)}`: the size reported for {cls} differs from the length of its bytes", line=c.lineno))
                        continue
                    ok = True
            if ok:
                rep.ok({"site": f"{fi.qual}: {cls}", "size_bytes": want})
            else:
                rep.fail(Finding("C14-BYTES", fi.module.rel, fi.qual, f"size_bytes={norm(size)} / payload {norm(payload)}", f"{cls}.size_bytes is `{norm(size)}`, not the length of the payload handed over (`{want}`)", line=c.lineno))
    if n < 10:
        raise AnalysisError(f"C14-BYTES: only {n} payload/size constructor sites found (floor 10)")
    # get_bytes shapes
    for c in implementers(ctx, "ImageInterface") + [x for x in dt.classes.values() if x.name == "EmailAttachment"]:
        gb = c.methods.get("get_bytes")
        if gb is None:
            continue
        body = [s for s in gb.node.body if not is_noise(s)]
        txt = [anorm(s, gb.node) for s in body]
        fld = "blob" if "blob" in c.fields else "data"
        whole = {f"self.{fld}", f"self.{fld}.getvalue()", f"bytes(self.{fld})", f"self.{fld}.getbuffer()"}
        local = {a.targets[0].id: a.value for a in walk_own(gb.node) if isinstance(a, ast.Assign) and len(a.targets) == 1 and isinstance(a.targets[0], ast.Name)}
        rets = [r for r in walk_own(gb.node) if isinstance(r, ast.Return)]
        shapes, bad = [], None
        for r in rets:
            v = r.value
            via = None
            if isinstance(v, ast.Name) and v.id in local:
                via, v = v.id, local[v.id]
            if isinstance(v, ast.Call) and (dotted(v.func) or "").split(".")[-1] == "BytesIO" and not v.keywords:
                if not v.args:
                    conds, _, _ = path_conditions(gb.node, r)
                    if f"self.{fld} is None" in {str(x) for x in conds} or f"not self.{fld}" in {str(x) for x in conds}:
                        shapes.append("empty stream when there is no payload")
                    else:
                        bad = f"`{short(r, 40)}` returns an empty stream although the image has bytes"
                elif len(v.args) == 1 and norm(v.args[0]) in whole:
                    # a fresh stream starts at 0; it must not be moved or consumed before it is returned
                    moved = [x for x in walk_own(gb.node) if via and isinstance(x, ast.Call) and isinstance(x.func, ast.Attribute) and isinstance(x.func.value, ast.Name) and x.func.value.id == via
                             and (x.func.attr in ("read", "readline", "write", "truncate", "close") or (x.func.attr == "seek" and not (len(x.args) == 1 and isinstance(x.args[0], ast.Constant) and x.args[0].value == 0)))]
                    if moved:
                        bad = f"the fresh stream is moved or consumed (`{short(moved[0], 40)}`) before it is returned"
                    else:
                        shapes.append(f"fresh BytesIO({norm(v.args[0])})")
                else:
                    bad = f"`{short(r, 60)}` wraps something other than the whole payload self.{fld}"
            elif v is not None and norm(v) == f"self.{fld}":
                blk = next((b for b in ([gb.node.body] + [x.body for x in ast.walk(gb.node) if hasattr(x, "body") and isinstance(getattr(x, "body"), list)] + [x.orelse for x in ast.walk(gb.node) if getattr(x, "orelse", None)]) if r in b), [])
                before = [norm(x) for x in blk[:blk.index(r)]] if r in blk else []
                if f"self.{fld}.seek(0)" in before:
                    shapes.append("stored stream rewound to 0")
                else:
                    bad = f"`{short(r, 40)}` returns the stored stream where the last reader left it (no seek(0))"
            else:
                bad = f"`{short(r, 60)}` is not a stream over self.{fld}"
        if rets and bad is None:
            rep.ok({"get_bytes": c.name, "shape": sorted(set(shapes))})
        else:
            rep.fail(Finding("C14-BYTES", DT, f"{c.name}.get_bytes", " ; ".join(txt)[:160], f"{c.name}.get_bytes does not return a stream positioned at 0 over the whole payload: {bad or 'no return'}", line=gb.node.lineno))
    return rep


VIEW_CLASSES = {
    # content class: (unit collection, per-unit image field, per-unit table field)
    "PdfContent": ("pages", "images", "tables"),
    "PptxContent": ("slides", "images", None),
    "PptContent": ("slides", "images", None),
    "OdpContent": ("slides", "images", "tables"),
    "XlsxContent": ("sheets", "images", None),
    "OdsContent": ("sheets", "images", None),
}


def rule_view(ctx: Ctx) -> RuleReport:
    rep = RuleReport("C14-VIEW", "document-level image iteration walks the per-unit lists the units hand out")
    dt = ctx.p.module(DT)
    for cname, (coll, imgf, tblf) in VIEW_CLASSES.items():
        c = dt.classes.get(cname)
        if c is None:
            raise AnalysisError(f"C14-VIEW: class {cname} vanished")
        it = c.methods.get("iterate_images")
        iu = c.methods.get("iterate_units")
        if it is None or iu is None:
            raise AnalysisError(f"C14-VIEW: {cname} lacks iterate_images / iterate_units")
        rep.unit(c.key)
        txt_i = " ".join(norm(s) for s in it.node.body)
        txt_u = " ".join(norm(s) for s in iu.node.body)
        walks = f"self.{coll}" in txt_i and f".{imgf}" in txt_i
        if walks:
            rep.ok({"class": cname, "iterate_images": f"for unit in self.{coll}: unit.{imgf}"})
        else:
            rep.fail(Finding("C14-VIEW", DT, f"{cname}.iterate_images", txt_i[:160], f"{cname}.iterate_images does not walk self.{coll}[*].{imgf}: images reachable from units are not reachable from the document", line=it.node.lineno))
        if f"self.{coll}" in txt_u and (f".{imgf}" in txt_u or "images=" in txt_u):
            rep.ok({"class": cname, "iterate_units": f"units carry {imgf}"})
        else:
            rep.fail(Finding("C14-VIEW", DT, f"{cname}.iterate_units", txt_u[:160], f"{cname}.iterate_units does not hand the per-{coll[:-1]} images to the units", line=iu.node.lineno))
        # no filtering of images in either view
        for mth in (it, iu):
            for n in walk_own(mth.node):
                if isinstance(n, (ast.ListComp, ast.GeneratorExp)) and n.generators[0].ifs and imgf in norm(n.generators[0].iter):
                    rep.fail(Finding("C14-VIEW", DT, mth.qual, short(n), "images are filtered in one of the two views: the unit view and the document view no longer coincide", line=n.lineno))
    return rep


def rule_ref(ctx: Ctx) -> RuleReport:
    rep = RuleReport("C14-REF", "relationship targets are normalised without dropping path components")
    PPTX = X + "ms_modern/pptx_extractor.py"
    f = ctx.p.func(PPTX, "_normalize_relative_path")
    rep.unit(f.key)
    # the loop over path components: '..' pops (only when something can be popped), '.'/'' skipped, everything else kept
    loops = [n for n in walk_own(f.node) if isinstance(n, ast.For)]
    if not loops:
        # the library form: posixpath.normpath(posixpath.join(base, target)). join() keeps a rooted target ('/ppt/media/x.png') rooted, and
        # member names of a ZIP never start with '/': the leading slash has to go before the name is looked up
        calls_ = {(dotted(c.func) or "").split(".")[-1] for c in ast.walk(f.node) if isinstance(c, ast.Call)}
        if {"normpath", "join"} <= calls_:
            rets = [r for r in walk_own(f.node) if isinstance(r, ast.Return) and r.value is not None]
            strips = [c for c in ast.walk(f.node) if isinstance(c, ast.Call) and isinstance(c.func, ast.Attribute) and c.func.attr in ("lstrip", "removeprefix") and c.args and isinstance(c.args[0], ast.Constant) and c.args[0].value == "/"]
            sliced = [i for i in walk_own(f.node) if isinstance(i, (ast.If, ast.While)) and "startswith('/')" in norm(i.test)]
            if strips or sliced:
                rep.ok({"_normalize_relative_path": "normpath(join(base, target)) with the leading slash of rooted targets removed"})
            else:
                rep.fail(Finding("C14-REF", PPTX, f.qual, "rooted target keeps its leading slash", "posixpath.join() returns a rooted target ('/ppt/media/image2.png') unchanged and nothing removes the leading slash: no member of the package is called that, the picture is silently missing and the later images are renumbered", line=rets[0].lineno if rets else f.node.lineno))
        else:
            raise AnalysisError("C14-REF: component loop of _normalize_relative_path not found")
    body_txt = " ; ".join(norm(s) for s in loops[0].body) if loops else ""
    pops = [] if not loops else [n for n in ast.walk(loops[0]) if isinstance(n, ast.If) and any(isinstance(st, ast.Expr) and isinstance(st.value, ast.Call) and isinstance(st.value.func, ast.Attribute) and st.value.func.attr == "pop" for st in n.body)]
    for p in pops:
        t = norm(p.test)
        # the stack that is popped: the guard must be "the stack is not empty", whatever the stack is called
        stack = next((st.value.func.value.id for st in p.body if isinstance(st, ast.Expr) and isinstance(st.value, ast.Call) and isinstance(st.value.func, ast.Attribute) and st.value.func.attr == "pop" and isinstance(st.value.func.value, ast.Name)), None)
        if stack is not None and t in (stack, f"len({stack}) > 0", f"len({stack}) >= 1"):
            rep.ok({"_normalize_relative_path": f"'..' pops only `if {t}`"})
        else:
            rep.fail(Finding("C14-REF", PPTX, f.qual, t, f"a '..' component is honoured only `if {t}`: targets that climb out of /ppt (../../media/x.png) resolve to the wrong part, so another image's bytes (or none) are returned", line=p.lineno))
    if not pops and loops:
        rep.fail(Finding("C14-REF", PPTX, f.qual, body_txt[:120], "'..' components are no longer resolved", line=f.node.lineno))
    # OPC (ECMA-376 part 2, 8.3): a relationship target is relative to the directory of its source part, or -- with a leading slash -- to
    # the package root. Gluing a directory in front of the target is right for the plain relative form only.
    DOCX_ = X + "ms_modern/docx_extractor.py"
    n_sites = 0
    for rel in (DOCX_, PPTX):
        m = ctx.p.module(rel)
        for fi in m.functions.values():
            if fi.parent is not None:
                continue
            for e in ast.walk(fi.node):
                glued = None
                if isinstance(e, ast.BinOp) and isinstance(e.op, ast.Add) and isinstance(e.left, ast.Constant) and isinstance(e.left.value, str) and e.left.value.endswith("/") and isinstance(e.right, ast.Name):
                    glued = (e.left.value, e.right.id)
                elif isinstance(e, ast.JoinedStr) and len(e.values) >= 2 and isinstance(e.values[-1], ast.FormattedValue) and isinstance(e.values[-1].value, ast.Name):
                    lit = "".join(str(v.value) for v in e.values[:-1] if isinstance(v, ast.Constant))
                    dyn = [v for v in e.values[:-1] if isinstance(v, ast.FormattedValue)]
                    if (lit.endswith("/") and len(dyn) <= 1):
                        glued = (lit if not dyn else "{" + norm(dyn[0].value) + "}" + lit, e.values[-1].value.id)
                if glued is None or "target" not in glued[1].lower():
                    continue
                n_sites += 1
                rep.unit(fi.key)
                var = glued[1]
                conds, opaque, _ = path_conditions(fi.node, e, terminals=("continue", "return", "break", "raise"))
                cs = {str(c) for c in conds} | set(opaque)
                absolute_handled = any(c == f"not {var}.startswith('/')" for c in cs)
                in_absolute_branch = any(c == f"{var}.startswith('/')" for c in cs)
                if absolute_handled and not in_absolute_branch:
                    rep.ok({"opc_target": f"{fi.qual}: {short(e, 40)}", "absolute_form": "handled before", "under": sorted(cs)[:3]})
                else:
                    rep.fail(Finding("C14-REF", rel, fi.qual, f"directory glued in front of the target: {anorm(e, fi.node)}", f"`{short(e, 50)}` puts a directory in front of a relationship target whatever its form: Target=\"/word/media/image1.png\" (relative to the package root) becomes 'word//word/media/image1.png', the part is not found and the image, header or slide is silently missing", line=e.lineno))
    if n_sites < 3:
        raise AnalysisError(f"C14-REF: only {n_sites} places that build a part name from a relationship target were found (3 confirmed)")
    # XLSX: which part a sheet tab is stored in is said by xl/workbook.xml + xl/_rels/workbook.xml.rels; "sheet<position>.xml" is a guess that
    # fails as soon as tabs were re-ordered or a sheet was deleted. A position-built part name may only be the fallback when the workbook's
    # own mapping has no answer.
    XLSX_ = X + "ms_modern/xlsx_extractor.py"
    xm = ctx.p.module(XLSX_)
    mappers = {f.name for f in xm.functions.values() if any(isinstance(c, ast.Constant) and c.value == "xl/_rels/workbook.xml.rels" for c in ast.walk(f.node))}
    n_guess = 0
    for fi in xm.functions.values():
        mapped = {a.targets[0].id for a in walk_own(fi.node) if isinstance(a, ast.Assign) and len(a.targets) == 1 and isinstance(a.targets[0], ast.Name) and isinstance(a.value, ast.Call)
                  and isinstance(a.value.func, ast.Name) and a.value.func.id in mappers}
        for e in walk_own(fi.node):
            if not isinstance(e, ast.JoinedStr):
                continue
            lits = [str(v.value) for v in e.values if isinstance(v, ast.Constant)]
            if not (any(l.endswith("sheet") for l in lits) and any(".xml" in l for l in lits) and any(isinstance(v, ast.FormattedValue) for v in e.values)):
                continue
            n_guess += 1
            rep.unit(fi.key)
            conds, opaque, _ = path_conditions(fi.node, e)
            cs = [str(c) for c in conds] + list(opaque)
            fallback = any(c.startswith("not ") and any(v in c for v in mapped) for c in cs)
            if fallback:
                rep.ok({"xlsx_part_guess": f"{fi.qual}: {short(e, 50)}", "only_when": [c for c in cs if c.startswith("not ")][:2]})
            else:
                rep.fail(Finding("C14-REF", XLSX_, fi.qual, "part name guessed from the tab position: " + anorm(e, fi.node), f"`{short(e, 60)}` takes the n-th tab to be stored in sheet<n>.xml; tabs that were re-ordered, or a workbook whose first sheet was deleted, keep other part names: the picture is reported on the wrong sheet or lost", line=e.lineno))
    if n_guess == 0 and not mappers:
        raise AnalysisError("C14-REF: the XLSX reader neither maps tabs through workbook.xml.rels nor builds sheet part names: image attribution not recognised")
    epub_href_clauses(ctx, rep, "C14-REF")
    member_name_clauses(ctx, rep, "C14-REF")
    return rep


_DECODERS = ("unquote", "unquote_plus", "unquote_to_bytes", "url2pathname")


def member_name_clauses(ctx: Ctx, rep: RuleReport, rule: str) -> None:
    """Which ZIP member a reference names. (a) OPC part names keep their percent escapes (ECMA-376-2, 10.2: the ZIP item name *is* the part
    name without its leading slash): the Target attribute reaches the member lookup as written. (b) the accessors of ZipContext consult the
    archive under one and the same name -- exists() must answer for the member read_bytes() / open_stream() would open. (c) strip() family
    calls take a *set of characters*: a set that holds both '.' and a separator eats '../' prefixes and the dot of '.hidden'."""
    # (a)
    readers = []
    for m in ctx.p.modules.values():
        if "/tests/" in m.rel or not m.rel.startswith(X):
            continue
        for fi in m.functions.values():
            reads = [c for c in walk_own(fi.node) if isinstance(c, ast.Call) and isinstance(c.func, ast.Attribute) and c.func.attr == "get" and c.args and isinstance(c.args[0], ast.Constant) and c.args[0].value == "Target"]
            if reads:
                readers.append((m, fi, reads))
    if not readers:
        raise AnalysisError(f"{rule}: no function reads the Target attribute of a Relationship (1 confirmed: parse_relationships)")
    for m, fi, reads in readers:
        rep.unit(fi.key)
        derived = {a.targets[0].id for a in walk_own(fi.node) if isinstance(a, ast.Assign) and len(a.targets) == 1 and isinstance(a.targets[0], ast.Name) and any(x in reads for x in ast.walk(a.value))}
        bad = None
        for c in walk_own(fi.node):
            if not isinstance(c, ast.Call) or c in reads:
                continue
            operands = list(c.args) + [k.value for k in c.keywords] + ([c.func.value] if isinstance(c.func, ast.Attribute) else [])
            touches = any(x in reads or (isinstance(x, ast.Name) and x.id in derived) for o in operands for x in ast.walk(o))
            if not touches:
                continue
            d = c.func.attr if isinstance(c.func, ast.Attribute) else (dotted(c.func) or "").split(".")[-1]
            if d in _DECODERS or d in ("lower", "upper", "casefold", "title", "capitalize"):
                bad = (c, d)
                break
        if bad:
            rep.fail(Finding(rule, m.rel, fi.qual, f"relationship Target rewritten by {bad[1]}", f"`{short(bad[0], 60)}` rewrites the Target before the extractors look the part up: the ZIP item of part /word/media/company%20logo.png is called 'word/media/company%20logo.png' (the escape is part of the name), the rewritten name matches no member and the picture is silently missing from DOCX, PPTX and XLSX", line=bad[0].lineno))
        else:
            rep.ok({"opc_target": f"{fi.qual}: Target reaches the caller as written"})
    # (b)
    zc = next((c for c in ctx.p.all_classes() if c.name == "ZipContext"), None)
    if zc is None:
        raise AnalysisError(f"{rule}: class ZipContext not found")
    archive_attrs = set()
    init = zc.methods.get("__init__")
    if init is not None:
        for a in walk_own(init.node):
            if isinstance(a, ast.Assign) and len(a.targets) == 1 and isinstance(a.targets[0], ast.Attribute) and isinstance(a.targets[0].value, ast.Name) and a.targets[0].value.id == "self":
                archive_attrs.add(a.targets[0].attr)
    consulted = {}
    for name, mth in zc.methods.items():
        params = [a.arg for a in mth.node.args.args[1:]]
        if name.startswith("__") or len(params) != 1:
            continue
        par = params[0]
        exprs = []
        for e in walk_own(mth.node):
            if isinstance(e, ast.Compare) and len(e.ops) == 1 and isinstance(e.ops[0], (ast.In, ast.NotIn)) and any(isinstance(x, ast.Attribute) and x.attr in archive_attrs for x in ast.walk(e.comparators[0])):
                exprs.append(e.left)
            elif isinstance(e, ast.Call) and any(isinstance(x, ast.Attribute) and isinstance(x.value, ast.Name) and x.value.id == "self" and x.attr in archive_attrs for x in ast.walk(e.func) if True) and e.args:
                exprs.append(e.args[0])
            elif isinstance(e, ast.Call) and any(isinstance(x, ast.Attribute) and isinstance(x.value, ast.Name) and x.value.id == "self" and x.attr in archive_attrs for a_ in e.args for x in ast.walk(a_)):
                exprs.extend(a_ for a_ in e.args if any(isinstance(x, ast.Name) and x.id == par for x in ast.walk(a_)) and not any(isinstance(x, ast.Attribute) and x.attr in archive_attrs for x in ast.walk(a_)))
        exprs = [e for e in exprs if any(isinstance(x, ast.Name) and x.id == par for x in ast.walk(e))]
        if exprs:
            consulted[name] = (mth, sorted({norm(e).replace(par, "<path>") for e in exprs}))
    if len(consulted) < 4:
        raise AnalysisError(f"{rule}: only {len(consulted)} ZipContext accessors that look a member up found (5 confirmed)")
    forms = {}
    for name, (mth, fs) in consulted.items():
        for f_ in fs:
            forms.setdefault(f_, []).append(name)
    rep.unit(zc.module.rel + "::ZipContext")
    if len(forms) == 1:
        rep.ok({"zip_context_accessors": sorted(consulted), "member_name": next(iter(forms))})
    else:
        major = max(forms, key=lambda k: len(forms[k]))
        for f_, names in sorted(forms.items()):
            if f_ == major:
                continue
            mth = consulted[names[0]][0]
            rep.fail(Finding(rule, zc.module.rel, mth.qual, f"member looked up as {f_} here, as {major} in the sibling accessors", f"{', '.join(sorted(names))} consult the archive under `{f_}`, {', '.join(sorted(forms[major]))} under `{major}`: exists() answers for another member than the readers open, so a reference is either skipped although the member is there or read from a member it does not name (wrong image bytes)", line=mth.node.lineno))
    # (c)
    n_strip = 0
    for m in ctx.p.modules.values():
        if "/tests/" in m.rel or not m.rel.startswith(X):
            continue
        for fi in m.functions.values():
            for c in walk_own(fi.node):
                if isinstance(c, ast.Call) and isinstance(c.func, ast.Attribute) and c.func.attr in ("lstrip", "rstrip", "strip") and len(c.args) == 1:
                    v = ctx.folder.fold(fi.module, c.args[0]) if not isinstance(c.args[0], ast.Constant) else c.args[0].value
                    if not isinstance(v, str):
                        continue
                    n_strip += 1
                    if "." in v and ("/" in v or "\\" in v) and c.func.attr in ("lstrip", "strip"):
                        rep.fail(Finding(rule, m.rel, fi.qual, f"{c.func.attr}({v!r}) removes a set of characters, not a prefix", f"`{short(c, 50)}` strips every leading '.' and separator: '../media/image1.png' loses its parent step and '.thumbs/a.png' its dot, so the reference is resolved to a member it does not name (missing or wrong image)", line=c.lineno))
    rep.ok({"strip_calls_with_literal_sets": n_strip})


def epub_href_clauses(ctx: Ctx, rep: RuleReport, rule: str) -> None:
    """EPUB: manifest hrefs are IRI references relative to the OPF document: fragment removed, then percent-decoded, dot segments resolved.
    RFC 3986 2.4: a reference is split at its delimiters *before* it is percent-decoded -- after decoding, an encoded '#' or '?' that is
    part of a file name ('Chapter%20%232.xhtml') is indistinguishable from a delimiter."""
    EPUBX = X + "epub_extractor.py"
    rh = ctx.p.func(EPUBX, "_EpubContext.resolve_href")
    rep.unit(rh.key)
    calls = {(dotted(c.func) or "").split(".")[-1] for c in ast.walk(rh.node) if isinstance(c, ast.Call)}
    need = {"unquote": "percent-encoded names ('chapter%201.xhtml') are not decoded", "normpath": "parent-relative hrefs ('../images/a.png') are not resolved"}
    for fn_, why in need.items():
        if fn_ in calls:
            rep.ok({"epub_href": fn_})
        else:
            rep.fail(Finding(rule, EPUBX, rh.qual, f"href not passed through {fn_}", f"resolve_href does not apply {fn_}: {why}, so the chapter or image is not found in the package and is silently left out", line=rh.node.lineno))
    # decoded values: expressions that contain an unquote(...) call, and names assigned from them
    def is_unquote(c):
        return isinstance(c, ast.Call) and (dotted(c.func) or "").split(".")[-1] in ("unquote", "unquote_plus", "unquote_to_bytes")
    decoded_names: set[str] = set()
    changed = True
    while changed:
        changed = False
        for a in walk_own(rh.node):
            if isinstance(a, ast.Assign) and len(a.targets) == 1 and isinstance(a.targets[0], ast.Name) and a.targets[0].id not in decoded_names:
                if any(is_unquote(x) or (isinstance(x, ast.Name) and x.id in decoded_names) for x in ast.walk(a.value)):
                    # `href = unquote(href.split('#')[0])`: the name is decoded from here on; uses *inside* the unquote argument are the raw value
                    decoded_names.add(a.targets[0].id)
                    changed = True

    def decoded(e, at_line) -> bool:
        if any(is_unquote(x) for x in ast.walk(e)):
            return True
        for x in ast.walk(e):
            if isinstance(x, ast.Name) and x.id in decoded_names:
                # the name holds the decoded value only after its (first) decoding assignment
                firsts = [a.lineno for a in walk_own(rh.node) if isinstance(a, ast.Assign) and len(a.targets) == 1 and isinstance(a.targets[0], ast.Name) and a.targets[0].id == x.id
                          and any(is_unquote(y) for y in ast.walk(a.value))]
                if firsts and at_line > min(firsts):
                    return True
        return False

    bad = []
    for c in ast.walk(rh.node):
        if not isinstance(c, ast.Call):
            continue
        d = (dotted(c.func) or "").split(".")[-1]
        if d in ("urlsplit", "urlparse", "urldefrag") and c.args and decoded(c.args[0], c.lineno):
            bad.append((c, d))
        elif isinstance(c.func, ast.Attribute) and c.func.attr in ("split", "rsplit", "partition", "rpartition", "find", "index") and c.args and isinstance(c.args[0], ast.Constant) and c.args[0].value in ("#", "?") \
                and decoded(c.func.value, c.lineno) and not any(is_unquote(x) and any(y is c for y in ast.walk(x)) for x in ast.walk(rh.node)):
            bad.append((c, f"{c.func.attr}({c.args[0].value!r})"))
    if bad:
        for c, what in bad:
            rep.fail(Finding(rule, EPUBX, rh.qual, f"href split at its delimiters after percent-decoding: {what}", f"`{short(c, 60)}` looks for '#' / '?' in the href after unquote(): a part whose name contains an encoded '#' or '?' ('Chapter%20%232.xhtml', 'why%3F.png') is cut at the decoded character, is not found in the package and is silently missing (chapter, unit number, image)", line=c.lineno))
    else:
        rep.ok({"epub_href": "delimiters are looked for before percent-decoding"})


def rule_jpeg(ctx: Ctx) -> RuleReport:
    """Pixel size 'when the file declares one': the JPEG segment walk must skip marker (2 bytes) + declared length."""
    rep = RuleReport("C14-JPEG", "JPEG dimension scanners advance by marker + segment length; the sibling copies agree")
    from sa.engine.shape import _skeleton_equal, alpha

    sites = [(X + "ms_modern/docx_extractor.py", "_get_image_pixel_dimensions"), (X + "ms_modern/pptx_extractor.py", "_get_image_pixel_dimensions"),
             (X + "ms_modern/xlsx_extractor.py", "_get_image_pixel_dimensions"), (X + "util/image_utils.py", "get_jpeg_dimensions")]
    loops = []
    for rel, fn in sites:
        f = ctx.p.func(rel, fn)
        rep.unit(f.key)
        ws = [w for w in walk_own(f.node) if isinstance(w, ast.While)]
        if not ws:
            raise AnalysisError(f"C14-JPEG: no segment loop in {f.key}")
        w = ws[0]
        # cursor = the name compared in the loop test and augmented in the body
        cur = None
        for n in ast.walk(w.test):
            if isinstance(n, ast.Name) and any(isinstance(a, ast.AugAssign) and isinstance(a.target, ast.Name) and a.target.id == n.id for a in ast.walk(w)):
                cur = n.id
        # segment length variable: read from 2 bytes at cursor + 2
        seg = None
        for a in ast.walk(w):
            if isinstance(a, ast.Assign) and isinstance(a.targets[0], ast.Name) and cur and f"{cur} + 2" in norm(a.value) and ("from_bytes" in norm(a.value) or "unpack" in norm(a.value)):
                seg = a.targets[0].id
        if cur is None or seg is None:
            raise AnalysisError(f"C14-JPEG: cursor / segment length not recognised in {f.key}")
        advances = [a for a in ast.walk(w) if isinstance(a, ast.AugAssign) and isinstance(a.target, ast.Name) and a.target.id == cur and seg in {x.id for x in ast.walk(a.value) if isinstance(x, ast.Name)}]
        if not advances:
            rep.fail(Finding("C14-JPEG", rel, fn, f"while {norm(w.test)}", "the JPEG segment walk never advances by the segment length", line=w.lineno))
        for a in advances:
            if norm(a.value) in (f"2 + {seg}", f"{seg} + 2"):
                rep.ok({"scanner": f.key, "advance": norm(a)})
            else:
                rep.fail(Finding("C14-JPEG", rel, fn, norm(a), f"the JPEG segment walk advances by `{norm(a.value)}` instead of marker (2) + segment length: it resumes inside the segment and can miss or mis-detect the frame header, so declared pixel sizes are not reported", line=a.lineno))
        # the markers taken for a frame header are exactly SOF0..SOF15 without DHT (C4), JPG (C8) and DAC (CC)  [ITU-T T.81 table B.1]
        SOF = {0xC0, 0xC1, 0xC2, 0xC3, 0xC5, 0xC6, 0xC7, 0xC9, 0xCA, 0xCB, 0xCD, 0xCE, 0xCF}
        sets = []
        for cmp_ in ast.walk(w):
            if isinstance(cmp_, ast.Compare) and len(cmp_.ops) == 1 and isinstance(cmp_.ops[0], ast.In):
                v = ctx.folder.fold(f.module, cmp_.comparators[0])
                if isinstance(v, (tuple, list, set, frozenset)) and v and all(isinstance(x, int) for x in v) and 0xC0 in set(v):
                    sets.append((cmp_, set(v)))
        if len(sets) != 1:
            raise AnalysisError(f"C14-JPEG: the start-of-frame marker test of {f.key} was not found")
        if sets[0][1] == SOF:
            rep.ok({"scanner": f.key, "sof_markers": "C0-C3, C5-C7, C9-CB, CD-CF"})
        else:
            extra, missing = sorted(sets[0][1] - SOF), sorted(SOF - sets[0][1])
            rep.fail(Finding("C14-JPEG", rel, fn, "SOF markers " + ",".join(hex(x) for x in extra + missing), f"the markers taken for a JPEG frame header differ from SOF0-SOF15 minus DHT/JPG/DAC: extra {[hex(x) for x in extra]}, missing {[hex(x) for x in missing]} — a Huffman table (0xC4) before the frame header is read as the picture size", line=sets[0][0].lineno))
        loops.append((f, w))
    # the three OOXML copies agree structurally
    ref = None
    bodies = [(f, alpha([w], [a.arg for a in f.node.args.args])) for f, w in loops[:3]]
    for i in range(3):
        for j in range(i + 1, 3):
            r = _skeleton_equal(bodies[i][1], bodies[j][1])
            if r == "equal":
                rep.ok({"siblings": f"{bodies[i][0].module.rel.split('/')[-1]} = {bodies[j][0].module.rel.split('/')[-1]}"})
            elif r == "leaves":
                rep.fail(Finding("C14-JPEG", bodies[j][0].module.rel, bodies[j][0].qual, "JPEG loop", f"the JPEG loops of {bodies[i][0].module.rel.split('/')[-1]} and {bodies[j][0].module.rel.split('/')[-1]} have the same structure but differ in a constant or operator", line=loops[j][1].lineno))
            else:
                rep.info.append(f"JPEG loops of {bodies[i][0].module.rel.split('/')[-1]} and {bodies[j][0].module.rel.split('/')[-1]} differ in structure (not judged)")
    return rep


PDFX = X + "pdf/pdf_extractor.py"
SUBTYPE = {"jpeg": "image/jpeg", "jp2": "image/jp2", "png": "image/png", "tiff": "image/tiff", "jbig2": "image/jbig2"}  # format name -> MIME type (IANA)


def rule_chain(ctx: Ctx) -> RuleReport:
    """'the matching content type' for PDF images: the two filter tables agree, and a filter chain is named by its LAST filter
    (PDF 32000-1 §7.4.1: filters are applied in array order when decoding, so what remains after pypdf undid the others is the last one)."""
    rep = RuleReport("C14-CHAIN", "PDF image format and content type: both filter tables have the same keys and matching values; a /Filter array is judged by its last element")
    fmt = ctx.const(PDFX, "FILTER_TO_FORMAT")
    cty = ctx.const(PDFX, "FILTER_TO_CONTENT_TYPE")
    if not isinstance(fmt, dict) or not isinstance(cty, dict):
        raise AnalysisError("C14-CHAIN: FILTER_TO_FORMAT / FILTER_TO_CONTENT_TYPE are no longer constant dicts")
    for k in sorted(set(fmt) | set(cty)):
        if k not in fmt or k not in cty:
            rep.fail(Finding("C14-CHAIN", PDFX, "FILTER_TO_FORMAT", f"filter {k}", f"filter {k} is in only one of FILTER_TO_FORMAT / FILTER_TO_CONTENT_TYPE: its images get a format without the matching content type"))
        elif SUBTYPE.get(fmt[k]) != cty[k]:
            rep.fail(Finding("C14-CHAIN", PDFX, "FILTER_TO_CONTENT_TYPE", f"filter {k}: {fmt[k]} / {cty[k]}", f"filter {k} maps to format {fmt[k]!r} but content type {cty[k]!r}"))
        else:
            rep.ok({"filter": k, "format": fmt[k], "content_type": cty[k]})
    ei = ctx.p.func(PDFX, "_extract_image")
    rep.unit(ei.key)
    fv = {n.targets[0].id for n in walk_own(ei.node) if isinstance(n, ast.Assign) and len(n.targets) == 1 and isinstance(n.targets[0], ast.Name) and any(isinstance(c, ast.Constant) and c.value == "/Filter" for c in ast.walk(n.value))}
    if len(fv) != 1:
        raise AnalysisError("C14-CHAIN: the /Filter entry is no longer read into one local of _extract_image")
    V = next(iter(fv))
    lookups = [c for c in calls_in(ei) if isinstance(c.func, ast.Attribute) and c.func.attr == "get" and norm(c.func.value) in ("FILTER_TO_FORMAT", "FILTER_TO_CONTENT_TYPE")]
    if len(lookups) != 2 or any(not (c.args and isinstance(c.args[0], ast.Name) and c.args[0].id == V) for c in lookups):
        rep.fail(Finding("C14-CHAIN", PDFX, ei.qual, "lookups: " + "; ".join(anorm(c, ei.node) for c in lookups), "format and content type are not both looked up with the image's /Filter value", line=ei.node.lineno))
    else:
        rep.ok({"lookups": "both tables, same key"})
    picks = []
    for i in walk_own(ei.node):
        if isinstance(i, ast.If) and isinstance(i.test, ast.Call) and norm(i.test.func) == "isinstance" and len(i.test.args) == 2 and norm(i.test.args[0]) == V:
            for sub in ast.walk(i):
                if isinstance(sub, ast.Subscript) and isinstance(sub.value, ast.Name) and sub.value.id == V and isinstance(sub.ctx, ast.Load):
                    picks.append(sub)
    if not picks:
        raise AnalysisError("C14-CHAIN: no element of a /Filter array is selected in _extract_image (chain handling not recognised)")
    for sub in picks:
        idx = sub.slice
        val = ctx.folder.fold(ei.module, idx)
        if val == -1 or norm(idx) == f"len({V}) - 1":
            rep.ok({"chain": f"{V}[-1] (last filter)"})
        elif isinstance(val, int):
            rep.fail(Finding("C14-CHAIN", PDFX, ei.qual, f"chain element [{val}]", f"a /Filter array is judged by element [{val}]: decoding applies the filters in order, so the data returned by get_data() is in the format of the LAST filter — a JPEG stored as [/FlateDecode /DCTDecode] is returned with JPEG bytes but labelled image/png", line=sub.lineno))
        else:
            raise AnalysisError(f"C14-CHAIN: index `{norm(idx)}` into the /Filter array is not a recognised constant")
    return rep


def rule_type(ctx: Ctx) -> RuleReport:
    """'the matching content type': a content-type table keyed by file extension is consulted with the extension lower-cased
    (package part names keep the case the producer used: Pictures/IMG_0042.JPG)."""
    rep = RuleReport("C14-TYPE", "content types looked up by file extension: the extension is lower-cased before the table is consulted (or the lookup is mimetypes.guess_type, which ignores case)")
    n = 0
    for m in ctx.p.modules.values():
        if "/tests/" in m.rel or not m.rel.startswith(X):
            continue
        tables = set()
        for name, val in m.assigns.items():
            v = ctx.folder.fold(m, val) if isinstance(val, ast.Dict) else None
            if isinstance(v, dict) and v and all(isinstance(x, str) and "/" in x for x in v.values()) and all(isinstance(k, str) for k in v):
                tables.add(name)
        if not tables:
            continue
        for fi in m.functions.values():
            for c in ast.walk(fi.node):
                key = None
                if isinstance(c, ast.Call) and isinstance(c.func, ast.Attribute) and c.func.attr == "get" and isinstance(c.func.value, ast.Name) and c.func.value.id in tables and c.args:
                    key = c.args[0]
                elif isinstance(c, ast.Subscript) and isinstance(c.value, ast.Name) and c.value.id in tables and isinstance(c.ctx, ast.Load):
                    key = c.slice
                if key is None:
                    continue
                # derivation of the key: follow single local assignments
                chain = [key]
                cur = key
                for _ in range(4):
                    if isinstance(cur, ast.Name):
                        defs = [a.value for a in walk_own(fi.node) if isinstance(a, ast.Assign) and len(a.targets) == 1 and isinstance(a.targets[0], ast.Name) and a.targets[0].id == cur.id]
                        if len(defs) != 1:
                            break
                        cur = defs[0]
                        chain.append(cur)
                    else:
                        break
                txt = " <- ".join(norm(x) for x in chain)
                from_ext = any(isinstance(x, ast.Call) and isinstance(x.func, ast.Attribute) and x.func.attr in ("rsplit", "split", "splitext", "rpartition") for e in chain for x in ast.walk(e)) or any(isinstance(x, ast.Attribute) and x.attr == "suffix" for e in chain for x in ast.walk(e))
                if not from_ext:
                    continue
                n += 1
                rep.unit(fi.key)
                lowered = any(isinstance(x, ast.Call) and isinstance(x.func, ast.Attribute) and x.func.attr in ("lower", "casefold") for e in chain for x in ast.walk(e))
                if lowered:
                    rep.ok({"lookup": f"{fi.qual}: {short(c, 50)}", "key": "lower-cased extension"})
                else:
                    rep.fail(Finding("C14-TYPE", m.rel, fi.qual, "case-sensitive extension lookup: " + anorm(key, fi.node), f"`{short(c, 60)}` looks the file extension up as it is spelled in the package ({txt[:80]}): `IMG_0042.JPG` or `Logo.PNG` get the fallback type instead of image/jpeg / image/png", line=c.lineno))
    # tables keyed by extension treat the two spellings of one format alike
    ALIASES = [("jpg", "jpeg"), ("tif", "tiff"), ("htm", "html")]
    for m in ctx.p.modules.values():
        if "/tests/" in m.rel or not m.rel.startswith(X):
            continue
        for name, val in m.assigns.items():
            v = ctx.folder.fold(m, val) if isinstance(val, ast.Dict) else None
            if not (isinstance(v, dict) and v and all(isinstance(x, str) and "/" in x for x in v.values()) and all(isinstance(k, str) for k in v)):
                continue
            keys = {k.lstrip("."): k for k in v}
            for a, b in ALIASES:
                if (a in keys) != (b in keys):
                    have, miss = (a, b) if a in keys else (b, a)
                    rep.fail(Finding("C14-TYPE", m.rel, name, f"extension .{miss} missing", f"the content-type table {name} knows `.{have}` but not `.{miss}`: `image2.{miss}` gets the fallback type although it is the same format"))
                elif a in keys and v[keys[a]] != v[keys[b]]:
                    rep.fail(Finding("C14-TYPE", m.rel, name, f".{a} / .{b} differ", f"{name} maps .{a} to {v[keys[a]]} but .{b} to {v[keys[b]]}"))
                elif a in keys:
                    rep.ok({"table": name, "aliases": f".{a} = .{b}"})
    # every manifest item declared as an image is an image: no allow-list of subtypes
    ei = ctx.p.func(X + "epub_extractor.py", "_extract_images")
    rep.unit(ei.key)
    skips = [i for i in walk_own(ei.node) if isinstance(i, ast.If) and i.body and isinstance(i.body[-1], ast.Continue)]
    listed = [i for i in skips if any(isinstance(x, ast.Compare) and isinstance(x.ops[0], (ast.In, ast.NotIn)) and isinstance(ctx.folder.fold(ei.module, x.comparators[0]), (set, frozenset, tuple, list)) for x in ast.walk(i.test))]
    prefix = [i for i in skips if any(isinstance(x, ast.Call) and isinstance(x.func, ast.Attribute) and x.func.attr == "startswith" and x.args and ctx.folder.fold(ei.module, x.args[0]) == "image/" for x in ast.walk(i.test))]
    if listed:
        rep.fail(Finding("C14-TYPE", X + "epub_extractor.py", ei.qual, "image subtypes allow-list: " + anorm(listed[0].test, ei.node), f"EPUB images are taken only when `{short(listed[0].test, 60)}`: a manifest item with another image/* type (bmp, tiff, svg, the common non-standard image/jpg) is not returned and the images after it are numbered one lower", line=listed[0].lineno))
    elif prefix:
        rep.ok({"epub_images": "every manifest item whose media type starts with image/"})
    else:
        raise AnalysisError("C14-TYPE: the media-type test of the EPUB image reader was not found")
    if n < 3:
        raise AnalysisError(f"C14-TYPE: only {n} extension-keyed content-type lookups found (3 confirmed: docx, pptx, xlsx)")
    return rep


def rule_hex(ctx: Ctx) -> RuleReport:
    """RTF pictures: the hex data of a \\pict group is wrapped over many lines by every writer; the pattern that picks it up and the
    decoding step together must return all of it. The folded pattern is evaluated over a finite table of layouts."""
    import re as _re

    RTF = X + "ms_legacy/rtf_extractor.py"
    rep = RuleReport("C14-HEX", "RTF picture data: the hex-data pattern, evaluated on {one line, CRLF every 64, LF every 128} x {after a numeric control word}, captures the whole data and nothing of the control words")
    m_ = ctx.p.module(RTF)
    node = m_.assigns.get("_RE_HEX_DATA")
    if not (isinstance(node, ast.Call) and (dotted(node.func) or "") == "re.compile" and node.args):
        raise AnalysisError("C14-HEX: _RE_HEX_DATA is no longer a re.compile(...) constant")
    pat = ctx.folder.fold(m_, node.args[0])
    if not isinstance(pat, str):
        raise AnalysisError("C14-HEX: the hex-data pattern is not a constant")
    ex = ctx.p.func(RTF, "_RtfParser._extract_images")
    rep.unit(ex.key)
    strips_ws = any(isinstance(c, ast.Call) and (dotted(c.func) or "") == "bytes.fromhex" and any(isinstance(x, ast.Call) and isinstance(x.func, ast.Attribute) and x.func.attr in ("split", "sub", "replace", "translate") for x in ast.walk(c)) for c in ast.walk(ex.node))
    rx = _re.compile(pat)
    hx = (bytes.fromhex("89504e470d0a1a0a") + bytes(range(120))).hex()
    for lname, sep, step in (("one line", "", len(hx)), ("CRLF every 64 digits", "\r\n", 64), ("LF every 128 digits", "\n", 128)):
        body = sep.join(hx[i:i + step] for i in range(0, len(hx), step))
        content = "\\pngblip\\picw10\\pich10 " + sep + body
        mm = rx.search(content)
        got = "".join(mm.group(1).split()) if mm else ""
        if got == hx and (sep == "" or strips_ws):
            rep.ok({"layout": lname, "captured": "all of the data"})
        elif got == hx:
            rep.fail(Finding("C14-HEX", RTF, ex.qual, "wrapped data not joined before bytes.fromhex", "the pattern captures wrapped hex data but the line breaks are not removed before decoding", line=ex.node.lineno))
        else:
            rep.fail(Finding("C14-HEX", RTF, "_RE_HEX_DATA", f"{lname}: captured {len(got)} of {len(hx)} digits", f"for picture data laid out as `{lname}` the pattern `{pat}` captures {len(got)} of {len(hx)} hex digits" + (" (it starts inside the preceding control word)" if len(got) > len(hx) else ": the picture is cut at the first line break, as Word and LibreOffice write it"), line=node.lineno))
    return rep


def rule_all(ctx: Ctx) -> RuleReport:
    """'Every raster image a document places in its body is returned': the DOCX reader returns one image per image relationship of the
    main part. A relationship may be skipped for what it is (not an image) or for its part (no bytes), never because a separate scan of
    the body did not come across its drawing -- that scan sees body-level paragraphs only, not cells, text boxes or VML pictures."""
    rep = RuleReport("C14-ALL", "the loop over the image relationships of a DOCX skips a relationship only on tests of the relationship itself or of the bytes loaded for it")
    DOCX_ = X + "ms_modern/docx_extractor.py"
    fi = ctx.p.func(DOCX_, "_extract_images_from_context")
    rep.unit(fi.key)
    loops = [l for l in walk_own(fi.node) if isinstance(l, ast.For) and isinstance(l.iter, ast.Call) and isinstance(l.iter.func, ast.Attribute) and l.iter.func.attr == "items"
             and any(isinstance(c, ast.Call) and _image_ctor(c, image_classes(ctx)) for c in ast.walk(l))]
    if len(loops) != 1:
        raise AnalysisError("C14-ALL: the loop over the relationships that builds DocxImage records was not found")
    l = loops[0]
    own = {x.id for x in ast.walk(l.target) if isinstance(x, ast.Name)}
    changed = True
    while changed:
        changed = False
        for a in ast.walk(l):
            if isinstance(a, ast.Assign) and len(a.targets) == 1:
                tn = {x.id for x in ast.walk(a.targets[0]) if isinstance(x, ast.Name)}
                if tn and not tn <= own and any(isinstance(x, ast.Name) and x.id in own for x in ast.walk(a.value)):
                    own |= tn
                    changed = True
    import builtins

    n = 0
    for cnt in [c for c in ast.walk(l) if isinstance(c, ast.Continue)]:
        # the test that decides this skip: the innermost `if` whose branch holds the `continue`
        decider = None
        for i in ast.walk(l):
            if isinstance(i, ast.If) and (cnt in i.body or cnt in i.orelse):
                decider = i
        if decider is None:
            continue  # unconditional within a handler etc.: judged by C14-PAIR
        for c in [norm(decider.test)]:
            names = {x.id for x in ast.walk(decider.test) if isinstance(x, ast.Name)}
            foreign = sorted(x for x in names if x not in own and not hasattr(builtins, x) and not x.isupper())
            n += 1
            if foreign:
                rep.fail(Finding("C14-ALL", DOCX_, fi.qual, "relationship skipped on " + anorm(ast.parse(c, mode="eval").body, fi.node), f"an image relationship is skipped under `{c}`, which depends on {foreign} -- something collected elsewhere, not the relationship or its bytes: pictures inside table cells, text boxes and VML pictures are not seen by the scan of the body-level paragraphs and are silently missing from iterate_images()", line=cnt.lineno))
            else:
                rep.ok({"skip": c, "depends_on": "the relationship / its bytes"})
    if n < 2:
        raise AnalysisError(f"C14-ALL: only {n} skip conditions found in the relationship loop (not-an-image, no-bytes confirmed)")
    return rep


RULES = [rule_pair, rule_bytes, rule_view, rule_ref, rule_jpeg, rule_chain, rule_type, rule_hex, rule_all]
