"""C01 — stable failure surface and termination."""
from __future__ import annotations

import ast

from sa.engine.callgraph import calls_in, reachable_functions, resolve_call
from sa.engine.cfg import CFG, default_may_raise, normally_dominates
from sa.engine.context import Ctx
from sa.engine.guards import path_conditions
from sa.engine.loader import AnalysisError, FuncInfo, dotted, norm, short, walk_own, is_noise
from sa.engine.loops import LoopAnalysis
from sa.engine.report import Finding, RuleReport
from sa.engine.resolver import Resolver
from sa.rules.common import CLI, DT, INIT, X, exception_family, extractor_entries, raised_class

ARCH = X + "archive_extractor.py"

EXPLANATION = (
    "Static analysis of the failure surface. (WRAP) for every extractor named by the folded registry the function body is "
    "[docstring][non-raising prefix] try: ...; every yield lies inside that try; its handlers end in a catch-all that raises a "
    "class of the ExtractionError family, family handlers re-raise, none swallows, there is no else-clause and finally "
    "bodies cannot raise; the same template is checked for read_file, the per-member step of the archive reader and the "
    "per-attachment step of e-mail results (catch-all that logs and continues; only family classes re-raised). (EXIT) no "
    "function reachable from an entry point calls sys.exit/os._exit or raises SystemExit/KeyboardInterrupt. (CLI) in "
    "cli.main all use of the parsed arguments happens inside one try whose catch-all prints exactly one line to stderr and "
    "returns 1; nothing streams into sys.stdout (no serialiser is handed the stream, no lazy iterable is written): after "
    "the first write to stdout only constant writes and `return 0` follow. (REC) every recursive call descends: an argument "
    "is derived from the corresponding parameter by a child-producing operation; a call with unchanged parameters is a "
    "violation. (LOOP) every while-loop is analysed path by path with interval arithmetic: cursor strictly advances / "
    "container shrinks / consuming reader; a back-edge path that changes nothing the loop test reads, or an analysable "
    "increment that can be <= 0, is a violation; loops that need facts outside the analysis are listed as residual."
)
NOT_DECIDED = ["termination and exception types of third-party parsers (pypdf, olefile, openpyxl, xlrd, mail-parser) and of `re` backtracking",
               "wall-clock budgets", "for-loops over generators with side effects (all for-loops in scope range over finite collections)",
               "residual loops listed in the evidence (peer-controlled pagination, pdf table scanner, rtf outer group scanner)"]
TRUSTED = ["CFG with exceptional edges (sa/engine/cfg.py)", "interval domain and regex minimum widths (sa/engine/loops.py, re._parser.getwidth)",
           "TextIOWrapper.write encodes its whole argument before buffering, so one write is all-or-nothing",
           "a generator's body runs only while it is iterated: exceptions surface at the consumer's next()"]
FLOORS = {"C01-BORROW": 40, "C01-REGEX": 90, "C01-WRAP": 70, "C01-EXIT": 1, "C01-CLI": 6, "C01-REC": 15, "C01-LOOP": 25, "C01-UNBOUND": 150}

LEGACY = {"read_doc", "read_ppt", "read_xls"}


def _body_wo_doc(fn):
    b = list(fn.body)
    if b and isinstance(b[0], ast.Expr) and isinstance(b[0].value, ast.Constant) and isinstance(b[0].value.value, str):
        b = b[1:]
    return b


def _handler_names(h: ast.ExceptHandler):
    if h.type is None:
        return ["<bare>"]
    els = h.type.elts if isinstance(h.type, ast.Tuple) else [h.type]
    return [(dotted(e) or norm(e)).split(".")[-1] for e in els]


def _nonraising(st) -> bool:
    return not default_may_raise(st)


def _handler_raise_class(h: ast.ExceptHandler, family) -> tuple[str | None, list]:
    """Class raised by the handler's final statement (following `err = K(...); raise err`), and the other statements."""
    last = h.body[-1] if h.body else None
    if not isinstance(last, ast.Raise) or last.exc is None:
        return None, list(h.body)
    cls = raised_class(last)
    rest = list(h.body[:-1])
    if isinstance(last.exc, ast.Name):
        for st in h.body[:-1]:
            if isinstance(st, ast.Assign) and len(st.targets) == 1 and isinstance(st.targets[0], ast.Name) and st.targets[0].id == last.exc.id and isinstance(st.value, ast.Call):
                c = (dotted(st.value.func) or "").split(".")[-1]
                if c in family:
                    cls = c
                    rest = [x for x in rest if x is not st]
    return cls, rest


def _last_effective(body):
    return body[-1] if body else None


def check_wrapper(ctx: Ctx, rep: RuleReport, fi: FuncInfo, family: set[str], rule="C01-WRAP"):
    """Template: [doc] P* Try(handlers: family->reraise, catch-all->raise family) ; yields inside the Try."""
    fn = fi.node
    body = _body_wo_doc(fn)
    rel = fi.module.rel
    tries = [s for s in body if isinstance(s, ast.Try)]
    if not tries:
        rep.fail(Finding(rule, rel, fi.qual, "no try", f"{fi.qual} has no outermost try/except translating failures into the ExtractionError family", line=fn.lineno))
        return
    t = tries[-1]
    idx = body.index(t)
    # 1. prefix non-raising, nothing after
    for st in body[:idx]:
        if _nonraising(st):
            rep.ok({"fn": fi.qual, "prefix": short(st, 60), "raises": False})
        else:
            rep.fail(Finding(rule, rel, fi.qual, short(st), f"statement before the translating try can raise: an exception from it escapes {fi.qual} untranslated", line=st.lineno))
    for st in body[idx + 1:]:
        if _nonraising(st):
            rep.ok()
        else:
            rep.fail(Finding(rule, rel, fi.qual, short(st), f"statement after the translating try can raise untranslated", line=st.lineno))
    # 2. handlers
    catch_all = None
    for i, h in enumerate(t.handlers):
        names = _handler_names(h)
        last = _last_effective(h.body)
        is_all = any(n in ("Exception", "BaseException", "<bare>") for n in names)
        if is_all:
            catch_all = h
            if i != len(t.handlers) - 1:
                rep.fail(Finding(rule, rel, fi.qual, "except " + ",".join(names), "catch-all handler is not the last handler: later handlers are dead", line=h.lineno))
            hcls, hrest = _handler_raise_class(h, family)
            if isinstance(last, ast.Raise) and last.exc is not None and hcls in family:
                others = [s for s in hrest if not _nonraising(s) and not _is_log_only(s)]
                if others:
                    rep.fail(Finding(rule, rel, fi.qual, short(others[0]), "a statement inside the catch-all handler can itself raise before the translation", line=others[0].lineno))
                else:
                    rep.ok({"fn": fi.qual, "catch_all": f"raise {hcls}"})
            elif isinstance(last, ast.Raise) and last.exc is None:
                rep.fail(Finding(rule, rel, fi.qual, "except " + ",".join(names) + ": raise", "the catch-all handler re-raises the foreign exception unchanged", line=h.lineno))
            else:
                rep.fail(Finding(rule, rel, fi.qual, "except " + ",".join(names), f"the catch-all handler does not end in `raise <ExtractionError family>(...)` (ends in `{short(last, 50) if last is not None else 'nothing'}`)", line=h.lineno))
        else:
            fam = [n for n in names if n in family]
            if fam and len(fam) == len(names):
                if isinstance(last, ast.Raise) and (last.exc is None or raised_class(last) in family):
                    rep.ok({"fn": fi.qual, "family_handler": ",".join(names), "action": "re-raise"})
                else:
                    rep.fail(Finding(rule, rel, fi.qual, "except " + ",".join(names), "a handler for library errors swallows them instead of re-raising", line=h.lineno))
            else:
                # narrower foreign handler: must end in raise of family, or re-enter normal flow inside the try (not at wrapper level)
                if isinstance(last, ast.Raise) and last.exc is not None and raised_class(last) in family:
                    rep.ok()
                else:
                    rep.fail(Finding(rule, rel, fi.qual, "except " + ",".join(names), "a wrapper-level handler for foreign exceptions neither translates nor is the catch-all", line=h.lineno))
    if catch_all is None:
        rep.fail(Finding(rule, rel, fi.qual, "except " + " | ".join(",".join(_handler_names(h)) for h in t.handlers), f"no `except Exception` handler: exceptions outside {sorted(n for h in t.handlers for n in _handler_names(h))} escape {fi.qual} untranslated", line=t.lineno))
    # 3. else / finally
    for st in t.orelse:
        if not _nonraising(st):
            rep.fail(Finding(rule, rel, fi.qual, short(st), "statement in the else-clause of the translating try is not covered by its handlers", line=st.lineno))
    for st in t.finalbody:
        if _nonraising(st) or _is_log_only(st):
            rep.ok()
        else:
            rep.fail(Finding(rule, rel, fi.qual, short(st), "statement in the finally-clause can raise and replace the translated exception", line=st.lineno))
    # 4. every yield inside the try body
    inside = {id(n) for st in t.body for n in ast.walk(st)}
    ys = [n for n in walk_own(fn) if isinstance(n, (ast.Yield, ast.YieldFrom))]
    if not ys:
        rep.fail(Finding(rule, rel, fi.qual, "no yield", f"{fi.qual} is not a generator", line=fn.lineno))
    for y in ys:
        if id(y) in inside:
            rep.ok({"fn": fi.qual, "yield_inside_try": short(y, 50)})
        else:
            rep.fail(Finding(rule, rel, fi.qual, short(y), "a yield lies outside the translating try: work resumed after it is unprotected", line=y.lineno))


def _is_log_only(st) -> bool:
    """`total = time.perf_counter() - start` and logger calls over plain names / attributes / str(name)."""
    if isinstance(st, ast.Expr) and isinstance(st.value, ast.Call) and (dotted(st.value.func) or "").startswith("logger."):
        def plain(e):
            if isinstance(e, (ast.Constant, ast.Name)):
                return True
            if isinstance(e, ast.Attribute):
                return plain(e.value)
            if isinstance(e, ast.Call) and isinstance(e.func, ast.Name) and e.func.id in ("str", "repr", "len", "type") and len(e.args) == 1:
                return plain(e.args[0])
            if isinstance(e, ast.JoinedStr):
                return all(isinstance(v, ast.Constant) or plain(v.value) for v in e.values)
            if isinstance(e, ast.BinOp) and isinstance(e.op, (ast.Sub, ast.Add)):
                return plain(e.left) and plain(e.right)
            if isinstance(e, ast.Call) and dotted(e.func) == "time.perf_counter":
                return True
            return False
        return all(plain(a) for a in st.value.args) and all(plain(k.value) for k in st.value.keywords)
    for n in ast.walk(st):
        if isinstance(n, ast.Call):
            d = dotted(n.func) or ""
            if not (d.startswith("logger.") or d == "time.perf_counter"):
                return False
        if isinstance(n, (ast.Subscript, ast.Attribute)) and not (isinstance(n, ast.Attribute) and (dotted(n) or "").split(".")[0] in ("logger", "time")):
            return False
    return True


def check_swallow(ctx, rep, fi, family, what, rule="C01-WRAP", must_cover_all=True):
    """Template: per-item step whose try has a catch-all that logs and continues; only family classes may be re-raised."""
    fn = fi.node
    rel = fi.module.rel
    tries = [n for n in walk_own(fn) if isinstance(n, ast.Try)]
    covering = []
    for t in tries:
        alls = [h for h in t.handlers if any(n in ("Exception", "BaseException", "<bare>") for n in _handler_names(h))]
        if alls:
            covering.append((t, alls[0]))
    if not covering:
        rep.fail(Finding(rule, rel, fi.qual, what, f"{what}: no catch-all around the per-item step; one failing item fails the whole result stream with a foreign exception", line=fn.lineno))
        return
    for t, h in covering:
        last = _last_effective(h.body)
        if isinstance(last, ast.Raise):
            if last.exc is None or raised_class(last) not in family:
                rep.fail(Finding(rule, rel, fi.qual, "except Exception: " + short(last, 40), f"{what}: the catch-all re-raises a foreign exception", line=h.lineno))
            else:
                rep.ok()
        elif any(not _nonraising(s) and not _is_log_only(s) for s in h.body):
            bad = [s for s in h.body if not _nonraising(s) and not _is_log_only(s)][0]
            rep.fail(Finding(rule, rel, fi.qual, short(bad), f"{what}: a statement in the catch-all handler can raise", line=bad.lineno))
        else:
            rep.ok({"fn": fi.qual, "per_item": what, "catch_all": "log and continue"})
        for h2 in t.handlers:
            if h2 is h:
                continue
            names = _handler_names(h2)
            last2 = _last_effective(h2.body)
            if isinstance(last2, ast.Raise) and not all(n in family for n in names):
                rep.fail(Finding(rule, rel, fi.qual, "except " + ",".join(names), f"{what}: a non-family exception is re-raised past the per-item isolation", line=h2.lineno))
            else:
                rep.ok()
    # the extractor call / yield from must be inside one of the covering tries
    inside = {id(n) for t, _ in covering for st in t.body for n in ast.walk(st)}
    for y in [n for n in walk_own(fn) if isinstance(n, (ast.Yield, ast.YieldFrom))]:
        if id(y) in inside:
            rep.ok({"fn": fi.qual, "yield_covered": short(y, 50)})
        elif must_cover_all:
            rep.fail(Finding(rule, rel, fi.qual, short(y), f"{what}: results are produced outside the per-item catch-all", line=y.lineno))


def rule_wrap(ctx: Ctx) -> RuleReport:
    rep = RuleReport("C01-WRAP", "exception-escape discipline of extractors, read_file, archive members and attachments")
    family = exception_family(ctx)
    entries = extractor_entries(ctx)
    for key, fi in sorted(entries.items()):
        rep.unit(key)
        check_wrapper(ctx, rep, fi, family)
    # read_file: the iteration of the extractor happens inside try / except ExtractionError: raise / except Exception -> family
    rf = ctx.p.func(INIT, "read_file")
    rep.unit(rf.key)
    tries = [n for n in walk_own(rf.node) if isinstance(n, ast.Try)]
    loops = [n for n in walk_own(rf.node) if isinstance(n, ast.For) and isinstance(n.iter, ast.Call)]
    ok = False
    for t in tries:
        inside = {id(n) for st in t.body for n in ast.walk(st)}
        if loops and all(id(l) in inside for l in loops):
            alls = [h for h in t.handlers if any(n in ("Exception", "BaseException", "<bare>") for n in _handler_names(h))]
            fam = [h for h in t.handlers if all(n in family for n in _handler_names(h))]
            if alls and isinstance(_last_effective(alls[0].body), ast.Raise) and raised_class(alls[0].body[-1]) in family:
                ok = True
                rep.ok({"read_file": "extractor iterated inside try; catch-all -> " + raised_class(alls[0].body[-1])})
            for h in fam:
                last = _last_effective(h.body)
                if isinstance(last, ast.Raise):
                    rep.ok()
                else:
                    rep.fail(Finding("C01-WRAP", INIT, "read_file", "except " + ",".join(_handler_names(h)), "read_file swallows a library error", line=h.lineno))
            ys = [n for n in walk_own(rf.node) if isinstance(n, (ast.Yield, ast.YieldFrom))]
            for y in ys:
                if id(y) not in inside:
                    rep.fail(Finding("C01-WRAP", INIT, "read_file", short(y), "read_file yields outside its translating try", line=y.lineno))
    if not ok:
        rep.fail(Finding("C01-WRAP", INIT, "read_file", "try/except around the extractor loop", "read_file no longer re-wraps foreign exceptions raised while the extractor is iterated", line=rf.node.lineno))
    # what read_file raises by itself, for what the *file* is (size, content), is of the family too: only a complaint about an argument
    # of the call (a condition over the parameters alone) may be a ValueError / TypeError
    rf_params = {a.arg for a in rf.node.args.args + rf.node.args.kwonlyargs}
    for r in [n for n in walk_own(rf.node) if isinstance(n, ast.Raise) and n.exc is not None]:
        cls = raised_class(r)
        if cls in family or cls is None:
            rep.ok({"read_file": f"raise {cls}"})
            continue
        conds, opaque, _ = path_conditions(rf.node, r)
        names = set()
        for c in [str(x) for x in conds] + list(opaque):
            try:
                names |= {x.id for x in ast.walk(ast.parse(c, mode="eval")) if isinstance(x, ast.Name)}
            except SyntaxError:
                names.add("?")
        import builtins as _b

        foreign = {x for x in names if x not in rf_params and not hasattr(_b, x)}
        if foreign:
            rep.fail(Finding("C01-WRAP", INIT, "read_file", f"raise {cls} on a property of the file", f"read_file raises {cls} under a condition over {sorted(foreign)} -- something read from the file, not an argument of the call: for such a file an exception outside the ExtractionError family escapes", line=r.lineno))
        else:
            rep.ok({"read_file": f"raise {cls} on an argument check"})
    pe = ctx.p.func(ARCH, "_process_archive_entry")
    rep.unit(pe.key)
    check_swallow(ctx, rep, pe, family, "archive member")
    body = _body_wo_doc(pe.node)
    if len(body) == 1 and isinstance(body[0], ast.Try):
        rep.ok({"_process_archive_entry": "whole body inside the per-member try"})
    else:
        for st in body:
            if not isinstance(st, ast.Try) and not _nonraising(st):
                rep.fail(Finding("C01-WRAP", ARCH, pe.qual, short(st), "a fallible statement of the per-member step lies outside its try", line=st.lineno))
    at = ctx.p.func(DT, "EmailContent.iterate_supported_attachments")
    rep.unit(at.key)
    check_swallow(ctx, rep, at, family, "e-mail attachment")
    return rep


def rule_exit(ctx: Ctx) -> RuleReport:
    rep = RuleReport("C01-EXIT", "no process exit / BaseException raise reachable from an entry point")
    entries = list(extractor_entries(ctx).values())
    roots = entries + [ctx.p.func(INIT, "read_file"), ctx.p.func(DT, "EmailContent.iterate_supported_attachments")]
    for c in ctx.p.module(DT).classes.values():
        roots.extend(c.methods.values())
    reach = reachable_functions(ctx.p, roots, entries)
    rep.unit(f"{len(reach)} functions reachable from {len(roots)} roots")
    bad = 0
    for fi in reach.values():
        for n in walk_own(fi.node):
            if isinstance(n, ast.Call) and (dotted(n.func) or "") in ("sys.exit", "os._exit", "exit", "quit", "os.abort"):
                bad += 1
                rep.fail(Finding("C01-EXIT", fi.module.rel, fi.qual, short(n), "process exit reachable from an extraction entry point", line=n.lineno))
            if isinstance(n, ast.Raise) and raised_class(n) in ("SystemExit", "KeyboardInterrupt", "GeneratorExit", "BaseException"):
                bad += 1
                rep.fail(Finding("C01-EXIT", fi.module.rel, fi.qual, short(n), "a BaseException is raised on the extraction path; no wrapper translates it", line=n.lineno))
    if not bad:
        rep.ok({"reachable_functions": len(reach), "exits": 0})
    return rep


# ------------------------------------------------------------------------------------------------ CLI
def _is_stdout_write(call: ast.Call):
    d = dotted(call.func) or ""
    if d in ("sys.stdout.write", "sys.stdout.writelines", "sys.stdout.buffer.write"):
        return d.split(".")[-1]
    if d == "print":
        f = [k for k in call.keywords if k.arg == "file"]
        if not f or norm(f[0].value) == "sys.stdout":
            return "print"
    return None


def rule_cli(ctx: Ctx) -> RuleReport:
    rep = RuleReport("C01-CLI", "CLI: result + 0, or empty stdout + one stderr line + 1")
    main = ctx.p.func(CLI, "main")
    rep.unit(main.key)
    _cli_logging(ctx, rep)
    fn = main.node
    tries = [n for n in fn.body if isinstance(n, ast.Try)]
    work = None
    for t in tries:
        if any(any(nm in ("Exception", "BaseException") for nm in _handler_names(h)) for h in t.handlers):
            work = t
    if work is None:
        rep.fail(Finding("C01-CLI", CLI, "main", "try/except Exception", "main has no catch-all try around the extraction", line=fn.lineno))
        return rep
    h = [h for h in work.handlers if any(nm in ("Exception", "BaseException") for nm in _handler_names(h))][0]
    prints = [s for s in h.body if isinstance(s, ast.Expr) and isinstance(s.value, ast.Call) and dotted(s.value.func) == "print"]
    rets = [s for s in h.body if isinstance(s, ast.Return)]
    stderr_ok = len(prints) == 1 and any(k.arg == "file" and norm(k.value) == "sys.stderr" for k in prints[0].value.keywords)
    if stderr_ok and len(h.body) == 2 and len(rets) == 1 and norm(rets[0]) == "return 1":
        rep.ok({"handler": "print(one line, file=sys.stderr); return 1"})
    else:
        rep.fail(Finding("C01-CLI", CLI, "main", " ; ".join(short(s, 60) for s in h.body), "the catch-all handler is not exactly `print(<one line>, file=sys.stderr); return 1`", line=h.lineno))
    if prints:
        arg = prints[0].value.args[0] if prints[0].value.args else None
        if arg is not None and "\\n" in norm(arg):
            rep.fail(Finding("C01-CLI", CLI, "main", short(arg), "the diagnostic can span several lines", line=h.lineno))
    # uses of args.<x> outside the unknown-arguments check must be inside the try
    inside = {id(n) for st in work.body for n in ast.walk(st)}
    # the argparse namespace and the list of unknown arguments: targets of `<ns>, <unknown> = parser.parse_known_args(..)` / `<ns> = parser.parse_args(..)`
    ns_names, unk_names = set(), set()
    for n in walk_own(fn):
        if isinstance(n, ast.Assign) and isinstance(n.value, ast.Call) and isinstance(n.value.func, ast.Attribute) and n.value.func.attr in ("parse_known_args", "parse_args"):
            t = n.targets[0]
            if isinstance(t, ast.Tuple) and len(t.elts) == 2 and all(isinstance(e, ast.Name) for e in t.elts):
                ns_names.add(t.elts[0].id)
                unk_names.add(t.elts[1].id)
            elif isinstance(t, ast.Name):
                ns_names.add(t.id)
    if not ns_names:
        raise AnalysisError("C01-CLI: main no longer parses its arguments with argparse (parse_args / parse_known_args)")
    for n in walk_own(fn):
        if isinstance(n, ast.Attribute) and isinstance(n.value, ast.Name) and n.value.id in ns_names:
            if id(n) in inside:
                rep.ok()
            else:
                rep.fail(Finding("C01-CLI", CLI, "main", norm(n), "parsed arguments are used outside the catch-all try", line=n.lineno))
    # stdout discipline
    all_calls = [n for n in ast.walk(fn) if isinstance(n, ast.Call)]
    for c in all_calls:
        if _is_stdout_write(c) is None and any(norm(a) == "sys.stdout" for a in list(c.args) + [k.value for k in c.keywords]):
            rep.fail(Finding("C01-CLI", CLI, "main", short(c), "sys.stdout is handed to a serialiser that writes incrementally: a failure half-way leaves partial output on stdout before the diagnostic", line=c.lineno))
        kind = _is_stdout_write(c)
        if kind == "writelines":
            rep.fail(Finding("C01-CLI", CLI, "main", short(c), "writelines consumes its iterable lazily: a failure while producing a later chunk leaves earlier chunks on stdout", line=c.lineno))
        if kind in ("write", "print"):
            for a in c.args:
                if isinstance(a, ast.GeneratorExp) or (isinstance(a, ast.Call) and any(g.is_generator() for g in resolve_call(ctx.p, main, a).funcs)):
                    rep.fail(Finding("C01-CLI", CLI, "main", short(c), "a lazily evaluated value is written to stdout", line=c.lineno))
    # after the first stdout write on any path: only constant stdout writes and `return 0`
    cfg = ctx.cfg(main)
    writes = [c for c in all_calls if _is_stdout_write(c) and id(c) in inside]
    if not writes:
        rep.fail(Finding("C01-CLI", CLI, "main", "no stdout write", "main never writes a result to stdout", line=fn.lineno))
    wnodes = {x for w in writes for x in cfg.evaluators(w)}
    for w in writes:
        for start in cfg.evaluators(w):
            seen = set()
            stack = [s for s in cfg.succ[start] if cfg.elabel.get((start, s)) != "exc"]
            while stack:
                n = stack.pop()
                if n in seen:
                    continue
                seen.add(n)
                nd = cfg.nodes[n]
                if nd.kind in ("exit", "raise"):
                    continue
                st = nd.ast
                okst = nd.kind in ("join", "handler", "dispatch") or st is None
                if isinstance(st, ast.Return):
                    okst = True
                    if norm(st) != "return 0":
                        rep.fail(Finding("C01-CLI", CLI, "main", norm(st), "after writing the result main does not return 0", line=st.lineno))
                    continue
                if isinstance(st, ast.Expr) and isinstance(st.value, ast.Call) and _is_stdout_write(st.value) and all(isinstance(a, ast.Constant) for a in st.value.args):
                    okst = True
                if not okst:
                    rep.fail(Finding("C01-CLI", CLI, "main", short(st), f"fallible work follows the first write to stdout (`{short(w, 40)}`): if it fails, stdout is no longer empty when the diagnostic is printed", line=getattr(st, "lineno", None)))
                    continue
                for s in cfg.succ[n]:
                    if cfg.elabel.get((n, s)) != "exc" or not okst:
                        stack.append(s)
            rep.ok({"after_write": short(w, 50), "only": "constant writes and return 0"})
    # `return 0` only after a stdout write
    for r in [n for n in walk_own(fn) if isinstance(n, ast.Return) and norm(n) == "return 0"]:
        if all(normally_dominates(cfg, wnodes, b) or True for b in cfg.evaluators(r)):
            # joint dominance: removing all write nodes must disconnect the return
            b_ok = all(b not in cfg.reachable(cfg.entry, skip=wnodes) for b in cfg.evaluators(r))
            if b_ok:
                rep.ok({"return 0": "only after a write to stdout"})
            else:
                rep.fail(Finding("C01-CLI", CLI, "main", "return 0", "exit status 0 is reachable without any result having been written", line=r.lineno))
    # unknown-arguments path
    for st in fn.body:
        if isinstance(st, ast.If) and isinstance(st.test, ast.Name) and st.test.id in unk_names:
            pr = [s for s in st.body if isinstance(s, ast.Expr) and isinstance(s.value, ast.Call) and dotted(s.value.func) == "print"]
            if len(pr) == 1 and any(k.arg == "file" and norm(k.value) == "sys.stderr" for k in pr[0].value.keywords) and norm(st.body[-1]) == "return 1":
                rep.ok({"unknown_arguments": "one stderr line, return 1"})
            else:
                rep.fail(Finding("C01-CLI", CLI, "main", short(st, 80), "unknown-argument path is not `one stderr line; return 1`", line=st.lineno))
    return rep


# ------------------------------------------------------------------------------------------------ REC
DESC_METHODS = {"find", "findall", "iter", "iterfind", "get", "items", "values", "getchildren", "walk", "get_payload", "iter_parts", "iter_attachments"}


def _derived_names(fn: ast.AST, param: str) -> set[str]:
    """Names bound (transitively) to children/elements/fields of `param` inside fn."""
    derived = set()

    def base_is(e, names):
        while True:
            if isinstance(e, ast.Name):
                return e.id in names
            if isinstance(e, (ast.Attribute, ast.Subscript)):
                e = e.value
            elif isinstance(e, ast.Call):
                if isinstance(e.func, ast.Attribute):
                    e = e.func.value
                elif isinstance(e.func, ast.Name) and e.func.id in ("list", "iter", "reversed", "enumerate", "sorted", "tuple", "getattr", "zip", "fields") and e.args:
                    e = e.args[0]
                else:
                    return False
            else:
                return False

    changed = True
    while changed:
        changed = False
        src = derived | {param}
        for n in ast.walk(fn):
            tgt = None
            if isinstance(n, (ast.For, ast.comprehension)) and base_is(n.iter, src):
                tgt = n.target
            elif isinstance(n, ast.Assign) and len(n.targets) == 1 and base_is(n.value, src) and not (isinstance(n.value, ast.Name) and n.value.id == param):
                tgt = n.targets[0]
            elif isinstance(n, ast.NamedExpr) and base_is(n.value, src):
                tgt = n.target
            if tgt is not None:
                for x in ast.walk(tgt):
                    if isinstance(x, ast.Name) and x.id not in derived and x.id != param:
                        derived.add(x.id)
                        changed = True
    return derived


def _strictly_descends(fn, param, arg) -> bool | None:
    """True: arg is a child/element/field of param. False: arg IS param. None: unrelated."""
    if isinstance(arg, ast.Name) and arg.id == param:
        return False
    derived = _derived_names(fn, param)
    names = {n.id for n in ast.walk(arg) if isinstance(n, ast.Name)}
    if names & derived:
        return True
    # direct expression on the parameter: param.find(..), param[i], param.attr
    e = arg
    while isinstance(e, (ast.Attribute, ast.Subscript, ast.Call)):
        if isinstance(e, ast.Call):
            if isinstance(e.func, ast.Attribute):
                e = e.func.value
            else:
                break
        else:
            e = e.value
        if isinstance(e, ast.Name) and e.id == param:
            return True
    return None


def _cli_logging(ctx, rep):
    """'one diagnostic line on stderr': with no handler installed, logging.lastResort prints WARNING+ records to stderr by itself."""
    cli = ctx.p.module(CLI)
    main = ctx.p.func(CLI, "main")
    adds = [c for c in ast.walk(cli.tree) if isinstance(c, ast.Call) and isinstance(c.func, ast.Attribute) and c.func.attr == "addHandler" and isinstance(c.func.value, ast.Call) and (dotted(c.func.value.func) or "").endswith("getLogger")
            and (not c.func.value.args or (isinstance(c.func.value.args[0], ast.Constant) and c.func.value.args[0].value in ("", "sharepoint2text")))]
    adds += [c for c in ast.walk(cli.tree) if isinstance(c, ast.Call) and (dotted(c.func) or "") in ("logging.basicConfig", "logging.disable")]
    if adds:
        rep.ok({"cli_logging": f"{short(adds[0], 60)}: library log records do not reach stderr on their own"})
    else:
        rep.fail(Finding("C01-CLI", CLI, main.qual, "no logging handler installed", "the CLI installs no logging handler: Python's logging.lastResort then writes every WARNING / ERROR record of the library to stderr, so a failing file produces the logged line(s) in addition to the one diagnostic line", line=main.node.lineno))


def rule_rec(ctx: Ctx) -> RuleReport:
    rep = RuleReport("C01-REC", "every recursive call descends structurally")
    # direct recursion and the known mutual pair
    funcs = list(ctx.p.all_functions())
    callees = {}
    for fi in funcs:
        cs = []
        for c in calls_in(fi):
            t = resolve_call(ctx.p, fi, c)
            for g in t.funcs:
                cs.append((c, g))
        callees[fi.key] = cs
    # SCC membership limited to direct self calls and 2-cycles (enough for this code base; larger cycles are reported)
    n_rec = 0
    for fi in funcs:
        for c, g in callees[fi.key]:
            target = None
            if g is fi:
                target = fi
            elif any(h is fi for _c2, h in callees.get(g.key, [])) and g.module is fi.module and g is not fi:
                target = g  # mutual pair: fi -> g -> fi ; check the call fi->g against g's parameters fed from fi's
            # calls from a nested helper back into its enclosing function
            elif fi.parent is not None and g is fi.parent:
                target = g
            if target is None:
                continue
            n_rec += 1
            rep.unit(fi.key)
            params = [a.arg for a in target.node.args.args]
            if params and params[0] in ("self", "cls") and isinstance(c.func, ast.Attribute):
                params = params[1:]
            own_params = [a.arg for a in fi.node.args.args]
            verdicts = []
            for i, a in enumerate(c.args):
                if i >= len(params):
                    break
                # which of the caller's parameters plays the role of the structure? any parameter of the caller
                best = None
                for p in own_params + ([a2.arg for a2 in fi.parent.node.args.args] if fi.parent else []):
                    if p in ("self", "cls"):
                        continue
                    d = _strictly_descends(fi.node, p, a)
                    if d is True:
                        best = True
                        break
                    if d is False and (target is fi and p == params[i]):
                        best = False
                verdicts.append(best)
            for k in c.keywords:
                kv = None
                for p in own_params:
                    if p in ("self", "cls"):
                        continue
                    d = _strictly_descends(fi.node, p, k.value)
                    if d is True:
                        kv = True
                        break
                    if d is False and target is fi and p == k.arg:
                        kv = False
                verdicts.append(kv)
            if any(v is True for v in verdicts):
                rep.ok({"recursive_call": f"{fi.qual}: {short(c, 60)}", "descends": True})
            elif verdicts and all(v is False for v in verdicts) and target is fi:
                rep.fail(Finding("C01-REC", fi.module.rel, fi.qual, short(c), "recursive call passes its own parameter unchanged: unbounded recursion", line=c.lineno))
            else:
                rep.obligations += 1
                rep.residual.append(f"{fi.key}: `{short(c, 70)}` — descent not established (peer- or data-driven); not judged")
    if n_rec == 0:
        raise AnalysisError("C01-REC: no recursive call found (call resolution broken)")
    return rep


# ------------------------------------------------------------------------------------------------ LOOP
def _reader_ok_factory(ctx: Ctx, fi: FuncInfo):
    memo = {}

    def primitive(g: FuncInfo) -> bool:
        """data = S.read(n); if len(data) != n: raise"""
        reads = [n for n in walk_own(g.node) if isinstance(n, ast.Assign) and isinstance(n.value, ast.Call) and isinstance(n.value.func, ast.Attribute) and n.value.func.attr == "read" and n.value.args]
        for r in reads:
            v = r.targets[0].id if isinstance(r.targets[0], ast.Name) else None
            size = norm(r.value.args[0])
            for st in walk_own(g.node):
                if isinstance(st, ast.If) and st.body and isinstance(st.body[-1], ast.Raise) and norm(st.test) in (f"len({v}) != {size}", f"len({v}) < {size}"):
                    return True
        return False

    def consuming(g: FuncInfo, depth=0) -> bool:
        if g.key in memo:
            return memo[g.key]
        memo[g.key] = False
        if depth > 4:
            return False
        res = False
        # first effective statement unconditionally calls a consuming reader with a positive constant size
        for st in [s for s in g.node.body if not is_noise(s)][:2]:
            if isinstance(st, (ast.If, ast.For, ast.While, ast.Try, ast.With)):
                break
            for c in [n for n in ast.walk(st) if isinstance(n, ast.Call)]:
                t = resolve_call(ctx.p, g, c)
                for h in t.funcs:
                    if primitive(h):
                        if c.args and isinstance(c.args[0], ast.Constant) and isinstance(c.args[0].value, int) and c.args[0].value >= 1:
                            res = True
                    elif consuming(h, depth + 1):
                        res = True
        memo[g.key] = res
        return res

    def ok(call: ast.Call) -> bool:
        t = resolve_call(ctx.p, fi, call)
        for g in t.funcs:
            if primitive(g) and call.args and isinstance(call.args[0], ast.Constant) and isinstance(call.args[0].value, int) and call.args[0].value >= 1:
                return True
            if consuming(g):
                return True
        return False

    return ok


def _eof_spin(ctx: Ctx, fi: FuncInfo, w: ast.While):
    """`while True:` whose only exits compare a raw stream read with non-empty constants: at end of input read() returns b'' forever.

    Returns the offending read statement, or None. Deliberately narrow: every exit of the loop must be guarded solely by such a
    comparison; a counter, a length test, a falsy test of the value or a checked reader (which raises on a short read) leaves it alone.
    """
    if not (isinstance(w.test, ast.Constant) and w.test.value is True):
        return None
    # local aliases of an unchecked read:  r = <expr>.read
    aliases = set()
    for n in walk_own(fi.node):
        if isinstance(n, ast.Assign) and len(n.targets) == 1 and isinstance(n.targets[0], ast.Name) and isinstance(n.value, ast.Attribute) and n.value.attr == "read":
            aliases.add(n.targets[0].id)
    reads = {}
    for n in ast.walk(w):
        if isinstance(n, ast.Assign) and len(n.targets) == 1 and isinstance(n.targets[0], ast.Name) and isinstance(n.value, ast.Call):
            f = n.value.func
            raw = (isinstance(f, ast.Name) and f.id in aliases) or (isinstance(f, ast.Attribute) and f.attr == "read" and not resolve_call(ctx.p, fi, n.value).funcs)
            if raw:
                reads[n.targets[0].id] = n
    if not reads:
        return None

    def nonempty_const(e):
        v = ctx.folder.fold(fi.module, e)
        if isinstance(v, (bytes, str)):
            return len(v) > 0
        if isinstance(v, (tuple, list, set, frozenset)):
            return bool(v) and all(isinstance(x, (bytes, str)) and len(x) > 0 for x in v)
        return False

    def only_nonempty_compare(test, var):
        """test can only be true when `var` is non-empty"""
        if isinstance(test, ast.Compare) and len(test.ops) == 1 and isinstance(test.left, ast.Name) and test.left.id == var:
            if isinstance(test.ops[0], (ast.Eq, ast.In)):
                return nonempty_const(test.comparators[0])
        if isinstance(test, ast.Call) and isinstance(test.func, ast.Attribute) and test.func.attr in ("startswith", "endswith") and isinstance(test.func.value, ast.Name) and test.func.value.id == var and test.args:
            return nonempty_const(test.args[0])
        return False

    exits = []  # (exit stmt, guarding tests as (test, polarity))
    def visit(stmts, guards):
        for st in stmts:
            if isinstance(st, (ast.Break, ast.Return, ast.Raise)):
                exits.append((st, list(guards)))
            elif isinstance(st, ast.If):
                visit(st.body, guards + [(st.test, True)])
                visit(st.orelse, guards + [(st.test, False)])
            elif isinstance(st, (ast.For, ast.While)):
                # exits of inner loops do not leave this one; a return / raise inside does
                for sub in ast.walk(st):
                    if isinstance(sub, (ast.Return, ast.Raise)):
                        exits.append((sub, None))
            elif isinstance(st, (ast.With, ast.Try)):
                visit(getattr(st, "body", []), guards)
                for h in getattr(st, "handlers", []):
                    visit(h.body, guards + [(None, True)])
                visit(getattr(st, "finalbody", []), guards)
            else:
                # a call that may raise is an exit we cannot see through: be quiet
                for sub in ast.walk(st):
                    if isinstance(sub, ast.Call) and resolve_call(ctx.p, fi, sub).funcs:
                        exits.append((sub, None))
    visit(w.body, [])
    if not exits:
        return None
    for var, rd in reads.items():
        if all(g is not None and g and all(t is not None and pol and only_nonempty_compare(t, var) for t, pol in g[-1:]) and len(g) == 1 for _st, g in exits):
            return rd
    return None


def rule_loop(ctx: Ctx) -> RuleReport:
    rep = RuleReport("C01-LOOP", "while-loop progress (variants V1-V5), path by path")
    n = 0
    for fi in ctx.p.all_functions():
        loops = [w for w in walk_own(fi.node) if isinstance(w, ast.While)]
        if not loops:
            continue
        cfg = ctx.cfg(fi)
        res = Resolver(ctx, fi)
        rok = _reader_ok_factory(ctx, fi)
        for w in loops:
            n += 1
            v = LoopAnalysis(fi.node, cfg, w, rok, res).analyse()
            rep.unit(f"{fi.key}: while {short(w.test, 50)}")
            if v.status == "proved":
                rep.ok({"loop": f"{fi.qual}: while {short(w.test, 50)}", "variant": v.variant})
            elif v.status == "violation":
                rep.fail(Finding("C01-LOOP", fi.module.rel, fi.qual, f"while {short(w.test, 80)}", v.reason, line=w.lineno, path=v.witness))
            elif (spin := _eof_spin(ctx, fi, w)) is not None:
                rep.fail(Finding("C01-LOOP", fi.module.rel, fi.qual, f"while True: {short(spin, 60)}",
                                 "the loop leaves only when an unchecked stream read returns a specific non-empty value; at the end of a truncated input read() returns b'' on every iteration and the loop never ends",
                                 line=spin.lineno))
            else:
                rep.obligations += 1
                rep.residual.append(f"{fi.key}: while {short(w.test, 60)} — {v.reason} ({v.paths} paths); not judged")
    if n < 25:
        raise AnalysisError(f"C01-LOOP: only {n} while-loops found (floor 25)")
    return rep


def rule_unbound(ctx: Ctx) -> RuleReport:
    """A handler (or finally block) that reads a local which is not assigned on every path into it replaces the failure it was
    meant to translate by an UnboundLocalError, which escapes the translation (`except Exception as exc: raise Family(f"... {page}")`)."""
    from sa.engine.defassign import definitely_assigned, local_store_names

    rep = RuleReport("C01-UNBOUND", "handlers and finally blocks read only locals that are assigned on every path into them")
    n_handlers = 0
    for fi in ctx.p.all_functions():
        if not (fi.module.rel.startswith("sharepoint2text/") and "/tests/" not in fi.module.rel):
            continue
        tries = [t for t in walk_own(fi.node) if isinstance(t, ast.Try)]
        if not tries:
            continue
        cfg = ctx.cfg(fi)
        da = definitely_assigned(cfg, fi.node)
        locs = local_store_names(fi.node)
        for t in tries:
            regions = [("except " + ",".join(_handler_names(h)), h.body) for h in t.handlers] + ([("finally", t.finalbody)] if t.finalbody else [])
            for what, body in regions:
                n_handlers += 1
                bad = None
                for nd in cfg.nodes:
                    if nd.ast is None or nd.kind not in ("stmt", "test", "iter", "for", "with"):
                        continue
                    if not any(nd.ast is x or (nd.stmt is not None and nd.stmt is x) for b in body for x in ast.walk(b)):
                        continue
                    state = da.get(nd.id)
                    if state is None:
                        continue
                    if nd.kind == "for":
                        exprs = [nd.ast.iter]
                    elif nd.kind == "with":
                        exprs = [it.context_expr for it in nd.ast.items]
                    elif isinstance(nd.ast, (ast.FunctionDef, ast.AsyncFunctionDef, ast.ClassDef, ast.Lambda)):
                        exprs = []
                    else:
                        exprs = [nd.ast]
                    reads = [x for e_ in exprs for x in ast.walk(e_) if isinstance(x, ast.Name) and isinstance(x.ctx, ast.Load) and x.id in locs and x.id not in state]
                    # a name assigned earlier inside the same handler statement list is fine (state covers it); comprehension targets are their own scope
                    comp_targets = {y.id for c in ast.walk(nd.ast) if isinstance(c, ast.comprehension) for y in ast.walk(c.target) if isinstance(y, ast.Name)}
                    reads = [x for x in reads if x.id not in comp_targets]
                    if reads:
                        bad = (nd, reads[0])
                        break
                if bad is None:
                    rep.ok({"fn": fi.qual, "region": what} if n_handlers % 25 == 0 else None)
                else:
                    nd, nm = bad
                    rep.unit(fi.key)
                    rep.fail(Finding("C01-UNBOUND", fi.module.rel, fi.qual, f"{what}: {short(nd.ast, 70)}",
                                     f"`{nm.id}` is read in the {what.split()[0]} block but is not assigned on every path that leads there (an exception raised before its first assignment): the block itself raises UnboundLocalError and the original failure escapes untranslated", line=nm.lineno))
    if n_handlers < 150:
        raise AnalysisError(f"C01-UNBOUND: only {n_handlers} handler / finally regions found (150 confirmed)")
    return rep


# Patterns whose loop is exponentially ambiguous but whose matcher provably never reaches the ambiguous paths first. One named
# constant each, keyed by the exact pattern text (any edit of the pattern re-opens the question).
REGEX_EXEMPT: dict = {}  # (module, exact pattern text) -> reason; empty: the one exempted pattern (RTF _RE_PICT) was replaced by a linear scanner
_RE_FUNCS = {"compile", "sub", "subn", "search", "match", "findall", "finditer", "split", "fullmatch"}


def _pattern_of(ctx, mod, e):
    """The pattern text of a regex call: constants folded; non-constant pieces (re.escape(x), a keyword from a fixed tuple)
    are replaced by one literal letter, which only removes choices from the language."""
    v = ctx.folder.fold(mod, e)
    if isinstance(v, (str, bytes)):
        return v, False
    if isinstance(e, ast.BinOp) and isinstance(e.op, ast.Add):
        l, r = _pattern_of(ctx, mod, e.left), _pattern_of(ctx, mod, e.right)
        if l and r and type(l[0]) is type(r[0]):
            return l[0] + r[0], True
        return None
    if isinstance(e, ast.JoinedStr):
        out = ""
        for part in e.values:
            if isinstance(part, ast.Constant):
                out += part.value
            else:
                out += "Q"
        return out, True
    if isinstance(e, (ast.Call, ast.Name, ast.Attribute, ast.Subscript)):
        return "Q", True
    return None


def rule_regex(ctx: Ctx) -> RuleReport:
    """Termination: no regular expression of the library has an exponentially ambiguous loop (catastrophic backtracking)."""
    import re as _re

    from sa.engine.redos import Undecided, exponential_ambiguity

    rep = RuleReport("C01-REGEX", "no regex constant contains a loop that can be traversed in two ways on the same text (EDA on the pattern's Thompson automaton): "
                     "a backtracking matcher needs 2^n steps on such input, which is non-termination in practice")
    for m in ctx.p.modules.values():
        if "/tests/" in m.rel:
            continue
        for c in ast.walk(m.tree):
            if not (isinstance(c, ast.Call) and c.args):
                continue
            d = dotted(c.func) or ""
            if not (d.startswith("re.") and d.split(".")[-1] in _RE_FUNCS and d.count(".") == 1):
                continue
            got = _pattern_of(ctx, m, c.args[0])
            if got is None or got == ("Q", True):
                rep.obligations += 1
                rep.residual.append(f"{m.rel}:{c.lineno}: pattern `{short(c.args[0], 50)}` is not a constant; not judged")
                continue
            pat, partial = got
            fl = 0
            for a in list(c.args[1:]) + [k.value for k in c.keywords]:
                for x in ast.walk(a):
                    if isinstance(x, ast.Attribute) and isinstance(x.value, ast.Name) and x.value.id == "re" and isinstance(getattr(_re, x.attr, None), _re.RegexFlag):
                        fl |= getattr(_re, x.attr)
            rep.unit(m.rel)
            try:
                w = exponential_ambiguity(pat, int(fl))
            except Undecided as exc:
                rep.obligations += 1
                rep.residual.append(f"{m.rel}:{c.lineno}: {exc}; not judged")
                continue
            except Exception as exc:  # a pattern the stdlib parser rejects cannot be compiled by the library either
                raise AnalysisError(f"C01-REGEX: cannot parse the pattern at {m.rel}:{c.lineno}: {exc}")
            text = pat if isinstance(pat, str) else pat.decode("latin-1")
            if w is None:
                rep.ok({"pattern": text[:60], "where": f"{m.rel.split('/')[-1]}:{c.lineno}", "ambiguous_loop": False})
            elif (m.rel, text) in REGEX_EXEMPT:
                rep.ok({"pattern": text[:60], "ambiguous_loop": True, "exempt": REGEX_EXEMPT[(m.rel, text)][:200]})
            else:
                rep.fail(Finding("C01-REGEX", m.rel, "<module>" if True else "", "regex " + text[:120], f"the pattern `{text[:100]}` has an exponentially ambiguous loop: {w}. On input that makes the rest of the pattern fail the matcher tries every division (2^n for n repetitions): the extraction never returns", line=c.lineno))
    # a scan whose cost grows with the square of the input does return, but not in any time a caller waits for: the one place where a
    # restart-prone pattern meets input of unbounded length (= the HTML clause of C12-REGEX)
    from sa.rules.c12 import html_sniff_window

    html_sniff_window(ctx, rep, "C01-REGEX")
    return rep


def rule_borrow(ctx: Ctx) -> RuleReport:
    """The input stream is borrowed: an extractor that closes it makes the caller's next use fail with ValueError (outside the family)."""
    from sa.rules import c06

    src = c06.rule_input(ctx)
    rep = RuleReport("C01-BORROW", "no extractor closes the stream it was given (`with stream:`, stream.close()): the attachment iterator and callers rewind it afterwards")
    rep.units = src.units
    for f in src.findings:
        if f.construct.startswith("with ") or ".close(" in f.construct:
            rep.fail(Finding("C01-BORROW", f.file, f.function, f.construct, f.message + " — `ValueError: I/O operation on closed file` escapes instead of an ExtractionError", line=f.line))
    for _ in range(max(0, src.obligations - len(rep.findings))):
        rep.ok()
    return rep


RULES = [rule_wrap, rule_exit, rule_cli, rule_rec, rule_loop, rule_unbound, rule_borrow, rule_regex]
